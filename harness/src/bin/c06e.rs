//! C06E (sub-check of C06) — the end-to-end Binance L2 pipeline, websocket frames → local order books.
//! Ops: see lean/BarterModel/Driver/C06E.lean.
//!
//! After every `open` / `f` / `eos` op the WHOLE real pipeline is run from scratch, in-process and
//! offline, on the input so far (a list of connections, each = REST snapshots, messages buffered
//! during subscription validation, websocket frames, socket ended or still open):
//!
//! * the `init` closure handed to the real `init_reconnecting_stream` does, per invocation, what the
//!   tail of `impl MarketStream for ExchangeWsStream<_>::init` (barter-data/src/lib.rs) does after
//!   `subscribe` / `fetch_snapshots`: the snapshots are `BinanceOrderBookL2Snapshot`s parsed from JSON
//!   and turned into `MarketEvent`s by the real `From` impl; the real `ExchangeTransformer::init` of
//!   `BinanceSpotOrderBooksL2Transformer` / `BinanceFuturesUsdOrderBooksL2Transformer`; the real
//!   `process_buffered_events::<WebSocketParser, _>`; `processed.extend(snapshots)`; the real
//!   `ExchangeStream::<WebSocketParser, _, _>::new(inner, transformer, processed)` over an in-memory
//!   stream of real tungstenite `Message`s (`Text` / `Binary` carrying real JSON, `Ping`, `Pong`,
//!   `Frame`, `Close`) and tungstenite errors, followed by `stream::pending()` unless the socket ended;
//! * then the combinator chain of `init_market_stream` (consumer.rs) and the error handler + manager of
//!   `init_multi_order_book_l2_manager` (manager.rs) — WITHOUT the `StreamBuilder::subscribe/init` stage that
//!   sits between them in the real function (validate / sort / dedup of the subscriptions, a spawned
//!   `forward_to` task into an unbounded mpsc, `select_all`; declared in props/C06E.py ASSUMPTIONS):
//!   `.with_reconnect_backoff(policy, key)
//!   .with_termination_on_error(|e| e.is_terminal(), key).with_reconnection_events(exchange)
//!   .with_error_handler(..)` into the real `OrderBookL2Manager { stream, books }.run()` over an
//!   `OrderBookMapMulti` of default books; an `inspect` between handler and manager records the events
//!   the manager receives.
//!
//! `depth k n` declares that the REST snapshots of instrument `k` are cut to the best `n` levels per side (the code's
//! fetchers request `limit=100`; the harness bypasses the HTTP fetch): from then on every observation also prints,
//! after the `book` lines, `lv<k>:<b|a>:<price> <amount>` for every price of `venue k`.
//!
//! Everything runs on a current-thread runtime with a paused clock; a timeout far beyond every
//! back-off sleep detects that the pipeline is pending for good, then the shared books are read.
use barter_data::{
    Identifier,
    books::{Level, OrderBook, manager::OrderBookL2Manager, map::OrderBookMapMulti},
    error::DataError,
    event::MarketEvent,
    exchange::{
        binance::{
            book::l2::BinanceOrderBookL2Snapshot,
            channel::BinanceChannel,
            futures::l2::BinanceFuturesUsdOrderBooksL2Transformer,
            spot::l2::BinanceSpotOrderBooksL2Transformer,
        },
        subscription::ExchangeSub,
    },
    process_buffered_events,
    streams::{
        consumer::{MarketStreamEvent, StreamKey},
        reconnect::stream::{ReconnectingStream, ReconnectionBackoffPolicy, init_reconnecting_stream},
    },
    subscription::{Map, book::OrderBookEvent},
    transformer::ExchangeTransformer,
};
use barter_instrument::exchange::ExchangeId;
use barter_integration::{
    protocol::websocket::{WebSocketParser, WsError, WsMessage},
    stream::ExchangeStream,
    subscription::SubscriptionId,
};
use fnv::FnvHashMap;
use futures::{StreamExt, stream::LocalBoxStream};
use rust_decimal::Decimal;
use std::{
    collections::{BTreeMap, VecDeque},
    sync::{Arc, Mutex},
    time::Duration,
};
use tokio_tungstenite::tungstenite::{
    error::{CapacityError, ProtocolError},
    protocol::frame::Frame,
};
use vh::*;

type Ev = MarketEvent<usize, OrderBookEvent>;
type Res = Result<Ev, DataError>;

fn symbol(k: usize) -> String {
    format!("SYM{k}")
}

/// the subscription id the real deserialiser derives from `"s": "SYMk"`
fn sub_id(k: usize) -> SubscriptionId {
    ExchangeSub::from((BinanceChannel::ORDER_BOOK_L2, symbol(k))).id()
}

fn fmt_levels(ls: &[Level]) -> String {
    ls.iter()
        .map(|l| format!("{}:{}", fmt_dec(l.price), fmt_dec(l.amount)))
        .collect::<Vec<_>>()
        .join(" ")
}

fn fmt_book(b: &OrderBook) -> String {
    format!(
        "{} {} | {}",
        b.sequence,
        fmt_levels(b.bids().levels()),
        fmt_levels(b.asks().levels())
    )
}

type Sides = (Vec<(String, String)>, Vec<(String, String)>);

/// `| bids | asks` → (bids, asks) as (price, amount) strings
fn parse_sides(toks: &[String]) -> Option<Sides> {
    if toks.first().map(|s| s.as_str()) != Some("|") {
        return None;
    }
    let rest = &toks[1..];
    let bar = rest.iter().position(|t| t == "|")?;
    let lv = |ts: &[String]| -> Option<Vec<(String, String)>> {
        ts.iter()
            .map(|t| {
                let (p, a) = t.split_once(':')?;
                p.parse::<Decimal>().ok()?;
                a.parse::<Decimal>().ok()?;
                Some((p.to_string(), a.to_string()))
            })
            .collect()
    };
    Some((lv(&rest[..bar])?, lv(&rest[bar + 1..])?))
}

fn json_levels(ls: &[(String, String)]) -> String {
    let inner = ls
        .iter()
        .map(|(p, a)| format!("[\"{p}\",\"{a}\"]"))
        .collect::<Vec<_>>()
        .join(",");
    format!("[{inner}]")
}

/// the prices of `venue k` per side (bids, asks), ascending, each once
type Universe = (std::collections::BTreeSet<Decimal>, std::collections::BTreeSet<Decimal>);

/// `venue k id:b|a:price:amount …` → the price universe of instrument `k`
fn parse_universe(toks: &[String]) -> Option<(usize, Universe)> {
    let k: usize = toks.first()?.parse().ok()?;
    let mut u: Universe = Default::default();
    for c in &toks[1..] {
        let f: Vec<&str> = c.split(':').collect();
        if f.len() != 4 {
            return None;
        }
        f[0].parse::<u64>().ok()?;
        let p: Decimal = f[2].parse().ok()?;
        f[3].parse::<Decimal>().ok()?;
        match f[1] {
            "b" => u.0.insert(p),
            "a" => u.1.insert(p),
            _ => return None,
        };
    }
    Some((k, u))
}

/// per-level observation: the managed book's amount at every price of the venue's universe (0 = no level)
fn lv_lines(lines: &mut Vec<String>, depths: &[usize], uni: &BTreeMap<usize, Universe>, books: &[OrderBook]) {
    for (k, b) in books.iter().enumerate() {
        if !depths.contains(&k) {
            continue;
        }
        let empty = Universe::default();
        let (ub, ua) = uni.get(&k).unwrap_or(&empty);
        for (tag, prices, levels) in [("b", ub, b.bids().levels()), ("a", ua, b.asks().levels())] {
            for p in prices {
                let amount = levels.iter().find(|l| l.price == *p).map(|l| l.amount).unwrap_or(Decimal::ZERO);
                lines.push(format!("lv{k}:{tag}:{} {}", fmt_dec(*p), fmt_dec(amount)));
            }
        }
    }
}

// ------------------------------------------------------------------------------------ input

#[derive(Clone, Debug)]
enum FrameSpec {
    Text(String),
    Binary(Vec<u8>),
    Ping,
    Pong,
    Raw,
    Close,
    Err(String),
}

#[derive(Clone, Default)]
struct ConnSpec {
    snapshots: Vec<Ev>,
    buffered: Vec<FrameSpec>,
    frames: Vec<FrameSpec>,
    ended: bool,
}

fn ws_error(kind: &str) -> WsError {
    match kind {
        "closed" => WsError::ConnectionClosed,
        "already" => WsError::AlreadyClosed,
        "io" => WsError::Io(std::io::Error::other("scripted")),
        "proto_reset" => WsError::Protocol(ProtocolError::ResetWithoutClosingHandshake),
        "utf8" => WsError::Utf8,
        "capacity" => WsError::Capacity(CapacityError::TooManyHeaders),
        other => panic!("bad ws error kind {other}"),
    }
}

const WS_ERROR_KINDS: [&str; 6] = ["closed", "already", "io", "proto_reset", "utf8", "capacity"];

fn to_message(f: &FrameSpec) -> Result<WsMessage, WsError> {
    match f {
        FrameSpec::Text(t) => Ok(WsMessage::text(t.clone())),
        FrameSpec::Binary(b) => Ok(WsMessage::Binary(b.clone().into())),
        FrameSpec::Ping => Ok(WsMessage::Ping(vec![1u8, 2].into())),
        FrameSpec::Pong => Ok(WsMessage::Pong(vec![].into())),
        FrameSpec::Raw => Ok(WsMessage::Frame(Frame::ping(vec![7u8]))),
        FrameSpec::Close => Ok(WsMessage::Close(None)),
        FrameSpec::Err(kind) => Err(ws_error(kind)),
    }
}

/// texts that are not depth-update messages of either rule set
const BAD_TEXTS: [&str; 8] = [
    "not json",
    "{\"result\":null,\"id\":1}",
    "{\"e\":\"depthUpdate\",\"E\":1671656397761,\"s\":\"SYM0\",\"U\":1}",
    "[]",
    "{\"e\":\"depthUpdate\",\"E\":1671656397761,\"T\":1671656397760,\"s\":\"SYM0\",\"U\":\"x\",\"u\":2,\"pu\":0,\"b\":[],\"a\":[]}",
    "",
    "{\"e\":\"depthUpdate\",\"E\":1671656397761,\"T\":1671656397760,\"s\":\"SYM0\",\"U\":1,\"u\":2,\"pu\":0,\"b\":[[\"abc\",\"1\"]],\"a\":[]}",
    "{\"e\":\"depthUpdate\",\"E\":1671656397761,\"T\":1671656397760,\"U\":1,\"u\":2,\"pu\":0,\"b\":[],\"a\":[]}",
];

fn update_json(spot: bool, toks: &[String]) -> Option<String> {
    if toks.len() < 4 {
        return None;
    }
    let sym: usize = toks[0].parse().ok()?;
    let first: u64 = toks[1].parse().ok()?;
    let last: u64 = toks[2].parse().ok()?;
    let pu: u64 = toks[3].parse().ok()?;
    let (bids, asks) = parse_sides(&toks[4..])?;
    Some(if spot {
        format!(
            "{{\"e\":\"depthUpdate\",\"E\":1671656397761,\"s\":\"{}\",\"U\":{first},\"u\":{last},\"b\":{},\"a\":{}}}",
            symbol(sym),
            json_levels(&bids),
            json_levels(&asks)
        )
    } else {
        format!(
            "{{\"e\":\"depthUpdate\",\"E\":1571889248277,\"T\":1571889248276,\"s\":\"{}\",\"U\":{first},\"u\":{last},\"pu\":{pu},\"b\":{},\"a\":{}}}",
            symbol(sym),
            json_levels(&bids),
            json_levels(&asks)
        )
    })
}

/// a frame op without its leading `f` / `buf`
fn parse_frame(spot: bool, toks: &[String]) -> Option<FrameSpec> {
    match toks.first()?.as_str() {
        "upd" => update_json(spot, &toks[1..]).map(FrameSpec::Text),
        "bin" => update_json(spot, &toks[1..]).map(|j| FrameSpec::Binary(j.into_bytes())),
        "bad" if toks.len() == 2 => {
            let i: usize = toks[1].parse().ok()?;
            Some(FrameSpec::Text(BAD_TEXTS[i % BAD_TEXTS.len()].to_string()))
        }
        // a Binary frame that does not deserialise: the bytes of one of the bad texts, or bytes that are not UTF-8
        "binbad" if toks.len() == 2 => {
            let i: usize = toks[1].parse().ok()?;
            Some(FrameSpec::Binary(if i % 9 == 8 {
                vec![0xff, 0xfe, 0x7b]
            } else {
                BAD_TEXTS[i % 9].as_bytes().to_vec()
            }))
        }
        "ping" if toks.len() == 1 => Some(FrameSpec::Ping),
        "pong" if toks.len() == 1 => Some(FrameSpec::Pong),
        "raw" if toks.len() == 1 => Some(FrameSpec::Raw),
        "close" if toks.len() == 1 => Some(FrameSpec::Close),
        "err" if toks.len() == 2 && WS_ERROR_KINDS.contains(&toks[1].as_str()) => Some(FrameSpec::Err(toks[1].clone())),
        _ => None,
    }
}

fn parse_snapshot(spot: bool, upd: bool, toks: &[String]) -> Option<Ev> {
    if toks.len() < 2 {
        return None;
    }
    let k: usize = toks[0].parse().ok()?;
    let s: u64 = toks[1].parse().ok()?;
    let (bids, asks) = parse_sides(&toks[2..])?;
    let json = format!(
        "{{\"lastUpdateId\":{s},\"bids\":{},\"asks\":{}}}",
        json_levels(&bids),
        json_levels(&asks)
    );
    let snapshot: BinanceOrderBookL2Snapshot = serde_json::from_str(&json).expect("snapshot json");
    let mut ev: Ev = MarketEvent::from((exchange(spot), k, snapshot));
    if upd {
        let OrderBookEvent::Snapshot(b) = ev.kind.clone() else { unreachable!() };
        ev.kind = OrderBookEvent::Update(b);
    }
    Some(ev)
}

fn exchange(spot: bool) -> ExchangeId {
    if spot { ExchangeId::BinanceSpot } else { ExchangeId::BinanceFuturesUsd }
}

// ------------------------------------------------------------------------------------ the pipeline

fn fmt_event(ev: &MarketStreamEvent<usize, OrderBookEvent>) -> String {
    match ev {
        MarketStreamEvent::Reconnecting(_) => "ev reconnecting".into(),
        MarketStreamEvent::Item(ev) => match &ev.kind {
            OrderBookEvent::Update(b) => format!("ev upd {} {}", ev.instrument, fmt_book(b)),
            OrderBookEvent::Snapshot(b) => format!("ev snap {} {}", ev.instrument, fmt_book(b)),
        },
    }
}

fn fmt_handled(e: &DataError) -> String {
    match e {
        DataError::InvalidSequence {
            prev_last_update_id,
            first_update_id,
        } => format!("he invalid-sequence {prev_last_update_id} {first_update_id}"),
        DataError::Socket(text) if text.starts_with("Deserialising JSON error") => "he deser".into(),
        DataError::Socket(text) if text.starts_with("ExchangeStream terminated") => "he terminated".into(),
        DataError::Socket(text) if text.starts_with("WebSocket error") => "he ws".into(),
        DataError::Socket(text) if text.starts_with("consumed unidentifiable message") => {
            // "... unidentifiable message: @depth@100ms|SYMk"
            let sym = text.rsplit("SYM").next().unwrap_or("?");
            format!("he unident {sym}")
        }
        other => format!("he other {}", format!("{other:?}").replace(' ', "_")),
    }
}

/// what one invocation of the `init` closure does with the input of one connection (the tail of
/// `MarketStream::init` after `subscribe` and `fetch_snapshots`)
async fn connect(spot: bool, n: usize, c: ConnSpec) -> Result<LocalBoxStream<'static, Res>, DataError> {
    let map: Map<usize> = (0..n).map(|k| (sub_id(k), k)).collect();
    let (tx, rx) = tokio::sync::mpsc::unbounded_channel();
    // nobody reads the transformer's messages to the exchange (Binance L2 sends none)
    std::mem::forget(rx);
    let frames: Vec<Result<WsMessage, WsError>> = c.frames.iter().map(to_message).collect();
    let inner: LocalBoxStream<'static, Result<WsMessage, WsError>> = if c.ended {
        futures::stream::iter(frames).boxed_local()
    } else {
        futures::stream::iter(frames).chain(futures::stream::pending()).boxed_local()
    };
    let buffered: Vec<WsMessage> = c
        .buffered
        .iter()
        .map(|f| to_message(f).expect("buffered messages are messages"))
        .collect();
    if spot {
        let mut transformer = BinanceSpotOrderBooksL2Transformer::<usize>::init(map, &c.snapshots, tx).await?;
        let mut processed = process_buffered_events::<WebSocketParser, _>(&mut transformer, buffered);
        processed.extend(c.snapshots.into_iter().map(Ok));
        Ok(ExchangeStream::<WebSocketParser, _, _>::new(inner, transformer, processed).boxed_local())
    } else {
        let mut transformer = BinanceFuturesUsdOrderBooksL2Transformer::<usize>::init(map, &c.snapshots, tx).await?;
        let mut processed = process_buffered_events::<WebSocketParser, _>(&mut transformer, buffered);
        processed.extend(c.snapshots.into_iter().map(Ok));
        Ok(ExchangeStream::<WebSocketParser, _, _>::new(inner, transformer, processed).boxed_local())
    }
}

struct Observed {
    fin: &'static str,
    events: Vec<String>,
    handled: Vec<String>,
    books: Vec<OrderBook>,
}

fn run_pipeline(spot: bool, n: usize, m: usize, conns: &[ConnSpec]) -> Observed {
    let rt = tokio::runtime::Builder::new_current_thread()
        .enable_time()
        .start_paused(true)
        .build()
        .unwrap();
    let script: Arc<Mutex<VecDeque<ConnSpec>>> = Arc::new(Mutex::new(conns.iter().cloned().collect()));
    let cells: Vec<Arc<_>> = (0..m).map(|_| Arc::default()).collect();
    let books = OrderBookMapMulti::new(
        cells
            .iter()
            .enumerate()
            .map(|(k, c)| (k, Arc::clone(c)))
            .collect::<FnvHashMap<usize, _>>(),
    );
    let events: Arc<Mutex<Vec<String>>> = Arc::new(Mutex::new(vec![]));
    let handled: Arc<Mutex<Vec<String>>> = Arc::new(Mutex::new(vec![]));
    let initialised = Arc::new(Mutex::new(false));

    let fin = rt.block_on({
        let events = events.clone();
        let handled = handled.clone();
        let initialised = initialised.clone();
        async move {
            let init = move || {
                let next = script.lock().unwrap().pop_front();
                async move {
                    match next {
                        None => {
                            futures::future::pending::<()>().await;
                            unreachable!()
                        }
                        Some(c) => connect(spot, n, c).await,
                    }
                }
            };
            let fut = {
                let initialised = initialised.clone();
                async move {
                    let policy = ReconnectionBackoffPolicy::new(125, 2, 60000);
                    let key = StreamKey::new("market_stream", exchange(spot), Some("l2"));
                    let stream = match init_reconnecting_stream(init).await {
                        Ok(s) => s,
                        Err(_) => return "initError",
                    };
                    *initialised.lock().unwrap() = true;
                    let stream = stream
                        .with_reconnect_backoff(policy, key)
                        .with_termination_on_error(|e: &DataError| e.is_terminal(), key)
                        .with_reconnection_events(exchange(spot))
                        .with_error_handler(move |e: DataError| handled.lock().unwrap().push(fmt_handled(&e)))
                        .inspect(move |ev| events.lock().unwrap().push(fmt_event(ev)));
                    let manager = OrderBookL2Manager {
                        stream: Box::pin(stream),
                        books,
                    };
                    manager.run().await;
                    "ended"
                }
            };
            // far beyond any back-off sleep: when it fires the pipeline is pending for good
            match tokio::time::timeout(Duration::from_secs(100_000_000), fut).await {
                Ok(fin) => fin,
                Err(_) => {
                    if *initialised.lock().unwrap() {
                        "pending"
                    } else {
                        "initPending"
                    }
                }
            }
        }
    });
    let events = events.lock().unwrap().clone();
    let handled = handled.lock().unwrap().clone();
    Observed {
        fin,
        events,
        handled,
        books: cells.iter().map(|c| c.read().clone()).collect(),
    }
}

fn run() {
    run_cases(|case, lines| {
        let mut started = false;
        let mut spot = true;
        let mut n = 0usize;
        let mut m = 0usize;
        let mut conns: Vec<ConnSpec> = vec![];
        let mut draft = ConnSpec::default();
        let mut seen_events: Vec<String> = vec![];
        let mut seen_handled: Vec<String> = vec![];
        let mut uni: BTreeMap<usize, Universe> = BTreeMap::new();
        let mut depths: Vec<usize> = vec![];
        for op in case.ops.iter() {
            lines.push("@".into());
            let mut observe = false;
            match op[0].as_str() {
                "init" if op.len() == 4 => {
                    let r = match op[1].as_str() {
                        "spot" => Some(true),
                        "fut" => Some(false),
                        _ => None,
                    };
                    match (r, op[2].parse::<usize>(), op[3].parse::<usize>()) {
                        (Some(r), Ok(nn), Ok(mm)) => {
                            started = true;
                            spot = r;
                            n = nn;
                            m = mm;
                            conns.clear();
                            draft = ConnSpec::default();
                            seen_events.clear();
                            seen_handled.clear();
                            uni.clear();
                            depths.clear();
                        }
                        _ => lines.push("bad-op".into()),
                    }
                }
                "venue" => match parse_universe(&op[1..]) {
                    Some((k, u)) => {
                        uni.insert(k, u);
                    }
                    None => lines.push("bad-op".into()),
                },
                "depth" if op.len() == 3 => match (op[1].parse::<usize>(), op[2].parse::<u64>()) {
                    (Ok(k), Ok(_)) => depths.push(k),
                    _ => lines.push("bad-op".into()),
                },
                "snap" | "snapu" => match parse_snapshot(spot, op[0] == "snapu", &op[1..]) {
                    Some(ev) => draft.snapshots.push(ev),
                    None => lines.push("bad-op".into()),
                },
                "buf" => match parse_frame(spot, &op[1..]) {
                    Some(FrameSpec::Err(_)) | None => lines.push("bad-op".into()),
                    Some(f) => draft.buffered.push(f),
                },
                "open" if op.len() == 1 && started => {
                    conns.push(std::mem::take(&mut draft));
                    observe = true;
                }
                "f" => match (parse_frame(spot, &op[1..]), conns.last_mut()) {
                    (Some(f), Some(c)) if !c.ended => {
                        c.frames.push(f);
                        observe = true;
                    }
                    _ => lines.push("bad-op".into()),
                },
                "eos" if op.len() == 1 => match conns.last_mut() {
                    Some(c) if !c.ended => {
                        c.ended = true;
                        observe = true;
                    }
                    _ => lines.push("bad-op".into()),
                },
                _ => lines.push("bad-op".into()),
            }
            if observe {
                let o = run_pipeline(spot, n, m, &conns);
                lines.push(format!("fin {}", o.fin));
                // the new events / handler calls since the previous observation (a run on a longer input
                // repeats what the shorter one showed)
                if o.events.len() >= seen_events.len() && o.events[..seen_events.len()] == seen_events[..] {
                    lines.extend(o.events[seen_events.len()..].iter().cloned());
                } else {
                    lines.push("ev-reset".into());
                    lines.extend(o.events.iter().cloned());
                }
                if o.handled.len() >= seen_handled.len() && o.handled[..seen_handled.len()] == seen_handled[..] {
                    lines.extend(o.handled[seen_handled.len()..].iter().cloned());
                } else {
                    lines.push("he-reset".into());
                    lines.extend(o.handled.iter().cloned());
                }
                let notices = o.events.iter().filter(|e| e.as_str() == "ev reconnecting").count();
                lines.push(format!("notices {notices}"));
                lines.push(format!("nerr {}", o.handled.len()));
                for (k, b) in o.books.iter().enumerate() {
                    lines.push(format!("book{k} {}", fmt_book(b)));
                }
                lv_lines(lines, &depths, &uni, &o.books);
                seen_events = o.events;
                seen_handled = o.handled;
            }
        }
    });
}

// ------------------------------------------------------------------------------------ generators

#[derive(Clone)]
struct Chg {
    id: u64,
    bid: bool,
    price: String,
    amount: String,
}

#[derive(Clone)]
struct Msg {
    sym: usize,
    first: u64,
    last: u64,
    pu: u64,
    bids: Vec<String>,
    asks: Vec<String>,
}

impl Msg {
    fn body(&self) -> String {
        format!(
            "{} {} {} {} | {} | {}",
            self.sym,
            self.first,
            self.last,
            self.pu,
            self.bids.join(" "),
            self.asks.join(" ")
        )
    }
}

/// the simulated exchange: book of one side as of id `x`
fn side_at(v: &[Chg], x: u64, bid: bool) -> BTreeMap<Decimal, (String, String)> {
    let mut m = BTreeMap::new();
    for c in v.iter().filter(|c| c.id <= x && c.bid == bid) {
        let p = parse_dec(&c.price);
        if parse_dec(&c.amount).is_zero() {
            m.remove(&p);
        } else {
            m.insert(p, (c.price.clone(), c.amount.clone()));
        }
    }
    m
}

fn shuffle<T>(rng: &mut Rng, xs: &mut [T]) {
    for i in (1..xs.len()).rev() {
        let j = rng.below(i as u64 + 1) as usize;
        xs.swap(i, j);
    }
}

/// one side of the genuine depth message for `(lo, hi]`
fn msg_side(rng: &mut Rng, v: &[Chg], grid: &[String], lo: u64, hi: u64, bid: bool, extras: bool) -> Vec<String> {
    let at_hi = side_at(v, hi, bid);
    let amount_at = |price: &String| {
        at_hi
            .get(&parse_dec(price))
            .map(|(_, a)| a.clone())
            .unwrap_or_else(|| "0".to_string())
    };
    let mut prices: Vec<String> = vec![];
    for c in v.iter().filter(|c| lo < c.id && c.id <= hi && c.bid == bid) {
        if !prices.contains(&c.price) {
            prices.push(c.price.clone());
        }
    }
    if extras {
        if rng.chance(50) {
            let p = rng.pick(grid).clone();
            prices.push(p);
        }
        if rng.chance(30) && !prices.is_empty() {
            let p = rng.pick(&prices).clone();
            prices.push(p);
        }
    }
    shuffle(rng, &mut prices);
    prices.iter().map(|p| format!("{p}:{}", amount_at(p))).collect()
}

#[allow(clippy::too_many_arguments)]
fn genuine_msg(rng: &mut Rng, spot: bool, sym: usize, v: &[Chg], grid: &[String], lo: u64, hi: u64, extras: bool) -> Msg {
    let first_in_range = v.iter().filter(|c| lo < c.id && c.id <= hi).map(|c| c.id).min();
    let first = if spot { lo + 1 } else { first_in_range.unwrap_or(lo + 1) };
    Msg {
        sym,
        first,
        last: hi,
        pu: lo,
        bids: msg_side(rng, v, grid, lo, hi, true, extras),
        asks: msg_side(rng, v, grid, lo, hi, false, extras),
    }
}

/// input classes of the `d…` family (input-domain audit, as in c06.rs); `Dom::default()` = the classic families,
/// which draw exactly the random numbers they always drew
#[derive(Clone, Copy, Default)]
struct Dom {
    /// added to every id of the venue (real ids are ~2e10 spot / ~1e12 futures; boundaries 2^32, 2^53, 2^63, 2^64)
    offset: u64,
    /// prices / amounts of extreme but exact magnitude (1e-8 … 1e12, 17+ significant digits)
    wide: bool,
    /// the same price written with different scales (`100`, `100.0`, `100.00`) in snapshots and updates
    restyle: bool,
    /// non-genuine updates whose ids continue a DELIVERED update (pu = its u, U arbitrary incl. U > u and 0,
    /// u = its u … u+2) with levels that repeat a price with different amounts
    cont_garbage: bool,
    /// Binary frames that do not deserialise (`binbad i`), incl. bytes that are not UTF-8
    binjunk: bool,
    /// configuration-shape family (`cfg…`): 4-12 instruments on the connection (symbols that are prefixes of one
    /// another: SYM1 / SYM10 / SYM11), half of them subscribed but silent, updates for never-subscribed symbols
    /// that extend a subscribed one (SYM3 subscribed, SYM30 not), manager cells for none / one / all but one / all /
    /// one more than the subscribed instruments
    cfg_many: bool,
}

const OFFSETS: [u64; 8] = [
    0,
    (1 << 32) - 20,
    22_611_425_143,
    1_000_000_000_000,
    (1 << 53) - 20,
    (1 << 63) - 20,
    u64::MAX - 400,
    u64::MAX - 1_000_000,
];

fn amount(rng: &mut Rng, zero_pct: u64) -> String {
    if rng.chance(zero_pct) {
        return (*rng.pick(&["0", "0.0", "0.00000000"])).to_string();
    }
    (*rng.pick(&["1", "0.5", "2.5", "1.25000000", "10"])).to_string()
}

fn amount_dom(rng: &mut Rng, zero_pct: u64, dom: &Dom) -> String {
    if !dom.wide {
        return amount(rng, zero_pct);
    }
    if rng.chance(zero_pct) {
        return (*rng.pick(&["0", "0.0", "0.00000000"])).to_string();
    }
    (*rng.pick(&["0.00000001", "123456789.12345678", "1000000000000", "1000000000000.00000001", "0.1", "0.30000000", "2.5"])).to_string()
}

/// another spelling of the same decimal
fn respell(rng: &mut Rng, d: &str) -> String {
    let zeros = if rng.chance(50) { "0" } else { "00" };
    if d.contains('.') { format!("{d}{zeros}") } else { format!("{d}.{zeros}") }
}

fn restyle_levels(rng: &mut Rng, ls: &mut [String]) {
    for l in ls.iter_mut() {
        if rng.chance(25) {
            let (p, a) = l.split_once(':').expect("level");
            *l = format!("{}:{a}", respell(rng, p));
        }
    }
}

/// levels of a non-genuine update that may state a price several times with different amounts
fn garbage_side_dup(rng: &mut Rng, grid: &[String], dom: &Dom) -> Vec<String> {
    let mut ls = vec![];
    for _ in 0..rng.range(0, 4) {
        let p = rng.pick(grid).clone();
        ls.push(format!("{p}:{}", amount_dom(rng, 30, dom)));
    }
    ls
}

fn gen_venue(rng: &mut Rng, max_changes: i64, dom: &Dom) -> (Vec<Chg>, Vec<String>) {
    let (base, step, scale) = if dom.wide {
        // 1e-8 ticks, 1e12 prices, 12 significant digits, a grid across 1
        *rng.pick(&[(1i64, 1i64, 8u32), (1_000_000_000_000, 1, 0), (123_456_789_012, 1, 8), (99_999_998, 1, 8)])
    } else {
        *rng.pick(&[(100i64, 1i64, 0u32), (1000, 5, 1), (99990, 5, 2), (1, 1, 4)])
    };
    let count = rng.range(1, 6);
    let grid: Vec<String> = (0..count).map(|i| dec_str(base + i * step, scale)).collect();
    let len = rng.range(1, max_changes);
    let contiguous = rng.chance(50);
    let mut id = rng.range(0, 3) as u64 + dom.offset;
    let zero_pct = *rng.pick(&[15u64, 30, 50]);
    let mut v = vec![];
    for _ in 0..len {
        id += if contiguous { 1 } else { rng.range(1, 3) as u64 };
        v.push(Chg {
            id,
            bid: rng.chance(50),
            price: rng.pick(&grid).clone(),
            amount: amount_dom(rng, zero_pct, dom),
        });
    }
    (v, grid)
}

fn venue_line(k: usize, v: &[Chg]) -> String {
    let body = v
        .iter()
        .map(|c| format!("{}:{}:{}:{}", c.id, if c.bid { "b" } else { "a" }, c.price, c.amount))
        .collect::<Vec<_>>()
        .join(" ");
    format!("venue {k} {body}")
}

/// the REST snapshot at `s`; `depth = Some(d)`: cut to the best `d` levels per side (highest bids, lowest asks),
/// what the venue answers to `…&limit=d`
fn snap_line(op: &str, k: usize, v: &[Chg], s: u64, rng: &mut Rng, depth: Option<usize>, dom: &Dom) -> String {
    let d = depth.unwrap_or(usize::MAX);
    let mut b: Vec<String> = side_at(v, s, true).values().map(|(p, a)| format!("{p}:{a}")).collect();
    b.drain(..b.len().saturating_sub(d));
    let mut a: Vec<String> = side_at(v, s, false).values().take(d).map(|(p, a)| format!("{p}:{a}")).collect();
    shuffle(rng, &mut b);
    shuffle(rng, &mut a);
    if dom.restyle {
        restyle_levels(rng, &mut b);
        restyle_levels(rng, &mut a);
    }
    format!("{op} {k} {s} | {} | {}", b.join(" "), a.join(" "))
}

/// delivery perturbations of one instrument's in-order message list: lost, duplicated, reordered,
/// replayed updates; early / late start
fn perturb(rng: &mut Rng, base: &[Msg], cover: usize, clean_pct: u64) -> Vec<Msg> {
    if base.is_empty() {
        return vec![];
    }
    let start = match rng.below(10) {
        0..=4 => 0,
        5..=7 => cover.min(base.len() - 1),
        8 => (cover + 1).min(base.len() - 1),
        _ => rng.below(base.len() as u64) as usize,
    };
    let mut d: Vec<Msg> = base[start..].to_vec();
    if rng.chance(clean_pct) {
        return d;
    }
    for _ in 0..rng.range(1, 2) {
        if d.is_empty() {
            break;
        }
        let i = rng.below(d.len() as u64) as usize;
        match rng.below(5) {
            0 => {
                d.remove(i);
            }
            1 => {
                let m = d[i].clone();
                d.insert(i + 1, m);
            }
            2 => {
                let m = d[i].clone();
                let j = rng.range(i as i64 + 1, d.len() as i64) as usize;
                d.insert(j, m);
            }
            3 => {
                if i + 1 < d.len() {
                    d.swap(i, i + 1);
                }
            }
            _ => {
                let j = rng.below(base.len() as u64 + 1) as usize;
                let pre: Vec<Msg> = base[..j].to_vec();
                let tail = d.split_off(i);
                d.extend(pre);
                d.extend(tail);
            }
        }
    }
    d
}

fn garbage_side(rng: &mut Rng, grid: &[String]) -> Vec<String> {
    let mut ls = vec![];
    for p in grid {
        if rng.chance(40) {
            ls.push(format!("{p}:{}", amount(rng, 30)));
        }
    }
    ls
}

struct Knobs {
    spot: bool,
    n: usize,
    non_genuine: bool,
    extras: bool,
    noise_pct: u64,
    clean_pct: u64,
    max_msgs: usize,
    /// per instrument the declared REST depth (depth-limited snapshots), `None` = full depth
    depths: Vec<Option<usize>>,
    dom: Dom,
}

/// a frame that is not a depth update of a subscribed symbol
fn noise_frame(rng: &mut Rng, k: &Knobs, template: Option<&Msg>) -> String {
    if k.dom.binjunk && rng.chance(35) {
        return format!("binbad {}", rng.below(9));
    }
    match rng.below(12) {
        0 | 1 => "ping".into(),
        2 => "pong".into(),
        3 => "raw".into(),
        4 | 5 => format!("bad {}", rng.below(BAD_TEXTS.len() as u64)),
        6 => "close".into(),
        7 => format!("err {}", rng.pick(&WS_ERROR_KINDS)),
        _ => {
            // a depth update for a symbol that was never subscribed
            let mut m = template.cloned().unwrap_or(Msg {
                sym: 0,
                first: 1,
                last: 2,
                pu: 0,
                bids: vec![],
                asks: vec![],
            });
            m.sym = if k.dom.cfg_many && rng.chance(70) {
                // a never-subscribed symbol whose name extends the subscribed SYM<sym>
                let c = 10 * m.sym + rng.below(10) as usize;
                let c = if c < k.n { 100 * m.sym + rng.below(10) as usize } else { c };
                if c < k.n { k.n + rng.below(2) as usize } else { c }
            } else {
                k.n + rng.below(2) as usize
            };
            format!("upd {}", m.body())
        }
    }
}

/// one connection: snapshots (and rarely buffered messages), `open`, interleaved deliveries with noise,
/// sometimes `eos`; returns false when the connection was left open without a break being forced
fn gen_connection(out: &mut Out, rng: &mut Rng, k: &Knobs, venues: &[(Vec<Chg>, Vec<String>)], last: bool) {
    let mut deliveries: Vec<Vec<Msg>> = vec![];
    let mut snaps: Vec<String> = vec![];
    let fail_init = rng.chance(5);
    let fail_k = rng.below(k.n as u64) as usize;
    let mut all_base: Vec<Msg> = vec![];
    // per instrument the message covering the snapshot point (the one a sequencer admits first)
    let mut covering: Vec<Msg> = vec![];
    for i in 0..k.n {
        let (v, grid) = (venues[i].0.clone(), venues[i].1.clone());
        let mut cuts: Vec<u64> = vec![if rng.chance(60) { 0 } else { v[0].id.saturating_sub(1) }];
        for c in &v {
            let pct = *rng.pick(&[25u64, 50, 90]);
            if rng.chance(pct) && c.id > *cuts.last().unwrap() {
                let cut = if k.spot && rng.chance(10) { c.id + 1 } else { c.id };
                cuts.push(cut);
            }
        }
        let base: Vec<Msg> = cuts
            .windows(2)
            .map(|w| genuine_msg(rng, k.spot, i, &v, &grid, w[0], w[1], k.extras))
            .collect();
        let s = match rng.below(8) {
            0 => *rng.pick(&cuts),
            1 => rng.pick(&cuts).saturating_sub(1),
            2 => *rng.pick(&cuts) + 1,
            3 => 0,
            4 => v.last().unwrap().id + rng.below(2),
            _ => rng.pick(&v).id,
        };
        let cover = base
            .iter()
            .position(|m| if k.spot { m.last > s } else { m.last >= s })
            .unwrap_or(base.len());
        if fail_init && i == fail_k {
            if rng.chance(50) {
                snaps.push(snap_line("snapu", i, &v, s, rng, k.depths[i], &k.dom));
            }
        } else {
            snaps.push(snap_line("snap", i, &v, s, rng, k.depths[i], &k.dom));
            if rng.chance(2) {
                // a second REST snapshot for the same instrument (duplicated subscription)
                let s2 = rng.pick(&v).id;
                snaps.push(snap_line("snap", i, &v, s2, rng, k.depths[i], &k.dom));
            }
        }
        if let Some(mc) = base.get(cover) {
            covering.push(mc.clone());
        }
        let mut d = perturb(rng, &base, cover, k.clean_pct);
        if k.non_genuine {
            for _ in 0..rng.range(1, 4) {
                let last = (s + rng.below(6)).saturating_sub(2);
                let first = (last + 1).saturating_sub(rng.below(4));
                let m = Msg {
                    sym: i,
                    first,
                    last,
                    pu: if rng.chance(50) { first.saturating_sub(1) } else { s },
                    bids: garbage_side(rng, &grid),
                    asks: garbage_side(rng, &grid),
                };
                let at = rng.below(d.len() as u64 + 1) as usize;
                d.insert(at, m);
            }
        }
        if k.dom.cont_garbage && !d.is_empty() {
            // non-genuine updates that continue a delivered one: futures admits any U once pu = previous u
            // (also U > u, U = 0, u = previous u); spot needs U = previous u + 1
            for _ in 0..rng.range(1, 3) {
                let at = rng.below(d.len().min(k.max_msgs) as u64) as usize;
                let prev = d[at].clone();
                let last = prev.last + rng.below(3);
                let first = *rng.pick(&[0, prev.last + 1, prev.last + 1, last + 1, last + 3, prev.first, prev.last]);
                let pu = *rng.pick(&[prev.last, prev.last, prev.last, prev.pu, last]);
                let m = Msg {
                    sym: i,
                    first,
                    last,
                    pu,
                    bids: garbage_side_dup(rng, &grid, &k.dom),
                    asks: garbage_side_dup(rng, &grid, &k.dom),
                };
                d.insert(at + 1, m);
            }
        }
        if k.dom.restyle {
            for m in d.iter_mut() {
                restyle_levels(rng, &mut m.bids);
                restyle_levels(rng, &mut m.asks);
            }
        }
        d.truncate(k.max_msgs);
        if k.dom.cfg_many && rng.chance(50) {
            d.clear(); // subscribed, snapshot fetched, never an update on this connection
        }
        all_base.extend(base);
        deliveries.push(d);
    }
    shuffle(rng, &mut snaps);
    for s in &snaps {
        out.line(s);
    }
    if rng.chance(8) {
        // messages that arrived during subscription validation (never the case for Binance itself)
        for _ in 0..rng.range(1, 3) {
            let f = if rng.chance(50) && !covering.is_empty() {
                format!("upd {}", rng.pick(&covering).body())
            } else if rng.chance(60) && !all_base.is_empty() {
                format!("upd {}", rng.pick(&all_base).body())
            } else {
                let f = noise_frame(rng, k, all_base.first());
                if f.starts_with("err") { "ping".into() } else { f }
            };
            out.line(format!("buf {f}"));
        }
    }
    out.line("open");
    // interleave the instruments' deliveries, keeping each instrument's order
    let mut idx = vec![0usize; k.n];
    loop {
        let open: Vec<usize> = (0..k.n).filter(|&i| idx[i] < deliveries[i].len()).collect();
        if open.is_empty() {
            break;
        }
        let i = *rng.pick(&open);
        if rng.chance(k.noise_pct) {
            out.line(format!("f {}", noise_frame(rng, k, Some(&deliveries[i][idx[i]]))));
        }
        let kind = if rng.chance(12) { "bin" } else { "upd" };
        out.line(format!("f {kind} {}", deliveries[i][idx[i]].body()));
        idx[i] += 1;
    }
    if rng.chance(k.noise_pct) {
        out.line(format!("f {}", noise_frame(rng, k, None)));
    }
    if rng.chance(if last { 25 } else { 85 }) {
        out.line("eos");
    }
}

fn gen_random_case(out: &mut Out, rng: &mut Rng, thorough: bool, partial: bool, dom: &Dom) {
    let spot = rng.chance(50);
    let n = if dom.cfg_many { *rng.pick(&[4usize, 5, 7, 11, 11, 12]) } else { *rng.pick(&[1usize, 1, 2, 3]) };
    let m = match rng.below(10) {
        0 => n.saturating_sub(1),
        1 => n + 1,
        2 if dom.cfg_many => 0,
        3 if dom.cfg_many => 1,
        _ => n,
    };
    out.line(format!("init {} {n} {m}", if spot { "spot" } else { "fut" }));
    let mut k = Knobs {
        spot,
        n,
        non_genuine: rng.chance(if dom.cont_garbage { 40 } else { 10 }),
        extras: rng.chance(40),
        noise_pct: if dom.binjunk { *rng.pick(&[15u64, 25]) } else if dom.cfg_many { *rng.pick(&[15u64, 25, 35]) } else { *rng.pick(&[0u64, 10, 25]) },
        clean_pct: *rng.pick(&[30u64, 60, 90]),
        max_msgs: if dom.cfg_many { 4 } else if thorough { 14 } else { 9 },
        depths: vec![None; n],
        dom: *dom,
    };
    let venues: Vec<(Vec<Chg>, Vec<String>)> = (0..n).map(|_| gen_venue(rng, if dom.cfg_many { 8 } else if thorough { 40 } else { 24 }, dom)).collect();
    for (i, (v, _)) in venues.iter().enumerate() {
        out.line(venue_line(i, v));
    }
    if partial {
        // depth-limited REST snapshots: per instrument the best 1-4 levels per side (at most 6 prices per side);
        // 15 % of the instruments of such a case keep the full depth
        for i in 0..n {
            if !rng.chance(15) {
                let d = rng.range(1, 4) as usize;
                k.depths[i] = Some(d);
                out.line(format!("depth {i} {d}"));
            }
        }
    }
    let connections = *rng.pick(&[1usize, 2, 2, 3]);
    for c in 0..connections {
        gen_connection(out, rng, &k, &venues, c + 1 == connections);
    }
}

/// small-scope exhaustive: one instrument, venue of single changes at ids 1..8, snapshot at id 5; every
/// sequence of at most `depth` frames over a small alphabet, then a second connection (snapshot at 7) with
/// one more update
fn gen_exhaustive(out: &mut Out, id: &mut usize, depth: usize) {
    let venue = "venue 0 1:b:100:1 2:a:101:1 3:b:99:2 4:a:102:1 5:b:100:2 6:a:101:0 7:b:99:0 8:a:103:1";
    // (U, u, pu, bids, asks): genuine for (lo, hi] of the venue above
    let upd = |lo: u64, hi: u64| -> String {
        let changes = [
            (1u64, true, "100", "1"),
            (2, false, "101", "1"),
            (3, true, "99", "2"),
            (4, false, "102", "1"),
            (5, true, "100", "2"),
            (6, false, "101", "0"),
            (7, true, "99", "0"),
            (8, false, "103", "1"),
        ];
        let mut bids: Vec<String> = vec![];
        let mut asks: Vec<String> = vec![];
        for (cid, bid, p, _) in changes.iter().filter(|c| lo < c.0 && c.0 <= hi) {
            // the amount at `hi` = the last change of that price up to hi
            let a = changes
                .iter()
                .filter(|d| d.0 <= hi && d.1 == *bid && d.2 == *p)
                .next_back()
                .map(|d| d.3)
                .unwrap_or("0");
            let _ = cid;
            let l = format!("{p}:{a}");
            if *bid {
                if !bids.contains(&l) {
                    bids.push(l)
                }
            } else if !asks.contains(&l) {
                asks.push(l)
            }
        }
        format!("upd 0 {} {} {} | {} | {}", lo + 1, hi, lo, bids.join(" "), asks.join(" "))
    };
    let alphabet: Vec<String> = vec![
        upd(3, 5),
        upd(4, 6),
        upd(5, 6),
        upd(6, 7),
        upd(6, 8),
        "ping".into(),
        "bad 0".into(),
        "close".into(),
        "upd 3 6 6 5 | | ".into(),
    ];
    for rules in ["spot", "fut"] {
        let mut seqs: Vec<Vec<usize>> = vec![vec![]];
        let mut frontier = seqs.clone();
        for _ in 0..depth {
            let mut next = vec![];
            for s in &frontier {
                for a in 0..alphabet.len() {
                    let mut t = s.clone();
                    t.push(a);
                    next.push(t);
                }
            }
            seqs.extend(next.iter().cloned());
            frontier = next;
        }
        for (j, s) in seqs.iter().enumerate() {
            *id += 1;
            out.case(format!("x{id}"));
            out.line(format!("init {rules} 1 1"));
            out.line(venue);
            out.line("snap 0 5 | 100:2 99:2 | 101:1 102:1");
            out.line("open");
            for a in s {
                out.line(format!("f {}", alphabet[*a]));
            }
            if j % 2 == 0 {
                out.line("eos");
            }
            out.line("snap 0 7 | 100:2 | 102:1");
            out.line("open");
            out.line(format!("f {}", upd(7, 8)));
        }
    }
}

fn generate(seed: u64, n_cases: usize, tier: &str) {
    let mut out = Out::new();
    let mut rng = Rng::new(seed);
    let mut id = 0usize;
    let thorough = tier == "thorough";
    if thorough {
        gen_exhaustive(&mut out, &mut id, 3);
    }
    for _ in 0..n_cases {
        id += 1;
        out.case(format!("r{id}"));
        gen_random_case(&mut out, &mut rng, thorough, false, &Dom::default());
    }
    // depth-limited snapshots: extra cases from an independent stream (the cases above are unchanged)
    let mut prng = Rng::new(seed ^ 0x9e37_79b9_7f4a_7c15);
    for _ in 0..(n_cases / 4).max(if n_cases > 0 { 10 } else { 0 }) {
        id += 1;
        out.case(format!("p{id}"));
        gen_random_case(&mut out, &mut prng, thorough, true, &Dom::default());
    }
    // input-domain family (a third independent stream; the cases above are unchanged): ids beyond 2^32 / 2^53 /
    // 2^63 and next to 2^64, extreme exact magnitudes, respelt prices, continuing non-genuine updates
    let mut drng = Rng::new(seed ^ 0x51ed_270b_c0de_d06e);
    for j in 0..(n_cases / 8).max(if n_cases > 0 { 10 } else { 0 }) {
        id += 1;
        out.case(format!("d{id}"));
        let dom = Dom {
            // every offset class in turn, so that a short run has them all
            offset: OFFSETS[j % OFFSETS.len()],
            wide: drng.chance(50),
            restyle: drng.chance(50),
            cont_garbage: drng.chance(40),
            binjunk: drng.chance(50),
            cfg_many: false,
        };
        let partial = drng.chance(25);
        gen_random_case(&mut out, &mut drng, thorough, partial, &dom);
    }
    // configuration-shape family (a fourth independent stream, ids cfg…; every case above is unchanged): 4-12
    // instruments on one connection, half of them silent, prefix-sharing symbols, unsubscribed extensions,
    // manager cells for 0 / 1 / n-1 / n / n+1 instruments
    let mut crng = Rng::new(seed ^ 0xc0f1_6c06_e0a1_15e7);
    for j in 0..(n_cases / 10).max(if n_cases > 0 { 12 } else { 0 }) {
        id += 1;
        out.case(format!("cfg{id}"));
        let dom = Dom {
            offset: OFFSETS[j % 3],
            cfg_many: true,
            ..Dom::default()
        };
        let partial = crng.chance(25);
        gen_random_case(&mut out, &mut crng, thorough, partial, &dom);
    }
    out.flush();
}

fn main() {
    let a = args();
    match a.cmd.as_str() {
        "gen" => generate(a.seed, a.n, &a.tier),
        "run" => run(),
        _ => {
            eprintln!("usage: c06e gen <seed> <n> <tier> | run < cases");
            std::process::exit(2)
        }
    }
}
