//! C11 — indices are dense, unique and consistently resolved.
//!
//! A case is a list of instrument definitions (`def ...` ops, see `lean/BarterModel/Driver/C11.lean`
//! for the token format). `build` indexes them with the real `IndexedInstruments::new` and prints
//! the three tables, the positional resolution of every definition and the `find_*` round trips;
//! `perm` re-indexes a reordering and compares; `engine` builds the real `EngineState` and reads the
//! instrument / asset / connectivity tables by position; `exec` runs the real `ExecutionBuilder`.
//!
//! Naturals in op lines are mapped order-preservingly: exchange label -> `EXS[label]` (the whole
//! enum, ascending), name `n` -> fixed-width string, expiries -> milliseconds, decimals -> integers
//! or, after a `dec SCALE OFFSET` op, `(n - OFFSET) / 10^SCALE` (fractional / negative decimals).
use barter::{
    engine::{
        clock::HistoricalClock,
        execution_tx::ExecutionTxMap,
        state::{
            EngineState, global::DefaultGlobalData, instrument::data::DefaultInstrumentMarketData,
        },
    },
    execution::builder::ExecutionBuilder,
};
use barter_execution::{
    UnindexedAccountEvent, UnindexedAccountSnapshot,
    balance::AssetBalance,
    client::{ExecutionClient, mock::MockExecutionConfig},
    error::{UnindexedClientError, UnindexedOrderError},
    order::{
        Order,
        request::{OrderRequestCancel, OrderRequestOpen, UnindexedOrderResponseCancel},
        state::Open,
    },
    trade::Trade,
};
use barter_instrument::{
    Keyed, Underlying,
    asset::{
        Asset, AssetIndex, QuoteAsset,
        name::{AssetNameExchange, AssetNameInternal},
    },
    exchange::{ExchangeId, ExchangeIndex},
    index::IndexedInstruments,
    instrument::{
        Instrument, InstrumentIndex,
        kind::{
            InstrumentKind,
            future::FutureContract,
            option::{OptionContract, OptionExercise, OptionKind},
            perpetual::PerpetualContract,
        },
        name::{InstrumentNameExchange, InstrumentNameInternal},
        quote::InstrumentQuoteAsset,
        spec::{
            InstrumentSpec, InstrumentSpecNotional, InstrumentSpecPrice, InstrumentSpecQuantity,
            OrderQuantityUnits,
        },
    },
};
use chrono::{DateTime, TimeZone, Utc};
use rust_decimal::Decimal;
use std::{
    future::Future,
    panic::{AssertUnwindSafe, catch_unwind},
};
use vh::*;

/// label -> ExchangeId: the WHOLE enum in declaration order = ascending in the derived `Ord` of
/// `ExchangeId` (checked in `main`), so that label order = Rust order.
const EXS: [ExchangeId; 42] = [
    ExchangeId::Other,
    ExchangeId::Simulated,
    ExchangeId::Mock,
    ExchangeId::BinanceFuturesCoin,
    ExchangeId::BinanceFuturesUsd,
    ExchangeId::BinanceOptions,
    ExchangeId::BinancePortfolioMargin,
    ExchangeId::BinanceSpot,
    ExchangeId::BinanceUs,
    ExchangeId::Bitazza,
    ExchangeId::Bitfinex,
    ExchangeId::Bitflyer,
    ExchangeId::Bitget,
    ExchangeId::Bitmart,
    ExchangeId::BitmartFuturesUsd,
    ExchangeId::Bitmex,
    ExchangeId::Bitso,
    ExchangeId::Bitstamp,
    ExchangeId::Bitvavo,
    ExchangeId::Bithumb,
    ExchangeId::BybitPerpetualsUsd,
    ExchangeId::BybitSpot,
    ExchangeId::Cexio,
    ExchangeId::Coinbase,
    ExchangeId::CoinbaseInternational,
    ExchangeId::Cryptocom,
    ExchangeId::Deribit,
    ExchangeId::GateioFuturesBtc,
    ExchangeId::GateioFuturesUsd,
    ExchangeId::GateioOptions,
    ExchangeId::GateioPerpetualsBtc,
    ExchangeId::GateioPerpetualsUsd,
    ExchangeId::GateioSpot,
    ExchangeId::Gemini,
    ExchangeId::Hitbtc,
    ExchangeId::Htx,
    ExchangeId::Kraken,
    ExchangeId::Kucoin,
    ExchangeId::Liquid,
    ExchangeId::Mexc,
    ExchangeId::Okx,
    ExchangeId::Poloniex,
];

/// the five exchanges the original generator families use (their labels in `EXS`)
const OLD5: [ExchangeId; 5] = [
    ExchangeId::BinanceSpot,
    ExchangeId::Bitfinex,
    ExchangeId::Coinbase,
    ExchangeId::Kraken,
    ExchangeId::Okx,
];

/// largest name number (names are printed with fixed width 3 so that string order = numeric order)
const MAX_NAME: usize = 999;
/// largest decimal / expiry number an op may carry
const MAX_VALUE: usize = 1_000_000_000_000_000;

fn label(e: ExchangeId) -> String {
    EXS.iter()
        .position(|x| *x == e)
        .map(|p| p.to_string())
        .unwrap_or_else(|| "?".into())
}

// ---------------------------------------------------------------------------- definitions

#[derive(Clone, Debug, PartialEq, Eq)]
struct A(usize, usize);

#[derive(Clone, Debug, PartialEq, Eq)]
enum K {
    S,
    P(usize, A),
    F(usize, A, usize),
    O(usize, A, usize, usize, usize, usize),
}

#[derive(Clone, Debug, PartialEq, Eq)]
enum U {
    A(A),
    C,
    Q,
}

#[derive(Clone, Debug, PartialEq, Eq)]
struct D {
    e: usize,
    ni: usize,
    ne: usize,
    base: A,
    quote: A,
    qa: usize,
    kind: K,
    spec: Option<(usize, usize, U, usize, usize, usize)>,
}

struct Toks<'a>(std::slice::Iter<'a, String>);
impl<'a> Toks<'a> {
    fn s(&mut self) -> Option<&'a str> {
        self.0.next().map(|s| s.as_str())
    }
    /// a natural written in plain digits (what the drivers' `toNat?` accepts), at most `max`
    fn n(&mut self, max: usize) -> Option<usize> {
        let t = self.s()?;
        if t.is_empty() || !t.bytes().all(|c| c.is_ascii_digit()) {
            return None;
        }
        t.parse().ok().filter(|n| *n <= max)
    }
    fn a(&mut self) -> Option<A> {
        Some(A(self.n(MAX_NAME)?, self.n(MAX_NAME)?))
    }
    fn v(&mut self) -> Option<usize> {
        self.n(MAX_VALUE)
    }
}

/// `None` = malformed (`bad-op`; the drivers reject exactly the same lines): a token missing, not a
/// natural or trailing, an exchange label outside the enum, a name number above `MAX_NAME`, a
/// decimal / expiry above `MAX_VALUE`, an enum position out of range
fn parse_def(toks: &[String]) -> Option<D> {
    let mut t = Toks(toks.iter());
    let (e, ni, ne) = (t.n(EXS.len() - 1)?, t.n(MAX_NAME)?, t.n(MAX_NAME)?);
    let base = t.a()?;
    let quote = t.a()?;
    let qa = t.n(1)?;
    let kind = match t.s()? {
        "s" => K::S,
        "p" => K::P(t.v()?, t.a()?),
        "f" => K::F(t.v()?, t.a()?, t.v()?),
        "o" => K::O(t.v()?, t.a()?, t.n(1)?, t.n(2)?, t.v()?, t.v()?),
        _ => return None,
    };
    let spec = match t.s()? {
        "n" => None,
        "y" => {
            let (pm, tk) = (t.v()?, t.v()?);
            let u = match t.s()? {
                "a" => U::A(t.a()?),
                "c" => U::C,
                "q" => U::Q,
                _ => return None,
            };
            Some((pm, tk, u, t.v()?, t.v()?, t.v()?))
        }
        _ => return None,
    };
    if t.0.next().is_some() {
        return None;
    }
    Some(D {
        e,
        ni,
        ne,
        base,
        quote,
        qa,
        kind,
        spec,
    })
}

/// the naturals of a `perm` / `exec` op, each at most `max`; `None` = malformed
fn parse_nats(toks: &[String], max: usize) -> Option<Vec<usize>> {
    let mut t = Toks(toks.iter());
    let mut v = vec![];
    while t.0.len() > 0 {
        v.push(t.n(max)?);
    }
    Some(v)
}

fn def_toks(d: &D) -> String {
    let a = |a: &A| format!("{} {}", a.0, a.1);
    let kind = match &d.kind {
        K::S => "s".to_string(),
        K::P(s, x) => format!("p {s} {}", a(x)),
        K::F(s, x, e) => format!("f {s} {} {e}", a(x)),
        K::O(s, x, p, ex, e, k) => format!("o {s} {} {p} {ex} {e} {k}", a(x)),
    };
    let spec = match &d.spec {
        None => "n".to_string(),
        Some((pm, tk, u, qm, qi, nm)) => {
            let u = match u {
                U::A(x) => format!("a {}", a(x)),
                U::C => "c".into(),
                U::Q => "q".into(),
            };
            format!("y {pm} {tk} {u} {qm} {qi} {nm}")
        }
    };
    format!(
        "{} {} {} {} {} {} {kind} {spec}",
        d.e,
        d.ni,
        d.ne,
        a(&d.base),
        a(&d.quote),
        d.qa
    )
}

// names: fixed width so that string order = numeric order
fn asset_ni(n: usize) -> AssetNameInternal {
    AssetNameInternal::new(format!("a{n:03}"))
}
fn asset_ne(n: usize) -> AssetNameExchange {
    AssetNameExchange::new(format!("X{n:03}"))
}
fn ins_ni(n: usize) -> InstrumentNameInternal {
    InstrumentNameInternal::new(format!("i{n:03}"))
}
fn ins_ne(n: usize) -> InstrumentNameExchange {
    InstrumentNameExchange::new(format!("N{n:03}"))
}
fn un(s: &str) -> usize {
    s[1..].parse().expect("name")
}
thread_local! {
    /// the case's decimal coding `(scale, offset)`, set by the `dec` op: number `n` of an op line
    /// stands for the Decimal `(n - offset) / 10^scale` - for every fixed pair an injective,
    /// order-preserving map, so the drivers (which only see `n`) need not know it. `(0, 0)` = the
    /// plain integers; other pairs reach fractional and NEGATIVE decimals.
    static DEC: std::cell::Cell<(u32, i64)> = const { std::cell::Cell::new((0, 0)) };
}
fn dec(n: usize) -> Decimal {
    let (scale, off) = DEC.with(|c| c.get());
    Decimal::new(n as i64 - off, scale)
}
fn undec(d: Decimal) -> usize {
    let (scale, off) = DEC.with(|c| c.get());
    let n = d * Decimal::from(10u64.pow(scale)) + Decimal::from(off);
    n.normalize().to_string().parse().expect("decimal outside the case's coding")
}
fn time(n: usize) -> DateTime<Utc> {
    Utc.timestamp_millis_opt(1_600_000_000_000 + n as i64).unwrap()
}
fn untime(t: DateTime<Utc>) -> usize {
    (t.timestamp_millis() - 1_600_000_000_000) as usize
}
fn asset(a: &A) -> Asset {
    Asset {
        name_internal: asset_ni(a.0),
        name_exchange: asset_ne(a.1),
    }
}
fn unasset(a: &Asset) -> A {
    A(un(a.name_internal.name()), un(a.name_exchange.name()))
}

fn to_instrument(d: &D) -> Instrument<ExchangeId, Asset> {
    let kind = match &d.kind {
        K::S => InstrumentKind::Spot,
        K::P(s, a) => InstrumentKind::Perpetual(PerpetualContract {
            contract_size: dec(*s),
            settlement_asset: asset(a),
        }),
        K::F(s, a, e) => InstrumentKind::Future(FutureContract {
            contract_size: dec(*s),
            settlement_asset: asset(a),
            expiry: time(*e),
        }),
        K::O(s, a, p, x, e, k) => InstrumentKind::Option(OptionContract {
            contract_size: dec(*s),
            settlement_asset: asset(a),
            kind: [OptionKind::Call, OptionKind::Put][*p],
            exercise: [
                OptionExercise::American,
                OptionExercise::Bermudan,
                OptionExercise::European,
            ][*x],
            expiry: time(*e),
            strike: dec(*k),
        }),
    };
    let spec = d.spec.as_ref().map(|(pm, tk, u, qm, qi, nm)| InstrumentSpec {
        price: InstrumentSpecPrice {
            min: dec(*pm),
            tick_size: dec(*tk),
        },
        quantity: InstrumentSpecQuantity {
            unit: match u {
                U::A(a) => OrderQuantityUnits::Asset(asset(a)),
                U::C => OrderQuantityUnits::Contract,
                U::Q => OrderQuantityUnits::Quote,
            },
            min: dec(*qm),
            increment: dec(*qi),
        },
        notional: InstrumentSpecNotional { min: dec(*nm) },
    });
    Instrument {
        exchange: EXS[d.e],
        name_internal: ins_ni(d.ni),
        name_exchange: ins_ne(d.ne),
        underlying: Underlying::new(asset(&d.base), asset(&d.quote)),
        quote: [
            InstrumentQuoteAsset::UnderlyingBase,
            InstrumentQuoteAsset::UnderlyingQuote,
        ][d.qa],
        kind,
        spec,
    }
}

/// An instrument with arbitrary exchange / asset keys back to the definition form, given how to
/// read an exchange key (-> label) and an asset key (-> names); `None` when a read fails.
fn undef<E, AK>(
    i: &Instrument<E, AK>,
    fe: impl Fn(&E) -> Option<usize>,
    fa: impl Fn(&AK) -> Option<A>,
) -> Option<D> {
    let kind = match &i.kind {
        InstrumentKind::Spot => K::S,
        InstrumentKind::Perpetual(c) => K::P(undec(c.contract_size), fa(&c.settlement_asset)?),
        InstrumentKind::Future(c) => K::F(
            undec(c.contract_size),
            fa(&c.settlement_asset)?,
            untime(c.expiry),
        ),
        InstrumentKind::Option(c) => K::O(
            undec(c.contract_size),
            fa(&c.settlement_asset)?,
            match c.kind {
                OptionKind::Call => 0,
                OptionKind::Put => 1,
            },
            match c.exercise {
                OptionExercise::American => 0,
                OptionExercise::Bermudan => 1,
                OptionExercise::European => 2,
            },
            untime(c.expiry),
            undec(c.strike),
        ),
    };
    let spec = match &i.spec {
        None => None,
        Some(s) => Some((
            undec(s.price.min),
            undec(s.price.tick_size),
            match &s.quantity.unit {
                OrderQuantityUnits::Asset(a) => U::A(fa(a)?),
                OrderQuantityUnits::Contract => U::C,
                OrderQuantityUnits::Quote => U::Q,
            },
            undec(s.quantity.min),
            undec(s.quantity.increment),
            undec(s.notional.min),
        )),
    };
    Some(D {
        e: fe(&i.exchange)?,
        ni: un(i.name_internal.name()),
        ne: un(i.name_exchange.name()),
        base: fa(&i.underlying.base)?,
        quote: fa(&i.underlying.quote)?,
        qa: match i.quote {
            InstrumentQuoteAsset::UnderlyingBase => 0,
            InstrumentQuoteAsset::UnderlyingQuote => 1,
        },
        kind,
        spec,
    })
}

/// raw printing of an instrument whose exchange / asset keys are printed by `fe` / `fa`
fn raw_toks<E, AK>(
    i: &Instrument<E, AK>,
    fe: impl Fn(&E) -> String,
    fa: impl Fn(&AK) -> String,
) -> String {
    let kind = match &i.kind {
        InstrumentKind::Spot => "s".to_string(),
        InstrumentKind::Perpetual(c) => {
            format!("p {} {}", undec(c.contract_size), fa(&c.settlement_asset))
        }
        InstrumentKind::Future(c) => format!(
            "f {} {} {}",
            undec(c.contract_size),
            fa(&c.settlement_asset),
            untime(c.expiry)
        ),
        InstrumentKind::Option(c) => format!(
            "o {} {} {} {} {} {}",
            undec(c.contract_size),
            fa(&c.settlement_asset),
            match c.kind {
                OptionKind::Call => 0,
                OptionKind::Put => 1,
            },
            match c.exercise {
                OptionExercise::American => 0,
                OptionExercise::Bermudan => 1,
                OptionExercise::European => 2,
            },
            untime(c.expiry),
            undec(c.strike)
        ),
    };
    let spec = match &i.spec {
        None => "n".to_string(),
        Some(s) => format!(
            "y {} {} {} {} {} {}",
            undec(s.price.min),
            undec(s.price.tick_size),
            match &s.quantity.unit {
                OrderQuantityUnits::Asset(a) => format!("a {}", fa(a)),
                OrderQuantityUnits::Contract => "c".into(),
                OrderQuantityUnits::Quote => "q".into(),
            },
            undec(s.quantity.min),
            undec(s.quantity.increment),
            undec(s.notional.min)
        ),
    };
    format!(
        "{} {} {} {} {} {} {kind} {spec}",
        fe(&i.exchange),
        un(i.name_internal.name()),
        un(i.name_exchange.name()),
        fa(&i.underlying.base),
        fa(&i.underlying.quote),
        match i.quote {
            InstrumentQuoteAsset::UnderlyingBase => 0,
            InstrumentQuoteAsset::UnderlyingQuote => 1,
        }
    )
}

fn index(defs: &[D]) -> IndexedInstruments {
    IndexedInstruments::new(defs.iter().map(to_instrument))
}

// ---------------------------------------------------------------------------- ops

/// positional resolution of an indexed instrument through the `IndexedInstruments` accessors
fn resolve(
    ii: &IndexedInstruments,
    i: &Instrument<Keyed<ExchangeIndex, ExchangeId>, AssetIndex>,
) -> Option<D> {
    let ex = ii.exchanges().get(i.exchange.key.0)?;
    if ex.value != i.exchange.value {
        return None;
    }
    let exchange = ex.value;
    undef(
        i,
        |_| EXS.iter().position(|x| *x == exchange),
        |a: &AssetIndex| {
            let x = ii.assets().get(a.0)?;
            (x.value.exchange == exchange).then(|| unasset(&x.value.asset))
        },
    )
}

fn opt_line(prefix: String, d: Option<D>) -> String {
    match d {
        Some(d) => format!("{prefix} {}", def_toks(&d)),
        None => format!("{prefix} none"),
    }
}

fn b(x: bool) -> &'static str {
    if x { "1" } else { "0" }
}

fn op_build(defs: &[D], lines: &mut Vec<String>) {
    let ii = index(defs);
    for x in ii.exchanges() {
        lines.push(format!("ex {} {}", x.key.0, label(x.value)));
    }
    for x in ii.assets() {
        let a = unasset(&x.value.asset);
        lines.push(format!(
            "as {} {} {} {}",
            x.key.0,
            label(x.value.exchange),
            a.0,
            a.1
        ));
    }
    for x in ii.instruments() {
        lines.push(format!(
            "in {} {}",
            x.key.0,
            raw_toks(
                &x.value,
                |e| format!("{} {}", e.key.0, label(e.value)),
                |a| a.0.to_string()
            )
        ));
    }
    let join = |v: Vec<String>| {
        v.into_iter()
            .map(|s| format!(" {s}"))
            .collect::<Vec<_>>()
            .concat()
    };
    lines.push(format!(
        "kE{}",
        join(ii.exchanges().iter().map(|x| x.key.0.to_string()).collect())
    ));
    lines.push(format!(
        "kA{}",
        join(ii.assets().iter().map(|x| x.key.0.to_string()).collect())
    ));
    lines.push(format!(
        "kI{}",
        join(ii.instruments().iter().map(|x| x.key.0.to_string()).collect())
    ));
    let mut se: Vec<usize> = ii
        .exchanges()
        .iter()
        .map(|x| EXS.iter().position(|e| *e == x.value).unwrap())
        .collect();
    se.sort();
    lines.push(format!(
        "setE{}",
        join(se.iter().map(|x| x.to_string()).collect())
    ));
    let mut sa: Vec<(usize, usize, usize)> = ii
        .assets()
        .iter()
        .map(|x| {
            let a = unasset(&x.value.asset);
            (
                EXS.iter().position(|e| *e == x.value.exchange).unwrap(),
                a.0,
                a.1,
            )
        })
        .collect();
    sa.sort();
    lines.push(format!(
        "setA{}",
        join(sa.iter().map(|(e, i, x)| format!("{e}.{i}.{x}")).collect())
    ));
    for (n, d) in defs.iter().enumerate() {
        let r = ii
            .find_instrument_index(EXS[d.e], &ins_ni(d.ni))
            .ok()
            .and_then(|k| ii.instruments().get(k.0))
            .and_then(|x| resolve(&ii, &x.value));
        lines.push(opt_line(format!("res {n}"), r));
    }
    // the exchange half of the same read: the instrument found by name, its exchange reference read
    // back by position through the exchange table (holds for every collection, well-formed or not)
    for (n, d) in defs.iter().enumerate() {
        let r = ii
            .find_instrument_index(EXS[d.e], &ins_ni(d.ni))
            .ok()
            .and_then(|k| ii.instruments().get(k.0))
            .and_then(|x| {
                let ex = ii.exchanges().get(x.value.exchange.key.0)?;
                (ex.value == x.value.exchange.value).then(|| label(ex.value))
            });
        lines.push(match r {
            Some(e) => format!("resx {n} {e}"),
            None => format!("resx {n} none"),
        });
    }
    // find_* round trips
    let rt_e = (0..ii.exchanges().len()).all(|k| {
        ii.find_exchange(ExchangeIndex(k))
            .ok()
            .and_then(|e| ii.find_exchange_index(e).ok())
            == Some(ExchangeIndex(k))
    }) && defs.iter().all(|d| {
        ii.find_exchange_index(EXS[d.e])
            .ok()
            .and_then(|k| ii.find_exchange(k).ok())
            == Some(EXS[d.e])
    });
    let rt_a = (0..ii.assets().len()).all(|k| {
        ii.find_asset(AssetIndex(k))
            .ok()
            .and_then(|a| ii.find_asset_index(a.exchange, &a.asset.name_internal).ok())
            == Some(AssetIndex(k))
    }) && defs.iter().all(|d| {
        def_assets(d).iter().all(|a| {
            ii.find_asset_index(EXS[d.e], &asset_ni(a.0))
                .ok()
                .and_then(|k| ii.find_asset(k).ok())
                .map(|x| x.exchange == EXS[d.e] && unasset(&x.asset) == *a)
                == Some(true)
        })
    });
    let rt_i = (0..ii.instruments().len()).all(|k| {
        ii.find_instrument(InstrumentIndex(k))
            .ok()
            .and_then(|i| {
                ii.find_instrument_index(i.exchange.value, &i.name_internal)
                    .ok()
            })
            == Some(InstrumentIndex(k))
    }) && defs.iter().all(|d| {
        ii.find_instrument_index(EXS[d.e], &ins_ni(d.ni))
            .ok()
            .and_then(|k| ii.find_instrument(k).ok())
            .map(|i| {
                i.exchange.value == EXS[d.e]
                    && i.name_internal == ins_ni(d.ni)
                    && i.name_exchange == ins_ne(d.ne)
            })
            == Some(true)
    });
    lines.push(format!("rt {} {} {}", b(rt_e), b(rt_a), b(rt_i)));
}

/// asset references of a definition in `add_instrument` push order
fn def_assets(d: &D) -> Vec<A> {
    let mut v = vec![d.base.clone(), d.quote.clone()];
    match &d.kind {
        K::S => {}
        K::P(_, a) | K::F(_, a, _) | K::O(_, a, ..) => v.push(a.clone()),
    }
    if let Some((_, _, U::A(a), ..)) = &d.spec {
        v.push(a.clone());
    }
    v
}

fn op_perm(defs: &[D], p: &[usize], lines: &mut Vec<String>) {
    let permuted: Vec<D> = p.iter().map(|i| defs[*i].clone()).collect();
    lines.push(format!("same {}", b(index(defs) == index(&permuted))));
}

fn op_engine(defs: &[D], lines: &mut Vec<String>) {
    let ii = index(defs);
    let state: EngineState<DefaultGlobalData, DefaultInstrumentMarketData> = EngineState::builder(
        &ii,
        DefaultGlobalData::default(),
        DefaultInstrumentMarketData::default,
    )
    .time_engine_start(time(0))
    .build();
    engine_lines(defs, &ii, state, lines);
}

/// one call on the `EngineStateBuilder` (op `engcfg`)
#[derive(Clone, Debug)]
enum Call {
    /// `t`: `time_engine_start`
    Time,
    /// `s0` / `s1`: `trading_state(Disabled / Enabled)`
    Trading(bool),
    /// `b N (E NI TOTAL FREE){N}`: one `balances` call with N keyed balances in this order
    Balances(Vec<(usize, usize, usize, usize)>),
}

/// `None` = malformed (`bad-op`, as the drivers)
fn parse_calls(toks: &[String]) -> Option<Vec<Call>> {
    let mut t = Toks(toks.iter());
    let mut v = vec![];
    while let Some(c) = t.s() {
        v.push(match c {
            "t" => Call::Time,
            "s0" => Call::Trading(false),
            "s1" => Call::Trading(true),
            "b" => {
                let n = t.n(MAX_NAME)?;
                let mut bs = vec![];
                for _ in 0..n {
                    bs.push((t.n(EXS.len() - 1)?, t.n(MAX_NAME)?, t.v()?, t.v()?));
                }
                Call::Balances(bs)
            }
            _ => return None,
        });
    }
    Some(v)
}

/// `engcfg`: the engine state assembled by an arbitrary sequence of builder calls (any order, each
/// option given never / once / several times; initial balances for none / some / all assets in any
/// order, over several calls). Prints what `engine` prints for this state, then the trading state,
/// the balance held at every POSITION of the asset table (`bal`), the balance found for every
/// supplied key through `find_asset_index` + `asset_index` (`balr`) and the number of entries that
/// hold a balance (`baln`).
fn op_engcfg(defs: &[D], calls: &[Call], lines: &mut Vec<String>) {
    use barter::engine::state::trading::TradingState;
    use barter_execution::balance::Balance;
    use barter_instrument::asset::ExchangeAsset;
    let ii = index(defs);
    let mut builder = EngineState::builder(
        &ii,
        DefaultGlobalData::default(),
        DefaultInstrumentMarketData::default,
    );
    for c in calls {
        builder = match c {
            Call::Time => builder.time_engine_start(time(0)),
            Call::Trading(on) => builder.trading_state(if *on {
                TradingState::Enabled
            } else {
                TradingState::Disabled
            }),
            Call::Balances(bs) => builder.balances(bs.iter().map(|(e, ni, tot, free)| {
                Keyed::new(
                    ExchangeAsset::new(EXS[*e], asset_ni(*ni)),
                    Balance::new(dec(*tot), dec(*free)),
                )
            })),
        };
    }
    let state: EngineState<DefaultGlobalData, DefaultInstrumentMarketData> = builder.build();
    let trading = state.trading == TradingState::Enabled;
    let bal = |st: &barter::engine::state::asset::AssetState| match &st.balance {
        Some(b) => format!("{} {}", undec(b.value.total), undec(b.value.free)),
        None => "none".to_string(),
    };
    let mut extra = vec![format!("trd {}", b(trading))];
    let mut n_bal = 0usize;
    for k in 0..state.assets.0.len() {
        let (key, _) = state.assets.0.get_index(k).unwrap();
        let st = state.assets.asset_index(&AssetIndex(k));
        n_bal += st.balance.is_some() as usize;
        extra.push(format!(
            "bal {k} {} {} {}",
            label(key.exchange),
            un(key.asset.name()),
            bal(st)
        ));
    }
    let supplied = calls.iter().flat_map(|c| match c {
        Call::Balances(bs) => bs.clone(),
        _ => vec![],
    });
    for (j, (e, ni, ..)) in supplied.enumerate() {
        let r = catch_unwind(AssertUnwindSafe(|| {
            let k = ii.find_asset_index(EXS[e], &asset_ni(ni)).ok()?;
            let (key, _) = state.assets.0.get_index(k.0)?;
            let st = state.assets.asset_index(&k);
            Some(format!(
                "{} {} {}",
                label(key.exchange),
                un(key.asset.name()),
                bal(st)
            ))
        }))
        .unwrap_or(None);
        extra.push(format!("balr {j} {}", r.unwrap_or_else(|| "unknown".into())));
    }
    extra.push(format!("baln {n_bal}"));
    engine_lines(defs, &ii, state, lines);
    lines.extend(extra);
}

fn engine_lines(
    defs: &[D],
    ii: &IndexedInstruments,
    state: EngineState<DefaultGlobalData, DefaultInstrumentMarketData>,
    lines: &mut Vec<String>,
) {
    for (k, (name, st)) in state.instruments.0.iter().enumerate() {
        lines.push(format!(
            "ins {k} {} {} {}",
            un(name.name()),
            st.key.0,
            raw_toks(&st.instrument, |e| e.0.to_string(), |a| a.0.to_string())
        ));
    }
    for (k, (key, st)) in state.assets.0.iter().enumerate() {
        let a = unasset(&st.asset);
        lines.push(format!(
            "ast {k} {} {} {} {}",
            label(key.exchange),
            un(key.asset.name()),
            a.0,
            a.1
        ));
    }
    for (k, (e, _)) in state.connectivity.exchanges.iter().enumerate() {
        lines.push(format!("con {k} {}", label(*e)));
    }
    for (n, d) in defs.iter().enumerate() {
        let r = catch_unwind(AssertUnwindSafe(|| {
            let k = ii.find_instrument_index(EXS[d.e], &ins_ni(d.ni)).ok()?;
            // observation points named by the property: positional reads of the three tables
            let st = state.instruments.instrument_index(&k);
            if st.key != k {
                return None;
            }
            let (exchange, _) = state
                .connectivity
                .exchanges
                .get_index(st.instrument.exchange.0)?;
            undef(
                &st.instrument,
                |_| EXS.iter().position(|x| x == exchange),
                |a: &AssetIndex| {
                    let (key, _) = state.assets.0.get_index(a.0)?;
                    let ast = state.assets.asset_index(a);
                    (key.exchange == *exchange && key.asset == ast.asset.name_internal)
                        .then(|| unasset(&ast.asset))
                },
            )
        }))
        .unwrap_or(None);
        lines.push(opt_line(format!("eres {n}"), r));
    }
    // the same read through the accessors the ENGINE routes through (`instrument_index_mut`,
    // `asset_index_mut`, `connectivity_index_mut` and `connectivity_index`): each must hand out the
    // entry at the position the index names. The connectivity accessors return the state without
    // its key, so they are identified by address with the raw positional entry.
    let mut state = state;
    for (n, d) in defs.iter().enumerate() {
        let r = catch_unwind(AssertUnwindSafe(|| {
            let k = ii.find_instrument_index(EXS[d.e], &ins_ni(d.ni)).ok()?;
            let (key, instrument) = {
                let st = state.instruments.instrument_index_mut(&k);
                (st.key, st.instrument.clone())
            };
            if key != k {
                return None;
            }
            let ex_idx = instrument.exchange;
            let via_mut = state.connectivity.connectivity_index_mut(&ex_idx) as *const _;
            let via_ref = state.connectivity.connectivity_index(&ex_idx) as *const _;
            let (exchange, raw) = state.connectivity.exchanges.get_index(ex_idx.0)?;
            if !std::ptr::eq(via_mut, raw) || !std::ptr::eq(via_ref, raw) {
                return None;
            }
            let exchange = *exchange;
            let assets = std::cell::RefCell::new(&mut state.assets);
            undef(
                &instrument,
                |_| EXS.iter().position(|x| *x == exchange),
                |a: &AssetIndex| {
                    let mut assets = assets.borrow_mut();
                    let asset = assets.asset_index_mut(a).asset.clone();
                    let (key, _) = assets.0.get_index(a.0)?;
                    (key.exchange == exchange && key.asset == asset.name_internal).then(|| unasset(&asset))
                },
            )
        }))
        .unwrap_or(None);
        lines.push(opt_line(format!("eresm {n}"), r));
    }
}

/// A live-client stand-in for exchange label `N`: `ExecutionBuilder::add_live` only needs the
/// associated const and a constructor, none of the async methods is ever polled here.
#[derive(Clone)]
struct Stub<const N: usize>;

impl<const N: usize> ExecutionClient for Stub<N> {
    const EXCHANGE: ExchangeId = EXS[N];
    type Config = ();
    type AccountStream = futures::stream::Empty<UnindexedAccountEvent>;

    fn new(_: Self::Config) -> Self {
        Stub
    }
    fn account_snapshot(
        &self,
        _: &[AssetNameExchange],
        _: &[InstrumentNameExchange],
    ) -> impl Future<Output = Result<UnindexedAccountSnapshot, UnindexedClientError>> + Send {
        async { unimplemented!() }
    }
    fn account_stream(
        &self,
        _: &[AssetNameExchange],
        _: &[InstrumentNameExchange],
    ) -> impl Future<Output = Result<Self::AccountStream, UnindexedClientError>> + Send {
        async { unimplemented!() }
    }
    fn cancel_order(
        &self,
        _: OrderRequestCancel<ExchangeId, &InstrumentNameExchange>,
    ) -> impl Future<Output = UnindexedOrderResponseCancel> + Send {
        async { unimplemented!() }
    }
    fn open_order(
        &self,
        _: OrderRequestOpen<ExchangeId, &InstrumentNameExchange>,
    ) -> impl Future<
        Output = Order<ExchangeId, InstrumentNameExchange, Result<Open, UnindexedOrderError>>,
    > + Send {
        async { unimplemented!() }
    }
    fn fetch_balances(
        &self,
    ) -> impl Future<Output = Result<Vec<AssetBalance<AssetNameExchange>>, UnindexedClientError>>
    {
        async { unimplemented!() }
    }
    fn fetch_open_orders(
        &self,
    ) -> impl Future<
        Output = Result<Vec<Order<ExchangeId, InstrumentNameExchange, Open>>, UnindexedClientError>,
    > {
        async { unimplemented!() }
    }
    fn fetch_trades(
        &self,
        _: DateTime<Utc>,
    ) -> impl Future<Output = Result<Vec<Trade<QuoteAsset, InstrumentNameExchange>>, UnindexedClientError>>
    {
        async { unimplemented!() }
    }
}

fn op_exec(defs: &[D], es: &[usize], lines: &mut Vec<String>) {
    // the mock path supports spot instruments only; use it when it can be used
    let es: Vec<(bool, usize)> = es
        .iter()
        .map(|e| {
            let all_spot = defs.iter().filter(|d| d.e == *e).all(|d| d.kind == K::S);
            (all_spot && *e % 2 == 0, *e)
        })
        .collect();
    op_exec_kinds(defs, &es, false, lines)
}

/// `execk` tokens `m<E>` (add_mock) / `l<E>` (add_live); `None` = malformed
fn parse_kinds(toks: &[String]) -> Option<Vec<(bool, usize)>> {
    toks.iter()
        .map(|t| {
            let mock = match t.as_bytes().first()? {
                b'm' => true,
                b'l' => false,
                _ => return None,
            };
            let e = parse_nats(std::slice::from_ref(&t[1..].to_string()), EXS.len() - 1)?;
            Some((mock, e[0]))
        })
        .collect()
}

/// the executions `(mock?, exchange)` added in this order with the kind of link the OP names
/// (`exec` derives the kind from the exchange; `execk` lets every exchange have either kind; an
/// `add_mock` for an exchange with a non-spot instrument panics in the real code - documented).
/// `counts`: also print how many mock-exchange / manager-init futures the build holds.
fn op_exec_kinds(defs: &[D], es: &[(bool, usize)], counts: bool, lines: &mut Vec<String>) {
    let ii = index(defs);
    let mut builder = ExecutionBuilder::new(&ii);
    let timeout = std::time::Duration::from_secs(1);
    for (mock, e) in es {
        let res = if *mock {
            builder.add_mock(
                MockExecutionConfig {
                    mocked_exchange: EXS[*e],
                    initial_state: UnindexedAccountSnapshot {
                        exchange: EXS[*e],
                        balances: vec![],
                        instruments: vec![],
                    },
                    latency_ms: 0,
                    fees_percent: Decimal::ZERO,
                },
                HistoricalClock::new(time(0)),
            )
        } else {
            macro_rules! live {
                ($($n:literal)*) => {
                    match e {
                        $($n => builder.add_live::<Stub<$n>>((), timeout),)*
                        _ => unreachable!("exchange label checked by the op parser"),
                    }
                };
            }
            live!(0 1 2 3 4 5 6 7 8 9 10 11 12 13 14 15 16 17 18 19 20 21 22 23 24 25 26 27 28 29 30 31 32 33 34 35 36 37 38 39 40 41)
        };
        match res {
            Ok(next) => builder = next,
            Err(_) => {
                lines.push("exec err".into());
                return;
            }
        }
    }
    let build = builder.build();
    if counts {
        lines.push(format!(
            "nfut {} {}",
            build.futures.mock_exchange_run_futures.len(),
            build.futures.execution_init_futures.len()
        ));
    }
    let map = &build.execution_tx_map;
    let table: Vec<(String, bool)> = map
        .into_iter()
        .enumerate()
        .map(|(k, (e, tx))| {
            // `find` is the engine's routing lookup (positional); it must agree with the slot
            assert_eq!(map.find(&ExchangeIndex(k)).is_ok(), tx.is_some());
            (label(*e), tx.is_some())
        })
        .collect();
    for (k, (e, has)) in table.iter().enumerate() {
        lines.push(format!("tx {k} {e} {}", b(*has)));
    }
    for (n, d) in defs.iter().enumerate() {
        match ii
            .find_exchange_index(EXS[d.e])
            .ok()
            .and_then(|k| table.get(k.0))
        {
            Some((e, has)) => lines.push(format!("txres {n} {e} {}", b(*has))),
            None => lines.push(format!("txres {n} none")),
        }
    }
}

fn run() {
    run_cases(|case, lines| {
        let mut defs: Vec<D> = vec![];
        DEC.with(|c| c.set((0, 0)));
        for op in &case.ops {
            lines.push("@".into());
            let mut block: Vec<String> = vec![];
            // malformed ops are answered `bad-op` (as by the drivers), never run
            enum Op {
                Dec(u32, i64),
                Def(D),
                Build,
                Perm(Vec<usize>),
                Engine,
                EngCfg(Vec<Call>),
                Exec(Vec<usize>),
                ExecK(Vec<(bool, usize)>),
            }
            let parsed = match op[0].as_str() {
                "dec" if op.len() == 3 => parse_nats(&op[1..2], 8)
                    .zip(parse_nats(&op[2..], MAX_VALUE))
                    .map(|(s, o)| Op::Dec(s[0] as u32, o[0] as i64)),
                "def" => parse_def(&op[1..]).map(Op::Def),
                "build" if op.len() == 1 => Some(Op::Build),
                "perm" => parse_nats(&op[1..], usize::MAX)
                    .filter(|p| p.iter().all(|i| *i < defs.len()))
                    .map(Op::Perm),
                "engine" if op.len() == 1 => Some(Op::Engine),
                "engcfg" => parse_calls(&op[1..]).map(Op::EngCfg),
                "exec" => parse_nats(&op[1..], EXS.len() - 1).map(Op::Exec),
                "execk" => parse_kinds(&op[1..]).map(Op::ExecK),
                _ => None,
            };
            let Some(parsed) = parsed else {
                lines.push("bad-op".into());
                continue;
            };
            let res = catch_unwind(AssertUnwindSafe(|| match parsed {
                Op::Dec(scale, off) => DEC.with(|c| c.set((scale, off))),
                Op::Def(d) => {
                    defs.push(d);
                    block.push(format!("ndefs {}", defs.len()));
                }
                Op::Build => op_build(&defs, &mut block),
                Op::Perm(p) => op_perm(&defs, &p, &mut block),
                Op::Engine => op_engine(&defs, &mut block),
                Op::EngCfg(calls) => op_engcfg(&defs, &calls, &mut block),
                Op::Exec(es) => op_exec(&defs, &es, &mut block),
                Op::ExecK(es) => op_exec_kinds(&defs, &es, true, &mut block),
            }));
            match res {
                Ok(()) => lines.extend(block),
                Err(_) => lines.push("panic".into()),
            }
        }
    });
}

// ---------------------------------------------------------------------------- generator

struct Gen {
    rng: Rng,
    /// all assets of a case obey "internal name determines exchange name within an exchange"
    wf: bool,
    /// (with `wf`) a near-copy on ANOTHER exchange keeps its instrument internal name: names unique
    /// within each exchange but not over the collection - the IndexedInstruments clauses (`res`,
    /// `rt`) hold there, the engine's name-keyed table does not (oracle review C11-M1)
    shared: bool,
    n_ex: usize,
    next_name: usize,
}

impl Gen {
    fn asset(&mut self, e: usize) -> A {
        let ni = self.rng.below(4) as usize;
        if self.wf {
            // same internal name on two exchanges may carry different exchange names
            A(ni, ni + if e % 2 == 1 { 10 } else { 0 })
        } else {
            A(ni, ni + 10 * self.rng.below(2) as usize)
        }
    }
    fn small(&mut self) -> usize {
        *self.rng.pick(&[1usize, 1, 1, 2, 5])
    }
    fn def(&mut self) -> D {
        let e = self.rng.below(self.n_ex as u64) as usize;
        let ni = if self.wf {
            self.next_name += 1;
            self.next_name
        } else {
            self.rng.below(4) as usize
        };
        let ne = self.rng.below(3) as usize;
        let base = self.asset(e);
        let quote = self.asset(e);
        let kind = match self.rng.below(6) {
            0 | 1 | 2 => K::S,
            3 => K::P(self.small(), self.asset(e)),
            4 => K::F(self.small(), self.asset(e), self.rng.below(3) as usize),
            _ => K::O(
                self.small(),
                self.asset(e),
                self.rng.below(2) as usize,
                self.rng.below(3) as usize,
                self.rng.below(3) as usize,
                self.small(),
            ),
        };
        let spec = if self.rng.chance(50) {
            None
        } else {
            let u = match self.rng.below(4) {
                0 | 1 => U::A(self.asset(e)),
                2 => U::C,
                _ => U::Q,
            };
            Some((self.small(), self.small(), u, self.small(), self.small(), self.small()))
        };
        D {
            e,
            ni,
            ne,
            base,
            quote,
            qa: self.rng.below(2) as usize,
            kind,
            spec,
        }
    }
    /// a multiset of definitions: fresh ones, verbatim repeats, and near-copies on another exchange
    fn defs(&mut self, n: usize) -> Vec<D> {
        let mut v: Vec<D> = vec![];
        for _ in 0..n {
            if !v.is_empty() && self.rng.chance(25) {
                let d = self.rng.pick(&v).clone();
                v.push(d);
            } else if !v.is_empty() && self.rng.chance(20) {
                // same shape on another exchange (shared asset names across exchanges)
                let mut d = self.rng.pick(&v).clone();
                d.e = self.rng.below(self.n_ex as u64) as usize;
                if self.wf {
                    self.next_name += 1;
                    if !(self.shared && !v.iter().any(|x| x.e == d.e && x.ni == d.ni)) {
                        d.ni = self.next_name;
                    }
                    let e = d.e;
                    let fix = |a: &mut A| a.1 = a.0 + if e % 2 == 1 { 10 } else { 0 };
                    fix(&mut d.base);
                    fix(&mut d.quote);
                    match &mut d.kind {
                        K::S => {}
                        K::P(_, a) | K::F(_, a, _) | K::O(_, a, ..) => fix(a),
                    }
                    if let Some((_, _, U::A(a), ..)) = &mut d.spec {
                        fix(a);
                    }
                }
                v.push(d);
            } else {
                let d = self.def();
                v.push(d);
            }
        }
        v
    }
}

fn permutations(n: usize) -> Vec<Vec<usize>> {
    fn go(cur: &mut Vec<usize>, used: &mut Vec<bool>, n: usize, out: &mut Vec<Vec<usize>>) {
        if cur.len() == n {
            out.push(cur.clone());
            return;
        }
        for i in 0..n {
            if !used[i] {
                used[i] = true;
                cur.push(i);
                go(cur, used, n, out);
                cur.pop();
                used[i] = false;
            }
        }
    }
    let mut out = vec![];
    go(&mut vec![], &mut vec![false; n], n, &mut out);
    out
}

/// labels (positions in `EXS`) of the five exchanges of the original families
fn old5() -> Vec<usize> {
    OLD5.iter()
        .map(|e| EXS.iter().position(|x| x == e).unwrap())
        .collect()
}

fn shuffle(rng: &mut Rng, p: &mut [usize]) {
    for i in (1..p.len()).rev() {
        let j = rng.below(i as u64 + 1) as usize;
        p.swap(i, j);
    }
}

fn join(p: &[usize]) -> String {
    p.iter().map(|x| x.to_string()).collect::<Vec<_>>().join(" ")
}

fn emit_case(out: &mut Out, g: &mut Gen, id: String, n: usize, all_perms: bool) {
    out.case(id);
    // the generator's exchange numbers 0..4 are the five original exchanges, ascending
    let lab = old5();
    let defs: Vec<D> = g
        .defs(n)
        .into_iter()
        .map(|d| D { e: lab[d.e], ..d })
        .collect();
    for d in &defs {
        out.line(format!("def {}", def_toks(d)));
    }
    out.line("build");
    if all_perms {
        for p in permutations(n) {
            out.line(format!("perm {}", join(&p)).trim_end());
        }
    } else {
        for _ in 0..3 {
            // random shuffle; sometimes with an element repeated (same set, other multiplicities)
            let mut p: Vec<usize> = (0..n).collect();
            shuffle(&mut g.rng, &mut p);
            if n > 0 && g.rng.chance(30) {
                let extra = g.rng.below(n as u64) as usize;
                let at = g.rng.below(p.len() as u64 + 1) as usize;
                p.insert(at, extra);
            }
            out.line(format!("perm {}", join(&p)).trim_end());
        }
    }
    out.line("engine");
    // executions: a random subset of the indexed exchanges in random order; sometimes an unknown
    // exchange or a duplicate (both are refused by the builder)
    let mut known: Vec<usize> = defs.iter().map(|d| d.e).collect();
    known.sort();
    known.dedup();
    for _ in 0..2 {
        let mut es: Vec<usize> = known.iter().copied().filter(|_| g.rng.chance(60)).collect();
        shuffle(&mut g.rng, &mut es);
        if g.rng.chance(10) {
            es.push(lab[g.rng.below(lab.len() as u64) as usize]);
        }
        out.line(format!("exec {}", join(&es)).trim_end());
    }
}

// ------------------------------------------------------------ input-domain families (`w`, `l`)

/// decimals: zero, small, multi-digit (numeric order differs from the order of the digit strings),
/// the largest magnitudes a real specification carries
const VALS: [usize; 10] = [
    0,
    1,
    1,
    2,
    5,
    9,
    10,
    100,
    999_999_999_999,
    1_000_000_000_000,
];
/// expiries (ms after the harness' base instant): equal, adjacent, a second / a day / decades apart
const EXPS: [usize; 7] = [0, 1, 2, 999, 1000, 86_400_000, 1_000_000_000_000];

/// Collections outside the small world of `Gen`: exchanges drawn from the WHOLE enum (up to 8 in one
/// collection, first and last variant included), instrument names in no particular order, assets
/// from a pool of `na` internal names whose exchange names are an arbitrary per-exchange function
/// (two internal names may share one exchange name; the same internal name has unrelated exchange
/// names on two exchanges), decimals / expiries from `VALS` / `EXPS`.
struct Gen2 {
    rng: Rng,
    wf: bool,
    shared: bool,
    /// labels of the case's exchanges
    exs: Vec<usize>,
    na: usize,
    /// per exchange (position in `exs`) and internal asset name: the exchange name
    xn: Vec<Vec<usize>>,
    /// instrument names in use: (exchange position, name); exchange position 0 for all when names
    /// are to be unique over the collection
    used: std::collections::HashSet<(usize, usize)>,
    /// size of the pool instrument names are drawn from
    names: usize,
}

impl Gen2 {
    fn new(mut rng: Rng, wf: bool, shared: bool, n_ex: usize, na: usize, names: usize) -> Gen2 {
        // a random subset of the enum; every fourth case holds the first and the last variant
        let mut all: Vec<usize> = (0..EXS.len()).collect();
        shuffle(&mut rng, &mut all);
        let mut exs: Vec<usize> = all.into_iter().take(n_ex).collect();
        if rng.chance(25) && n_ex >= 2 {
            if !exs.contains(&0) {
                exs[0] = 0;
            }
            if !exs.contains(&(EXS.len() - 1)) {
                exs[1] = EXS.len() - 1;
            }
        }
        // few distinct exchange names so that two internal names share one
        let pool = (na * 2 / 3).max(2);
        let xn = (0..n_ex)
            .map(|_| (0..na).map(|_| rng.below(pool as u64) as usize).collect())
            .collect();
        Gen2 {
            rng,
            wf,
            shared,
            exs,
            na,
            xn,
            used: Default::default(),
            names,
        }
    }
    fn asset(&mut self, e: usize) -> A {
        let ni = self.rng.below(self.na as u64) as usize;
        if self.wf {
            A(ni, self.xn[e][ni])
        } else if self.rng.chance(70) {
            A(ni, self.xn[e][ni])
        } else {
            A(ni, self.rng.below(self.na as u64) as usize)
        }
    }
    fn val(&mut self) -> usize {
        *self.rng.pick(&VALS)
    }
    /// an instrument name for exchange position `e` respecting the case's uniqueness mode
    fn name(&mut self, e: usize) -> usize {
        if !self.wf {
            return self.rng.below(self.names.min(6) as u64) as usize;
        }
        loop {
            let n = self.rng.below(self.names as u64) as usize;
            let key = (if self.shared { e } else { 0 }, n);
            if self.used.insert(key) {
                return n;
            }
        }
    }
    fn def(&mut self) -> D {
        let e = self.rng.below(self.exs.len() as u64) as usize;
        let ni = self.name(e);
        // exchange names of instruments: often from a few (shared within and between exchanges)
        let ne = if self.rng.chance(50) {
            self.rng.below(6) as usize
        } else {
            self.rng.below(self.names as u64) as usize
        };
        let base = self.asset(e);
        let quote = self.asset(e);
        let kind = match self.rng.below(5) {
            0 | 1 => K::S,
            2 => K::P(self.val(), self.asset(e)),
            3 => K::F(self.val(), self.asset(e), *self.rng.pick(&EXPS)),
            _ => K::O(
                self.val(),
                self.asset(e),
                self.rng.below(2) as usize,
                self.rng.below(3) as usize,
                *self.rng.pick(&EXPS),
                self.val(),
            ),
        };
        let spec = if self.rng.chance(40) {
            None
        } else {
            let u = match self.rng.below(4) {
                0 | 1 => U::A(self.asset(e)),
                2 => U::C,
                _ => U::Q,
            };
            Some((self.val(), self.val(), u, self.val(), self.val(), self.val()))
        };
        D {
            e,
            ni,
            ne,
            base,
            quote,
            qa: self.rng.below(2) as usize,
            kind,
            spec,
        }
    }
    /// `e` is the exchange POSITION here; mapped to labels by `emit_case2`
    fn defs(&mut self, n: usize) -> Vec<D> {
        let mut v: Vec<D> = vec![];
        while v.len() < n {
            if !v.is_empty() && self.rng.chance(15) {
                let d = self.rng.pick(&v).clone();
                v.push(d);
            } else if !v.is_empty() && self.rng.chance(15) {
                // the same shape on another exchange; a one-field variation of it on the same one
                let mut d = self.rng.pick(&v).clone();
                let e = self.rng.below(self.exs.len() as u64) as usize;
                if e == d.e {
                    // differs from an existing definition in ONE late field of the derived order
                    d.ni = self.name(e);
                    match &mut d.kind {
                        K::S => d.qa = 1 - d.qa,
                        K::P(s, _) => *s = *self.rng.pick(&VALS),
                        K::F(_, _, x) => *x = *self.rng.pick(&EXPS),
                        K::O(_, _, p, ..) => *p = 1 - *p,
                    }
                } else {
                    d.e = e;
                    if self.wf {
                        if !(self.shared && self.used.insert((e, d.ni))) {
                            d.ni = self.name(e);
                        }
                        let xn = &self.xn[e];
                        let fix = |a: &mut A| a.1 = xn[a.0];
                        fix(&mut d.base);
                        fix(&mut d.quote);
                        match &mut d.kind {
                            K::S => {}
                            K::P(_, a) | K::F(_, a, _) | K::O(_, a, ..) => fix(a),
                        }
                        if let Some((_, _, U::A(a), ..)) = &mut d.spec {
                            fix(a);
                        }
                    }
                }
                v.push(d);
            } else {
                let d = self.def();
                v.push(d);
            }
        }
        v
    }
}

fn emit_case2(out: &mut Out, g: &mut Gen2, id: String, n: usize, coded: bool) {
    out.case(id);
    if coded {
        // fractional and negative decimals: (n - offset) / 10^scale
        let scale = *g.rng.pick(&[0u32, 2, 8]);
        let off = *g.rng.pick(&[0usize, 3, 10, 500_000_000_000]);
        out.line(format!("dec {scale} {off}"));
    }
    let defs: Vec<D> = g
        .defs(n)
        .into_iter()
        .map(|d| D { e: g.exs[d.e], ..d })
        .collect();
    for d in &defs {
        out.line(format!("def {}", def_toks(d)));
    }
    out.line("build");
    for k in 0..3 {
        let mut p: Vec<usize> = (0..n).collect();
        shuffle(&mut g.rng, &mut p);
        match (k, g.rng.below(4)) {
            // the reverse order; every element twice; one element many times; a plain shuffle
            (0, _) => p = (0..n).rev().collect(),
            (_, 0) => {
                let mut q = p.clone();
                shuffle(&mut g.rng, &mut q);
                p.extend(q);
            }
            (_, 1) if n > 0 => {
                let extra = g.rng.below(n as u64) as usize;
                for _ in 0..3 {
                    let at = g.rng.below(p.len() as u64 + 1) as usize;
                    p.insert(at, extra);
                }
            }
            _ => {}
        }
        out.line(format!("perm {}", join(&p)).trim_end());
    }
    out.line("engine");
    let mut known: Vec<usize> = defs.iter().map(|d| d.e).collect();
    known.sort();
    known.dedup();
    for k in 0..2 {
        // all exchanges of the collection (first op) or a random subset, in random order; sometimes
        // an exchange of the enum the collection does not mention, or a duplicate
        let mut es: Vec<usize> = known
            .iter()
            .copied()
            .filter(|_| k == 0 || g.rng.chance(60))
            .collect();
        shuffle(&mut g.rng, &mut es);
        if g.rng.chance(10) {
            es.push(g.rng.below(EXS.len() as u64) as usize);
        } else if !es.is_empty() && g.rng.chance(6) {
            let at = g.rng.below(es.len() as u64 + 1) as usize;
            let x = *g.rng.pick(&es);
            es.insert(at, x);
        }
        out.line(format!("exec {}", join(&es)).trim_end());
    }
}

fn generate(seed: u64, n_cases: usize, tier: &str) {
    let mut out = Out::new();
    let mut rng = Rng::new(seed);
    let mut id = 0usize;
    if tier == "thorough" {
        // every insertion order of collections of up to 5 definitions
        for size in 0..=5usize {
            for _ in 0..(if size <= 3 { 6 } else { 4 }) {
                id += 1;
                let mut g = Gen {
                    rng: rng.fork(),
                    wf: id % 5 != 0,
                    shared: id % 4 == 1,
                    n_ex: 1 + (id % 3),
                    next_name: 0,
                };
                emit_case(&mut out, &mut g, format!("x{id}"), size, true);
            }
        }
    }
    for _ in 0..n_cases {
        id += 1;
        let mut g = Gen {
            rng: rng.fork(),
            wf: !rng.chance(12),
            shared: id % 6 == 1,
            n_ex: rng.range(1, 4) as usize,
            next_name: 0,
        };
        let n = rng.range(0, 8) as usize;
        emit_case(&mut out, &mut g, format!("r{id}"), n, false);
    }
    // input-domain families, separately seeded (the cases above do not depend on them):
    // `w`: 0-12 definitions over 1-8 exchanges of the whole enum, wide values (n / 8 cases);
    // `l`: large collections, 50-130 definitions over 2-8 exchanges and 8-40 asset names
    //      (n / 60 cases; every tenth one, the fifth first, 260-320 definitions: indices past u8)
    let mut rng = Rng::new(seed ^ 0x11d0_d0a1);
    for k in 0..n_cases / 8 {
        let wf = !rng.chance(12);
        let n_ex = rng.range(1, 8) as usize;
        let na = rng.range(2, 6) as usize;
        let n = rng.range(0, 12) as usize;
        let mut g = Gen2::new(rng.fork(), wf, k % 5 == 1, n_ex, na, 1000);
        let coded = k % 5 >= 3;
        emit_case2(&mut out, &mut g, format!("w{}", k + 1), n, coded);
    }
    for k in 0..n_cases / 60 {
        let wf = !rng.chance(10);
        let n_ex = rng.range(2, 8) as usize;
        let na = rng.range(8, 40) as usize;
        let n = if k % 10 == 4 {
            rng.range(260, 320) as usize
        } else {
            rng.range(50, 130) as usize
        };
        // shared mode draws names from a pool about the size of the collection: many names occur
        // on several exchanges
        let shared = k % 4 == 1;
        let mut g = Gen2::new(rng.fork(), wf, shared, n_ex, na, if shared { n.max(8) } else { 1000 });
        emit_case2(&mut out, &mut g, format!("l{}", k + 1), n, k % 3 == 2);
    }
    // set-up family `g` (configuration shapes of the derived tables), separately seeded: the engine
    // state assembled by an arbitrary sequence of builder calls - see `emit_case_cfg`
    let mut rng = Rng::new(seed ^ 0x11cf_61a7);
    for k in 0..(n_cases / 6).max(if n_cases > 0 { 8 } else { 0 }) {
        let wf = !rng.chance(10);
        let n_ex = rng.range(1, 5) as usize;
        let na = rng.range(2, 5) as usize;
        let n = rng.range(0, 9) as usize;
        let mut g = Gen2::new(rng.fork(), wf, k % 5 == 1, n_ex, na, 1000);
        emit_case_cfg(&mut out, &mut g, format!("g{}", k + 1), n, k);
    }
    out.flush();
}

/// Set-up shapes of `EngineStateBuilder`: per case three `engcfg` ops, each a different sequence of
/// builder calls - `time_engine_start` / `trading_state` given never, once or twice, before, between
/// or after the `balances` calls; initial balances for NONE, SOME or ALL assets of the collection, in
/// index order, reversed or shuffled, in one call or spread over several, with a key repeated (the
/// later value wins), with the same asset name on two exchanges carrying different balances; 4 % with
/// a key the collection does not hold (the builder panics there: model vs code only).
fn emit_case_cfg(out: &mut Out, g: &mut Gen2, id: String, n: usize, k: usize) {
    out.case(id);
    if k % 7 == 3 {
        out.line("dec 2 500");
    }
    let defs: Vec<D> = g
        .defs(n)
        .into_iter()
        // every other case: spot instruments only on all but the case's first exchange, so that a mock
        // link can be asked for on several exchanges at once
        .map(|d| D {
            e: g.exs[d.e],
            kind: if k % 2 == 0 && d.e != 0 { K::S } else { d.kind.clone() },
            ..d
        })
        .collect();
    for d in &defs {
        out.line(format!("def {}", def_toks(d)));
    }
    // the collection's exchange-assets (by exchange label and internal name), ascending = index order
    let mut keys: Vec<(usize, usize)> = defs
        .iter()
        .flat_map(|d| def_assets(d).into_iter().map(move |a| (d.e, a.0)))
        .collect();
    keys.sort();
    keys.dedup();
    for op in 0..3 {
        // which assets get a balance
        let mut ks: Vec<(usize, usize)> = match (op + k) % 4 {
            0 => vec![],
            1 => keys.clone(),
            _ => keys.iter().copied().filter(|_| g.rng.chance(50)).collect(),
        };
        match g.rng.below(3) {
            0 => {}
            1 => ks.reverse(),
            _ => {
                let mut p: Vec<usize> = (0..ks.len()).collect();
                shuffle(&mut g.rng, &mut p);
                ks = p.iter().map(|i| ks[*i]).collect();
            }
        }
        if !ks.is_empty() && g.rng.chance(30) {
            // a key repeated (another value; the later one wins)
            let x = *g.rng.pick(&ks);
            let at = g.rng.below(ks.len() as u64 + 1) as usize;
            ks.insert(at, x);
        }
        if g.rng.chance(4) {
            // a key outside the collection: an unknown exchange or an unknown name
            let at = g.rng.below(ks.len() as u64 + 1) as usize;
            let e = if g.rng.chance(50) && !keys.is_empty() {
                g.rng.pick(&keys).0
            } else {
                g.rng.below(EXS.len() as u64) as usize
            };
            ks.insert(at, (e, 900 + g.rng.below(3) as usize));
        }
        // distinct values so that a balance landing on the wrong entry shows
        let bs: Vec<String> = ks
            .iter()
            .enumerate()
            .map(|(j, (e, ni))| {
                let tot = 1000 + 10 * j + g.rng.below(3) as usize;
                format!("{e} {ni} {tot} {}", g.rng.below(tot as u64 + 1))
            })
            .collect();
        // split over 0-3 `balances` calls (an empty call is legal)
        let mut calls: Vec<String> = vec![];
        let parts = g.rng.range(if bs.is_empty() { 0 } else { 1 }, 3) as usize;
        let mut rest = &bs[..];
        for part in 0..parts {
            let take = if part + 1 == parts {
                rest.len()
            } else {
                g.rng.below(rest.len() as u64 + 1) as usize
            };
            let (now, later) = rest.split_at(take);
            rest = later;
            calls.push(format!("b {} {}", now.len(), now.join(" ")).trim_end().to_string());
        }
        // the other options: never / once / twice, anywhere in the sequence
        for opt in ["t", "s"] {
            for _ in 0..*g.rng.pick(&[0usize, 1, 1, 1, 2]) {
                let at = g.rng.below(calls.len() as u64 + 1) as usize;
                let c = if opt == "t" {
                    "t".to_string()
                } else {
                    format!("s{}", g.rng.below(2))
                };
                calls.insert(at, c);
            }
        }
        out.line(format!("engcfg {}", calls.join(" ")).trim_end());
    }
    // execution links with the KIND of link chosen freely per exchange (`exec` ties it to the
    // exchange): none at all / all / only the last / only the first / a random subset of the
    // collection's exchanges, in index order, reversed or shuffled; all mock, all live or mixed
    let mut known: Vec<usize> = defs.iter().map(|d| d.e).collect();
    known.sort();
    known.dedup();
    let spot_only =
        |e: usize| defs.iter().filter(|d| d.e == e).all(|d| d.kind == K::S);
    for op in 0..3 {
        let mut es: Vec<usize> = match (op + k) % 5 {
            0 => vec![],
            1 => known.clone(),
            2 => known.last().copied().into_iter().collect(),
            3 => known.first().copied().into_iter().collect(),
            _ => known.iter().copied().filter(|_| g.rng.chance(50)).collect(),
        };
        match g.rng.below(3) {
            0 => {}
            1 => es.reverse(),
            _ => {
                let mut p: Vec<usize> = (0..es.len()).collect();
                shuffle(&mut g.rng, &mut p);
                es = p.iter().map(|i| es[*i]).collect();
            }
        }
        if g.rng.chance(6) {
            // refused by the builder: an exchange outside the collection, or one added twice
            let x = if es.is_empty() || g.rng.chance(50) {
                g.rng.below(EXS.len() as u64) as usize
            } else {
                *g.rng.pick(&es)
            };
            let at = g.rng.below(es.len() as u64 + 1) as usize;
            es.insert(at, x);
        }
        let mode = g.rng.below(3);
        let toks: Vec<String> = es
            .iter()
            .map(|e| {
                // a mock link needs a spot-only exchange (3 %: asked for anyway - the real code panics)
                let can_mock = spot_only(*e) || g.rng.chance(3);
                let mock = can_mock
                    && match mode {
                        0 => true,
                        1 => false,
                        _ => g.rng.chance(50),
                    };
                format!("{}{e}", if mock { "m" } else { "l" })
            })
            .collect();
        out.line(format!("execk {}", toks.join(" ")).trim_end());
    }
}

fn main() {
    let mut sorted = EXS;
    sorted.sort();
    assert_eq!(sorted, EXS, "EXS must ascend in ExchangeId's derived order");
    assert!(OLD5.iter().all(|e| EXS.contains(e)));
    let a = args();
    match a.cmd.as_str() {
        "gen" => generate(a.seed, a.n, &a.tier),
        "run" => run(),
        _ => {
            eprintln!("usage: c11 gen <seed> <n> <tier> | run < cases");
            std::process::exit(2)
        }
    }
}
