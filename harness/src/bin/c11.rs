//! C11 — indices are dense, unique and consistently resolved.
//!
//! A case is a list of instrument definitions (`def ...` ops, see `lean/BarterModel/Driver/C11.lean`
//! for the token format). `build` indexes them with the real `IndexedInstruments::new` and prints
//! the three tables, the positional resolution of every definition and the `find_*` round trips;
//! `perm` re-indexes a reordering and compares; `engine` builds the real `EngineState` and reads the
//! instrument / asset / connectivity tables by position; `exec` runs the real `ExecutionBuilder`.
//!
//! Naturals in op lines are mapped order-preservingly: exchange label -> `EXS[label]` (ascending
//! `ExchangeId`s), name `n` -> fixed-width string, decimals / expiries -> integers.
use barter::{
    engine::{
        clock::HistoricalClock,
        execution_tx::ExecutionTxMap,
        state::{
            EngineState, global::DefaultGlobalData, instrument::data::DefaultInstrumentMarketData,
        },
    },
    execution::builder::ExecutionBuilder,
};
use barter_execution::{
    UnindexedAccountEvent, UnindexedAccountSnapshot,
    balance::AssetBalance,
    client::{ExecutionClient, mock::MockExecutionConfig},
    error::{UnindexedClientError, UnindexedOrderError},
    order::{
        Order,
        request::{OrderRequestCancel, OrderRequestOpen, UnindexedOrderResponseCancel},
        state::Open,
    },
    trade::Trade,
};
use barter_instrument::{
    Keyed, Underlying,
    asset::{
        Asset, AssetIndex, QuoteAsset,
        name::{AssetNameExchange, AssetNameInternal},
    },
    exchange::{ExchangeId, ExchangeIndex},
    index::IndexedInstruments,
    instrument::{
        Instrument, InstrumentIndex,
        kind::{
            InstrumentKind,
            future::FutureContract,
            option::{OptionContract, OptionExercise, OptionKind},
            perpetual::PerpetualContract,
        },
        name::{InstrumentNameExchange, InstrumentNameInternal},
        quote::InstrumentQuoteAsset,
        spec::{
            InstrumentSpec, InstrumentSpecNotional, InstrumentSpecPrice, InstrumentSpecQuantity,
            OrderQuantityUnits,
        },
    },
};
use chrono::{DateTime, TimeZone, Utc};
use rust_decimal::Decimal;
use std::{
    future::Future,
    panic::{AssertUnwindSafe, catch_unwind},
};
use vh::*;

/// label -> ExchangeId, ascending in the derived `Ord` of `ExchangeId` (checked in `main`).
const EXS: [ExchangeId; 5] = [
    ExchangeId::BinanceSpot,
    ExchangeId::Bitfinex,
    ExchangeId::Coinbase,
    ExchangeId::Kraken,
    ExchangeId::Okx,
];

fn label(e: ExchangeId) -> String {
    EXS.iter()
        .position(|x| *x == e)
        .map(|p| p.to_string())
        .unwrap_or_else(|| "?".into())
}

// ---------------------------------------------------------------------------- definitions

#[derive(Clone, Debug, PartialEq, Eq)]
struct A(usize, usize);

#[derive(Clone, Debug, PartialEq, Eq)]
enum K {
    S,
    P(usize, A),
    F(usize, A, usize),
    O(usize, A, usize, usize, usize, usize),
}

#[derive(Clone, Debug, PartialEq, Eq)]
enum U {
    A(A),
    C,
    Q,
}

#[derive(Clone, Debug, PartialEq, Eq)]
struct D {
    e: usize,
    ni: usize,
    ne: usize,
    base: A,
    quote: A,
    qa: usize,
    kind: K,
    spec: Option<(usize, usize, U, usize, usize, usize)>,
}

struct Toks<'a>(std::slice::Iter<'a, String>);
impl<'a> Toks<'a> {
    fn s(&mut self) -> &'a str {
        self.0.next().expect("token").as_str()
    }
    fn n(&mut self) -> usize {
        self.s().parse().expect("nat")
    }
    fn a(&mut self) -> A {
        A(self.n(), self.n())
    }
}

fn parse_def(toks: &[String]) -> D {
    let mut t = Toks(toks.iter());
    let (e, ni, ne) = (t.n(), t.n(), t.n());
    let base = t.a();
    let quote = t.a();
    let qa = t.n();
    let kind = match t.s() {
        "s" => K::S,
        "p" => K::P(t.n(), t.a()),
        "f" => K::F(t.n(), t.a(), t.n()),
        "o" => K::O(t.n(), t.a(), t.n(), t.n(), t.n(), t.n()),
        other => panic!("bad kind {other}"),
    };
    let spec = match t.s() {
        "n" => None,
        "y" => {
            let (pm, tk) = (t.n(), t.n());
            let u = match t.s() {
                "a" => U::A(t.a()),
                "c" => U::C,
                "q" => U::Q,
                other => panic!("bad unit {other}"),
            };
            Some((pm, tk, u, t.n(), t.n(), t.n()))
        }
        other => panic!("bad spec {other}"),
    };
    assert!(t.0.next().is_none(), "trailing tokens");
    D {
        e,
        ni,
        ne,
        base,
        quote,
        qa,
        kind,
        spec,
    }
}

fn def_toks(d: &D) -> String {
    let a = |a: &A| format!("{} {}", a.0, a.1);
    let kind = match &d.kind {
        K::S => "s".to_string(),
        K::P(s, x) => format!("p {s} {}", a(x)),
        K::F(s, x, e) => format!("f {s} {} {e}", a(x)),
        K::O(s, x, p, ex, e, k) => format!("o {s} {} {p} {ex} {e} {k}", a(x)),
    };
    let spec = match &d.spec {
        None => "n".to_string(),
        Some((pm, tk, u, qm, qi, nm)) => {
            let u = match u {
                U::A(x) => format!("a {}", a(x)),
                U::C => "c".into(),
                U::Q => "q".into(),
            };
            format!("y {pm} {tk} {u} {qm} {qi} {nm}")
        }
    };
    format!(
        "{} {} {} {} {} {} {kind} {spec}",
        d.e,
        d.ni,
        d.ne,
        a(&d.base),
        a(&d.quote),
        d.qa
    )
}

// names: fixed width so that string order = numeric order
fn asset_ni(n: usize) -> AssetNameInternal {
    AssetNameInternal::new(format!("a{n:03}"))
}
fn asset_ne(n: usize) -> AssetNameExchange {
    AssetNameExchange::new(format!("X{n:03}"))
}
fn ins_ni(n: usize) -> InstrumentNameInternal {
    InstrumentNameInternal::new(format!("i{n:03}"))
}
fn ins_ne(n: usize) -> InstrumentNameExchange {
    InstrumentNameExchange::new(format!("N{n:03}"))
}
fn un(s: &str) -> usize {
    s[1..].parse().expect("name")
}
fn dec(n: usize) -> Decimal {
    Decimal::from(n as u64)
}
fn undec(d: Decimal) -> usize {
    d.to_string().parse().expect("integer decimal")
}
fn time(n: usize) -> DateTime<Utc> {
    Utc.timestamp_millis_opt(1_600_000_000_000 + n as i64).unwrap()
}
fn untime(t: DateTime<Utc>) -> usize {
    (t.timestamp_millis() - 1_600_000_000_000) as usize
}
fn asset(a: &A) -> Asset {
    Asset {
        name_internal: asset_ni(a.0),
        name_exchange: asset_ne(a.1),
    }
}
fn unasset(a: &Asset) -> A {
    A(un(a.name_internal.name()), un(a.name_exchange.name()))
}

fn to_instrument(d: &D) -> Instrument<ExchangeId, Asset> {
    let kind = match &d.kind {
        K::S => InstrumentKind::Spot,
        K::P(s, a) => InstrumentKind::Perpetual(PerpetualContract {
            contract_size: dec(*s),
            settlement_asset: asset(a),
        }),
        K::F(s, a, e) => InstrumentKind::Future(FutureContract {
            contract_size: dec(*s),
            settlement_asset: asset(a),
            expiry: time(*e),
        }),
        K::O(s, a, p, x, e, k) => InstrumentKind::Option(OptionContract {
            contract_size: dec(*s),
            settlement_asset: asset(a),
            kind: [OptionKind::Call, OptionKind::Put][*p],
            exercise: [
                OptionExercise::American,
                OptionExercise::Bermudan,
                OptionExercise::European,
            ][*x],
            expiry: time(*e),
            strike: dec(*k),
        }),
    };
    let spec = d.spec.as_ref().map(|(pm, tk, u, qm, qi, nm)| InstrumentSpec {
        price: InstrumentSpecPrice {
            min: dec(*pm),
            tick_size: dec(*tk),
        },
        quantity: InstrumentSpecQuantity {
            unit: match u {
                U::A(a) => OrderQuantityUnits::Asset(asset(a)),
                U::C => OrderQuantityUnits::Contract,
                U::Q => OrderQuantityUnits::Quote,
            },
            min: dec(*qm),
            increment: dec(*qi),
        },
        notional: InstrumentSpecNotional { min: dec(*nm) },
    });
    Instrument {
        exchange: EXS[d.e],
        name_internal: ins_ni(d.ni),
        name_exchange: ins_ne(d.ne),
        underlying: Underlying::new(asset(&d.base), asset(&d.quote)),
        quote: [
            InstrumentQuoteAsset::UnderlyingBase,
            InstrumentQuoteAsset::UnderlyingQuote,
        ][d.qa],
        kind,
        spec,
    }
}

/// An instrument with arbitrary exchange / asset keys back to the definition form, given how to
/// read an exchange key (-> label) and an asset key (-> names); `None` when a read fails.
fn undef<E, AK>(
    i: &Instrument<E, AK>,
    fe: impl Fn(&E) -> Option<usize>,
    fa: impl Fn(&AK) -> Option<A>,
) -> Option<D> {
    let kind = match &i.kind {
        InstrumentKind::Spot => K::S,
        InstrumentKind::Perpetual(c) => K::P(undec(c.contract_size), fa(&c.settlement_asset)?),
        InstrumentKind::Future(c) => K::F(
            undec(c.contract_size),
            fa(&c.settlement_asset)?,
            untime(c.expiry),
        ),
        InstrumentKind::Option(c) => K::O(
            undec(c.contract_size),
            fa(&c.settlement_asset)?,
            match c.kind {
                OptionKind::Call => 0,
                OptionKind::Put => 1,
            },
            match c.exercise {
                OptionExercise::American => 0,
                OptionExercise::Bermudan => 1,
                OptionExercise::European => 2,
            },
            untime(c.expiry),
            undec(c.strike),
        ),
    };
    let spec = match &i.spec {
        None => None,
        Some(s) => Some((
            undec(s.price.min),
            undec(s.price.tick_size),
            match &s.quantity.unit {
                OrderQuantityUnits::Asset(a) => U::A(fa(a)?),
                OrderQuantityUnits::Contract => U::C,
                OrderQuantityUnits::Quote => U::Q,
            },
            undec(s.quantity.min),
            undec(s.quantity.increment),
            undec(s.notional.min),
        )),
    };
    Some(D {
        e: fe(&i.exchange)?,
        ni: un(i.name_internal.name()),
        ne: un(i.name_exchange.name()),
        base: fa(&i.underlying.base)?,
        quote: fa(&i.underlying.quote)?,
        qa: match i.quote {
            InstrumentQuoteAsset::UnderlyingBase => 0,
            InstrumentQuoteAsset::UnderlyingQuote => 1,
        },
        kind,
        spec,
    })
}

/// raw printing of an instrument whose exchange / asset keys are printed by `fe` / `fa`
fn raw_toks<E, AK>(
    i: &Instrument<E, AK>,
    fe: impl Fn(&E) -> String,
    fa: impl Fn(&AK) -> String,
) -> String {
    let kind = match &i.kind {
        InstrumentKind::Spot => "s".to_string(),
        InstrumentKind::Perpetual(c) => {
            format!("p {} {}", undec(c.contract_size), fa(&c.settlement_asset))
        }
        InstrumentKind::Future(c) => format!(
            "f {} {} {}",
            undec(c.contract_size),
            fa(&c.settlement_asset),
            untime(c.expiry)
        ),
        InstrumentKind::Option(c) => format!(
            "o {} {} {} {} {} {}",
            undec(c.contract_size),
            fa(&c.settlement_asset),
            match c.kind {
                OptionKind::Call => 0,
                OptionKind::Put => 1,
            },
            match c.exercise {
                OptionExercise::American => 0,
                OptionExercise::Bermudan => 1,
                OptionExercise::European => 2,
            },
            untime(c.expiry),
            undec(c.strike)
        ),
    };
    let spec = match &i.spec {
        None => "n".to_string(),
        Some(s) => format!(
            "y {} {} {} {} {} {}",
            undec(s.price.min),
            undec(s.price.tick_size),
            match &s.quantity.unit {
                OrderQuantityUnits::Asset(a) => format!("a {}", fa(a)),
                OrderQuantityUnits::Contract => "c".into(),
                OrderQuantityUnits::Quote => "q".into(),
            },
            undec(s.quantity.min),
            undec(s.quantity.increment),
            undec(s.notional.min)
        ),
    };
    format!(
        "{} {} {} {} {} {} {kind} {spec}",
        fe(&i.exchange),
        un(i.name_internal.name()),
        un(i.name_exchange.name()),
        fa(&i.underlying.base),
        fa(&i.underlying.quote),
        match i.quote {
            InstrumentQuoteAsset::UnderlyingBase => 0,
            InstrumentQuoteAsset::UnderlyingQuote => 1,
        }
    )
}

fn index(defs: &[D]) -> IndexedInstruments {
    IndexedInstruments::new(defs.iter().map(to_instrument))
}

// ---------------------------------------------------------------------------- ops

/// positional resolution of an indexed instrument through the `IndexedInstruments` accessors
fn resolve(
    ii: &IndexedInstruments,
    i: &Instrument<Keyed<ExchangeIndex, ExchangeId>, AssetIndex>,
) -> Option<D> {
    let ex = ii.exchanges().get(i.exchange.key.0)?;
    if ex.value != i.exchange.value {
        return None;
    }
    let exchange = ex.value;
    undef(
        i,
        |_| EXS.iter().position(|x| *x == exchange),
        |a: &AssetIndex| {
            let x = ii.assets().get(a.0)?;
            (x.value.exchange == exchange).then(|| unasset(&x.value.asset))
        },
    )
}

fn opt_line(prefix: String, d: Option<D>) -> String {
    match d {
        Some(d) => format!("{prefix} {}", def_toks(&d)),
        None => format!("{prefix} none"),
    }
}

fn b(x: bool) -> &'static str {
    if x { "1" } else { "0" }
}

fn op_build(defs: &[D], lines: &mut Vec<String>) {
    let ii = index(defs);
    for x in ii.exchanges() {
        lines.push(format!("ex {} {}", x.key.0, label(x.value)));
    }
    for x in ii.assets() {
        let a = unasset(&x.value.asset);
        lines.push(format!(
            "as {} {} {} {}",
            x.key.0,
            label(x.value.exchange),
            a.0,
            a.1
        ));
    }
    for x in ii.instruments() {
        lines.push(format!(
            "in {} {}",
            x.key.0,
            raw_toks(
                &x.value,
                |e| format!("{} {}", e.key.0, label(e.value)),
                |a| a.0.to_string()
            )
        ));
    }
    let join = |v: Vec<String>| {
        v.into_iter()
            .map(|s| format!(" {s}"))
            .collect::<Vec<_>>()
            .concat()
    };
    lines.push(format!(
        "kE{}",
        join(ii.exchanges().iter().map(|x| x.key.0.to_string()).collect())
    ));
    lines.push(format!(
        "kA{}",
        join(ii.assets().iter().map(|x| x.key.0.to_string()).collect())
    ));
    lines.push(format!(
        "kI{}",
        join(ii.instruments().iter().map(|x| x.key.0.to_string()).collect())
    ));
    let mut se: Vec<usize> = ii
        .exchanges()
        .iter()
        .map(|x| EXS.iter().position(|e| *e == x.value).unwrap())
        .collect();
    se.sort();
    lines.push(format!(
        "setE{}",
        join(se.iter().map(|x| x.to_string()).collect())
    ));
    let mut sa: Vec<(usize, usize, usize)> = ii
        .assets()
        .iter()
        .map(|x| {
            let a = unasset(&x.value.asset);
            (
                EXS.iter().position(|e| *e == x.value.exchange).unwrap(),
                a.0,
                a.1,
            )
        })
        .collect();
    sa.sort();
    lines.push(format!(
        "setA{}",
        join(sa.iter().map(|(e, i, x)| format!("{e}.{i}.{x}")).collect())
    ));
    for (n, d) in defs.iter().enumerate() {
        let r = ii
            .find_instrument_index(EXS[d.e], &ins_ni(d.ni))
            .ok()
            .and_then(|k| ii.instruments().get(k.0))
            .and_then(|x| resolve(&ii, &x.value));
        lines.push(opt_line(format!("res {n}"), r));
    }
    // the exchange half of the same read: the instrument found by name, its exchange reference read
    // back by position through the exchange table (holds for every collection, well-formed or not)
    for (n, d) in defs.iter().enumerate() {
        let r = ii
            .find_instrument_index(EXS[d.e], &ins_ni(d.ni))
            .ok()
            .and_then(|k| ii.instruments().get(k.0))
            .and_then(|x| {
                let ex = ii.exchanges().get(x.value.exchange.key.0)?;
                (ex.value == x.value.exchange.value).then(|| label(ex.value))
            });
        lines.push(match r {
            Some(e) => format!("resx {n} {e}"),
            None => format!("resx {n} none"),
        });
    }
    // find_* round trips
    let rt_e = (0..ii.exchanges().len()).all(|k| {
        ii.find_exchange(ExchangeIndex(k))
            .ok()
            .and_then(|e| ii.find_exchange_index(e).ok())
            == Some(ExchangeIndex(k))
    }) && defs.iter().all(|d| {
        ii.find_exchange_index(EXS[d.e])
            .ok()
            .and_then(|k| ii.find_exchange(k).ok())
            == Some(EXS[d.e])
    });
    let rt_a = (0..ii.assets().len()).all(|k| {
        ii.find_asset(AssetIndex(k))
            .ok()
            .and_then(|a| ii.find_asset_index(a.exchange, &a.asset.name_internal).ok())
            == Some(AssetIndex(k))
    }) && defs.iter().all(|d| {
        def_assets(d).iter().all(|a| {
            ii.find_asset_index(EXS[d.e], &asset_ni(a.0))
                .ok()
                .and_then(|k| ii.find_asset(k).ok())
                .map(|x| x.exchange == EXS[d.e] && unasset(&x.asset) == *a)
                == Some(true)
        })
    });
    let rt_i = (0..ii.instruments().len()).all(|k| {
        ii.find_instrument(InstrumentIndex(k))
            .ok()
            .and_then(|i| {
                ii.find_instrument_index(i.exchange.value, &i.name_internal)
                    .ok()
            })
            == Some(InstrumentIndex(k))
    }) && defs.iter().all(|d| {
        ii.find_instrument_index(EXS[d.e], &ins_ni(d.ni))
            .ok()
            .and_then(|k| ii.find_instrument(k).ok())
            .map(|i| {
                i.exchange.value == EXS[d.e]
                    && i.name_internal == ins_ni(d.ni)
                    && i.name_exchange == ins_ne(d.ne)
            })
            == Some(true)
    });
    lines.push(format!("rt {} {} {}", b(rt_e), b(rt_a), b(rt_i)));
}

/// asset references of a definition in `add_instrument` push order
fn def_assets(d: &D) -> Vec<A> {
    let mut v = vec![d.base.clone(), d.quote.clone()];
    match &d.kind {
        K::S => {}
        K::P(_, a) | K::F(_, a, _) | K::O(_, a, ..) => v.push(a.clone()),
    }
    if let Some((_, _, U::A(a), ..)) = &d.spec {
        v.push(a.clone());
    }
    v
}

fn op_perm(defs: &[D], p: &[usize], lines: &mut Vec<String>) {
    let permuted: Vec<D> = p.iter().map(|i| defs[*i].clone()).collect();
    lines.push(format!("same {}", b(index(defs) == index(&permuted))));
}

fn op_engine(defs: &[D], lines: &mut Vec<String>) {
    let ii = index(defs);
    let state: EngineState<DefaultGlobalData, DefaultInstrumentMarketData> = EngineState::builder(
        &ii,
        DefaultGlobalData::default(),
        DefaultInstrumentMarketData::default,
    )
    .time_engine_start(time(0))
    .build();
    for (k, (name, st)) in state.instruments.0.iter().enumerate() {
        lines.push(format!(
            "ins {k} {} {} {}",
            un(name.name()),
            st.key.0,
            raw_toks(&st.instrument, |e| e.0.to_string(), |a| a.0.to_string())
        ));
    }
    for (k, (key, st)) in state.assets.0.iter().enumerate() {
        let a = unasset(&st.asset);
        lines.push(format!(
            "ast {k} {} {} {} {}",
            label(key.exchange),
            un(key.asset.name()),
            a.0,
            a.1
        ));
    }
    for (k, (e, _)) in state.connectivity.exchanges.iter().enumerate() {
        lines.push(format!("con {k} {}", label(*e)));
    }
    for (n, d) in defs.iter().enumerate() {
        let r = catch_unwind(AssertUnwindSafe(|| {
            let k = ii.find_instrument_index(EXS[d.e], &ins_ni(d.ni)).ok()?;
            // observation points named by the property: positional reads of the three tables
            let st = state.instruments.instrument_index(&k);
            if st.key != k {
                return None;
            }
            let (exchange, _) = state
                .connectivity
                .exchanges
                .get_index(st.instrument.exchange.0)?;
            undef(
                &st.instrument,
                |_| EXS.iter().position(|x| x == exchange),
                |a: &AssetIndex| {
                    let (key, _) = state.assets.0.get_index(a.0)?;
                    let ast = state.assets.asset_index(a);
                    (key.exchange == *exchange && key.asset == ast.asset.name_internal)
                        .then(|| unasset(&ast.asset))
                },
            )
        }))
        .unwrap_or(None);
        lines.push(opt_line(format!("eres {n}"), r));
    }
    // the same read through the accessors the ENGINE routes through (`instrument_index_mut`,
    // `asset_index_mut`, `connectivity_index_mut` and `connectivity_index`): each must hand out the
    // entry at the position the index names. The connectivity accessors return the state without
    // its key, so they are identified by address with the raw positional entry.
    let mut state = state;
    for (n, d) in defs.iter().enumerate() {
        let r = catch_unwind(AssertUnwindSafe(|| {
            let k = ii.find_instrument_index(EXS[d.e], &ins_ni(d.ni)).ok()?;
            let (key, instrument) = {
                let st = state.instruments.instrument_index_mut(&k);
                (st.key, st.instrument.clone())
            };
            if key != k {
                return None;
            }
            let ex_idx = instrument.exchange;
            let via_mut = state.connectivity.connectivity_index_mut(&ex_idx) as *const _;
            let via_ref = state.connectivity.connectivity_index(&ex_idx) as *const _;
            let (exchange, raw) = state.connectivity.exchanges.get_index(ex_idx.0)?;
            if !std::ptr::eq(via_mut, raw) || !std::ptr::eq(via_ref, raw) {
                return None;
            }
            let exchange = *exchange;
            let assets = std::cell::RefCell::new(&mut state.assets);
            undef(
                &instrument,
                |_| EXS.iter().position(|x| *x == exchange),
                |a: &AssetIndex| {
                    let mut assets = assets.borrow_mut();
                    let asset = assets.asset_index_mut(a).asset.clone();
                    let (key, _) = assets.0.get_index(a.0)?;
                    (key.exchange == exchange && key.asset == asset.name_internal).then(|| unasset(&asset))
                },
            )
        }))
        .unwrap_or(None);
        lines.push(opt_line(format!("eresm {n}"), r));
    }
}

/// A live-client stand-in for exchange label `N`: `ExecutionBuilder::add_live` only needs the
/// associated const and a constructor, none of the async methods is ever polled here.
#[derive(Clone)]
struct Stub<const N: usize>;

impl<const N: usize> ExecutionClient for Stub<N> {
    const EXCHANGE: ExchangeId = EXS[N];
    type Config = ();
    type AccountStream = futures::stream::Empty<UnindexedAccountEvent>;

    fn new(_: Self::Config) -> Self {
        Stub
    }
    fn account_snapshot(
        &self,
        _: &[AssetNameExchange],
        _: &[InstrumentNameExchange],
    ) -> impl Future<Output = Result<UnindexedAccountSnapshot, UnindexedClientError>> + Send {
        async { unimplemented!() }
    }
    fn account_stream(
        &self,
        _: &[AssetNameExchange],
        _: &[InstrumentNameExchange],
    ) -> impl Future<Output = Result<Self::AccountStream, UnindexedClientError>> + Send {
        async { unimplemented!() }
    }
    fn cancel_order(
        &self,
        _: OrderRequestCancel<ExchangeId, &InstrumentNameExchange>,
    ) -> impl Future<Output = UnindexedOrderResponseCancel> + Send {
        async { unimplemented!() }
    }
    fn open_order(
        &self,
        _: OrderRequestOpen<ExchangeId, &InstrumentNameExchange>,
    ) -> impl Future<
        Output = Order<ExchangeId, InstrumentNameExchange, Result<Open, UnindexedOrderError>>,
    > + Send {
        async { unimplemented!() }
    }
    fn fetch_balances(
        &self,
    ) -> impl Future<Output = Result<Vec<AssetBalance<AssetNameExchange>>, UnindexedClientError>>
    {
        async { unimplemented!() }
    }
    fn fetch_open_orders(
        &self,
    ) -> impl Future<
        Output = Result<Vec<Order<ExchangeId, InstrumentNameExchange, Open>>, UnindexedClientError>,
    > {
        async { unimplemented!() }
    }
    fn fetch_trades(
        &self,
        _: DateTime<Utc>,
    ) -> impl Future<Output = Result<Vec<Trade<QuoteAsset, InstrumentNameExchange>>, UnindexedClientError>>
    {
        async { unimplemented!() }
    }
}

fn op_exec(defs: &[D], es: &[usize], lines: &mut Vec<String>) {
    let ii = index(defs);
    let mut builder = ExecutionBuilder::new(&ii);
    let timeout = std::time::Duration::from_secs(1);
    for e in es {
        // the mock path supports spot instruments only; use it when it can be used
        let all_spot = defs.iter().filter(|d| d.e == *e).all(|d| d.kind == K::S);
        let res = if all_spot && *e % 2 == 0 {
            builder.add_mock(
                MockExecutionConfig {
                    mocked_exchange: EXS[*e],
                    initial_state: UnindexedAccountSnapshot {
                        exchange: EXS[*e],
                        balances: vec![],
                        instruments: vec![],
                    },
                    latency_ms: 0,
                    fees_percent: Decimal::ZERO,
                },
                HistoricalClock::new(time(0)),
            )
        } else {
            match e {
                0 => builder.add_live::<Stub<0>>((), timeout),
                1 => builder.add_live::<Stub<1>>((), timeout),
                2 => builder.add_live::<Stub<2>>((), timeout),
                3 => builder.add_live::<Stub<3>>((), timeout),
                4 => builder.add_live::<Stub<4>>((), timeout),
                _ => panic!("exchange label out of range"),
            }
        };
        match res {
            Ok(next) => builder = next,
            Err(_) => {
                lines.push("exec err".into());
                return;
            }
        }
    }
    let build = builder.build();
    let map = &build.execution_tx_map;
    let table: Vec<(String, bool)> = map
        .into_iter()
        .enumerate()
        .map(|(k, (e, tx))| {
            // `find` is the engine's routing lookup (positional); it must agree with the slot
            assert_eq!(map.find(&ExchangeIndex(k)).is_ok(), tx.is_some());
            (label(*e), tx.is_some())
        })
        .collect();
    for (k, (e, has)) in table.iter().enumerate() {
        lines.push(format!("tx {k} {e} {}", b(*has)));
    }
    for (n, d) in defs.iter().enumerate() {
        match ii
            .find_exchange_index(EXS[d.e])
            .ok()
            .and_then(|k| table.get(k.0))
        {
            Some((e, has)) => lines.push(format!("txres {n} {e} {}", b(*has))),
            None => lines.push(format!("txres {n} none")),
        }
    }
}

fn run() {
    run_cases(|case, lines| {
        let mut defs: Vec<D> = vec![];
        for op in &case.ops {
            lines.push("@".into());
            let mut block: Vec<String> = vec![];
            let res = catch_unwind(AssertUnwindSafe(|| match op[0].as_str() {
                "def" => {
                    defs.push(parse_def(&op[1..]));
                    block.push(format!("ndefs {}", defs.len()));
                }
                "build" => op_build(&defs, &mut block),
                "perm" => {
                    let p: Vec<usize> = op[1..].iter().map(|s| s.parse().unwrap()).collect();
                    op_perm(&defs, &p, &mut block)
                }
                "engine" => op_engine(&defs, &mut block),
                "exec" => {
                    let es: Vec<usize> = op[1..].iter().map(|s| s.parse().unwrap()).collect();
                    op_exec(&defs, &es, &mut block)
                }
                other => panic!("bad op {other}"),
            }));
            match res {
                Ok(()) => lines.extend(block),
                Err(_) => lines.push("panic".into()),
            }
        }
    });
}

// ---------------------------------------------------------------------------- generator

struct Gen {
    rng: Rng,
    /// all assets of a case obey "internal name determines exchange name within an exchange"
    wf: bool,
    /// (with `wf`) a near-copy on ANOTHER exchange keeps its instrument internal name: names unique
    /// within each exchange but not over the collection - the IndexedInstruments clauses (`res`,
    /// `rt`) hold there, the engine's name-keyed table does not (oracle review C11-M1)
    shared: bool,
    n_ex: usize,
    next_name: usize,
}

impl Gen {
    fn asset(&mut self, e: usize) -> A {
        let ni = self.rng.below(4) as usize;
        if self.wf {
            // same internal name on two exchanges may carry different exchange names
            A(ni, ni + if e % 2 == 1 { 10 } else { 0 })
        } else {
            A(ni, ni + 10 * self.rng.below(2) as usize)
        }
    }
    fn small(&mut self) -> usize {
        *self.rng.pick(&[1usize, 1, 1, 2, 5])
    }
    fn def(&mut self) -> D {
        let e = self.rng.below(self.n_ex as u64) as usize;
        let ni = if self.wf {
            self.next_name += 1;
            self.next_name
        } else {
            self.rng.below(4) as usize
        };
        let ne = self.rng.below(3) as usize;
        let base = self.asset(e);
        let quote = self.asset(e);
        let kind = match self.rng.below(6) {
            0 | 1 | 2 => K::S,
            3 => K::P(self.small(), self.asset(e)),
            4 => K::F(self.small(), self.asset(e), self.rng.below(3) as usize),
            _ => K::O(
                self.small(),
                self.asset(e),
                self.rng.below(2) as usize,
                self.rng.below(3) as usize,
                self.rng.below(3) as usize,
                self.small(),
            ),
        };
        let spec = if self.rng.chance(50) {
            None
        } else {
            let u = match self.rng.below(4) {
                0 | 1 => U::A(self.asset(e)),
                2 => U::C,
                _ => U::Q,
            };
            Some((self.small(), self.small(), u, self.small(), self.small(), self.small()))
        };
        D {
            e,
            ni,
            ne,
            base,
            quote,
            qa: self.rng.below(2) as usize,
            kind,
            spec,
        }
    }
    /// a multiset of definitions: fresh ones, verbatim repeats, and near-copies on another exchange
    fn defs(&mut self, n: usize) -> Vec<D> {
        let mut v: Vec<D> = vec![];
        for _ in 0..n {
            if !v.is_empty() && self.rng.chance(25) {
                let d = self.rng.pick(&v).clone();
                v.push(d);
            } else if !v.is_empty() && self.rng.chance(20) {
                // same shape on another exchange (shared asset names across exchanges)
                let mut d = self.rng.pick(&v).clone();
                d.e = self.rng.below(self.n_ex as u64) as usize;
                if self.wf {
                    self.next_name += 1;
                    if !(self.shared && !v.iter().any(|x| x.e == d.e && x.ni == d.ni)) {
                        d.ni = self.next_name;
                    }
                    let e = d.e;
                    let fix = |a: &mut A| a.1 = a.0 + if e % 2 == 1 { 10 } else { 0 };
                    fix(&mut d.base);
                    fix(&mut d.quote);
                    match &mut d.kind {
                        K::S => {}
                        K::P(_, a) | K::F(_, a, _) | K::O(_, a, ..) => fix(a),
                    }
                    if let Some((_, _, U::A(a), ..)) = &mut d.spec {
                        fix(a);
                    }
                }
                v.push(d);
            } else {
                let d = self.def();
                v.push(d);
            }
        }
        v
    }
}

fn permutations(n: usize) -> Vec<Vec<usize>> {
    fn go(cur: &mut Vec<usize>, used: &mut Vec<bool>, n: usize, out: &mut Vec<Vec<usize>>) {
        if cur.len() == n {
            out.push(cur.clone());
            return;
        }
        for i in 0..n {
            if !used[i] {
                used[i] = true;
                cur.push(i);
                go(cur, used, n, out);
                cur.pop();
                used[i] = false;
            }
        }
    }
    let mut out = vec![];
    go(&mut vec![], &mut vec![false; n], n, &mut out);
    out
}

fn emit_case(out: &mut Out, g: &mut Gen, id: String, n: usize, all_perms: bool) {
    out.case(id);
    let defs = g.defs(n);
    for d in &defs {
        out.line(format!("def {}", def_toks(d)));
    }
    out.line("build");
    let join = |p: &[usize]| p.iter().map(|x| x.to_string()).collect::<Vec<_>>().join(" ");
    if all_perms {
        for p in permutations(n) {
            out.line(format!("perm {}", join(&p)).trim_end());
        }
    } else {
        for _ in 0..3 {
            // random shuffle; sometimes with an element repeated (same set, other multiplicities)
            let mut p: Vec<usize> = (0..n).collect();
            for i in (1..n).rev() {
                let j = g.rng.below(i as u64 + 1) as usize;
                p.swap(i, j);
            }
            if n > 0 && g.rng.chance(30) {
                let extra = g.rng.below(n as u64) as usize;
                let at = g.rng.below(p.len() as u64 + 1) as usize;
                p.insert(at, extra);
            }
            out.line(format!("perm {}", join(&p)).trim_end());
        }
    }
    out.line("engine");
    // executions: a random subset of the indexed exchanges in random order; sometimes an unknown
    // exchange or a duplicate (both are refused by the builder)
    let mut known: Vec<usize> = defs.iter().map(|d| d.e).collect();
    known.sort();
    known.dedup();
    for _ in 0..2 {
        let mut es: Vec<usize> = known.iter().copied().filter(|_| g.rng.chance(60)).collect();
        for i in (1..es.len()).rev() {
            let j = g.rng.below(i as u64 + 1) as usize;
            es.swap(i, j);
        }
        if g.rng.chance(10) {
            es.push(g.rng.below(EXS.len() as u64) as usize);
        }
        out.line(format!("exec {}", join(&es)).trim_end());
    }
}

fn generate(seed: u64, n_cases: usize, tier: &str) {
    let mut out = Out::new();
    let mut rng = Rng::new(seed);
    let mut id = 0usize;
    if tier == "thorough" {
        // every insertion order of collections of up to 5 definitions
        for size in 0..=5usize {
            for _ in 0..(if size <= 3 { 6 } else { 4 }) {
                id += 1;
                let mut g = Gen {
                    rng: rng.fork(),
                    wf: id % 5 != 0,
                    shared: id % 4 == 1,
                    n_ex: 1 + (id % 3),
                    next_name: 0,
                };
                emit_case(&mut out, &mut g, format!("x{id}"), size, true);
            }
        }
    }
    for _ in 0..n_cases {
        id += 1;
        let mut g = Gen {
            rng: rng.fork(),
            wf: !rng.chance(12),
            shared: id % 6 == 1,
            n_ex: rng.range(1, 4) as usize,
            next_name: 0,
        };
        let n = rng.range(0, 8) as usize;
        emit_case(&mut out, &mut g, format!("r{id}"), n, false);
    }
    out.flush();
}

fn main() {
    let mut sorted = EXS;
    sorted.sort();
    assert_eq!(sorted, EXS, "EXS must ascend in ExchangeId's derived order");
    let a = args();
    match a.cmd.as_str() {
        "gen" => generate(a.seed, a.n, &a.tier),
        "run" => run(),
        _ => {
            eprintln!("usage: c11 gen <seed> <n> <tier> | run < cases");
            std::process::exit(2)
        }
    }
}
