#!/bin/sh
# MANIFEST.setup_cmd: build the Lean project (models, lemmas, property theorems, drivers) and the
# Rust harness against /repo, offline, from files on disk only.
set -e
cd "$(dirname "$0")"
export CARGO_NET_OFFLINE=true
[ -f harness/Cargo.lock ] || cp /repo/Cargo.lock harness/Cargo.lock
(cd lean && lake build BarterModel $(grep -o 'name = "drv_c[0-9]*"' lakefile.toml | sed 's/name = "\(.*\)"/\1/' | while read d; do n=$(echo $d | sed 's/drv_c//'); [ -f BarterModel/Driver/C$n.lean ] && echo $d; done))
(cd harness && cargo build --offline --bins)
echo setup-ok
