#!/bin/sh
# MANIFEST.setup_cmd: build the Lean project (models, lemmas, property theorems, drivers) and the
# Rust harness against /repo for every claimed property (claimed.txt), offline, from files on disk.
set -e
cd "$(dirname "$0")"
export CARGO_NET_OFFLINE=true
# environment guard (DESIGN 13.13): /dev/null has been found replaced by a regular file on this machine; cargo's
# `rustc -` probe then reads stray text. Restore the device if possible; the builds below read an empty pipe anyway.
if [ ! -c /dev/null ]; then
  rm -f /dev/null && mknod -m 666 /dev/null c 1 3 && echo "[env] /dev/null restored as the character device 1:3" || true
fi
[ -f harness/Cargo.lock ] || cp /repo/Cargo.lock harness/Cargo.lock
LEAN_TARGETS=""
CARGO_BINS=""
for id in $(cat claimed.txt) $(grep -v "^#" subchecks.txt 2>/dev/null | cut -d" " -f2-); do
  n=$(echo "$id" | sed 's/^C//' | tr 'A-Z' 'a-z')
  LEAN_TARGETS="$LEAN_TARGETS BarterModel.Props.$id drv_c$n"
  CARGO_BINS="$CARGO_BINS --bin c$n"
done
(cd lean && : | lake build $LEAN_TARGETS)
# a stale / half-written incremental cache (e.g. a sandbox copy taken mid-build) can make the link fail:
# retry once without the incremental cache, then from a clean target
(cd harness && : | cargo build --offline $CARGO_BINS) || \
  (cd harness && rm -rf target/debug/incremental target/.rustc_info.json && : | cargo build --offline $CARGO_BINS) || \
  (cd harness && cargo clean && : | cargo build --offline $CARGO_BINS)
echo setup-ok
