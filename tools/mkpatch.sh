#!/bin/bash
# tools/mkpatch.sh <out.patch> <file-in-repo> <python-replace-old> <python-replace-new>
# Creates a patch against /repo HEAD replacing the (unique) occurrence of OLD by NEW in FILE.
set -e
out=$1; f=$2; old=$3; new=$4
tmp=$(mktemp -d)
git -C /repo show HEAD:$f > $tmp/a
python3 - "$tmp/a" "$tmp/b" "$old" "$new" <<'PY'
import sys
a=open(sys.argv[1]).read()
old,new=sys.argv[3],sys.argv[4]
assert a.count(old)==1, f"occurrences: {a.count(old)}"
open(sys.argv[2],'w').write(a.replace(old,new))
PY
(cd $tmp && diff -u a b | sed "1s|.*|--- a/$f|; 2s|.*|+++ b/$f|") > $out || true
rm -rf $tmp
echo "wrote $out"
