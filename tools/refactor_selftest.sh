#!/bin/bash
# tools/refactor_selftest.sh [names...]   Runs every HARMLESS (behaviour-preserving) refactoring of the Rust code
# recorded under refactors/<ID><x>.patch (+ .meta.json: the edits and why they preserve behaviour) through
# tools/mutant.sh (scratch copy of /repo, never /repo itself) against the check of its property -- the id is the
# first three characters of the file name -- and prints one line per patch:
#   pass                     every proof obligation discharged, correspondence and oracle clean   (what is wanted)
#   no-failing-input-found   an obligation (usually the translator tie: a rejected construct or an agreement proof
#                            that no longer closes) broke although no input distinguishes code and model: a false
#                            alarm of the tolerated kind; the line names the first failed obligation / rejection
#   VIOLATION-with-replay    a concrete alarm on code where the property holds: must never happen
# Exit status 0 iff every patch gave `pass`.
cd "$(dirname "$0")/.."
export VMUT_DIR=${VMUT_DIR:-/tmp/vmut_refactor}
bad=0
for p in refactors/*.patch; do
  name=$(basename "$p" .patch); prop=${name:0:3}
  [ $# -gt 0 ] && ! echo "$@" | grep -qw "$name" && continue
  out=$(tools/mutant.sh "$PWD/$p" "$prop" 2>&1)
  obl=$(echo "$out" | grep -o "^\[$prop\] proof obligations: [0-9]*/[0-9]*" | head -1 | sed 's/.*: //')
  why=""
  if echo "$out" | grep -q "patch failed"; then got="PATCH-DOES-NOT-APPLY"
  elif echo "$out" | grep "^VIOLATION property=" | grep -qv "no-failing-input-found"; then got="VIOLATION-with-replay"
  elif echo "$out" | grep -q "^VIOLATION property=.*no-failing-input-found"; then
    got="no-failing-input-found"
    why=$(echo "$out" | grep -o "REJECTED [^|]*\|error: BarterModel[^|]*" | head -1 | cut -c1-200)
  elif echo "$out" | grep -q "^\[$prop\] FAILED"; then got="FAILED-without-violation-line"
  elif echo "$out" | grep -q "^\[$prop\] OK" && [ -n "$obl" ] && [ "${obl%/*}" = "${obl#*/}" ]; then got="pass"
  else got="NO-RESULT"; fi
  [ "$got" = pass ] || bad=$((bad+1))
  printf "%-8s %-4s obligations=%-8s %-24s %s\n" "$name" "$prop" "${obl:-?}" "$got" "$why"
done
tools/mutant.sh --clean 2>/dev/null
[ $bad -eq 0 ]
