#!/bin/bash
# tools/mutant.sh <patch-file|-R:commit> <ID> [<ID>...]
# Runs ./check <ID> against a scratch copy of /repo with the patch applied, WITHOUT touching /repo:
#   /tmp/vmut/repo   git worktree of /repo HEAD (+ patch)        (removed afterwards)
#   /tmp/vmut/verif  copy of /verif (sources + lean build output) whose harness points at /tmp/vmut/repo
#   /tmp/vmut/target cargo target dir (kept between runs for incremental builds; remove with `tools/mutant.sh --clean`)
# Prints the check output; exit status 0 iff every listed check reported a VIOLATION (= mutant caught).
set -u
M=${VMUT_DIR:-/tmp/vmut}
SRC=${VERIF_SRC:-/verif}   # a snapshot of /verif may be given so that concurrent edits in /verif do not disturb a long run
if [ "${1:-}" = "--clean" ]; then git -C /repo worktree remove --force $M/repo 2>/dev/null; rm -rf $M; exit 0; fi
PATCH=$1; shift
mkdir -p $M
git -C /repo worktree remove --force $M/repo 2>/dev/null; rm -rf $M/repo $M/verif
git -C /repo worktree add -q --detach $M/repo HEAD || exit 2
case "$PATCH" in
  -R:*) c=${PATCH#-R:}; git -C /repo diff $c $c~1 | git -C $M/repo apply || { echo "patch failed"; exit 2; } ;;
  *) git -C $M/repo apply "$PATCH" || { echo "patch failed"; exit 2; } ;;
esac
rsync -a --exclude harness/target --exclude .git --exclude replays --exclude evidence $SRC/ $M/verif/
sed -i "s|/repo/|$M/repo/|g" $M/verif/harness/Cargo.toml
cp /repo/Cargo.lock $M/verif/harness/Cargo.lock
caught=0; total=0
for id in "$@"; do
  total=$((total+1))
  out=$(cd $M/verif && CARGO_TARGET_DIR=$M/target VERIF_REPO=$M/repo ./check $id --tier ${TIER:-quick} 2>&1)
  # status lines of the check and its sub-checks (KNOWN-FINDING lines shortened), then EVERY VIOLATION line: callers
  # classify the run by the VIOLATION lines, so none of them may fall victim to a line limit
  echo "$out" | grep -E "^\[|^KNOWN" | cut -c1-400 | head -40
  echo "$out" | grep -E "^VIOLATION"
  # a sub-check run under its parent reports under the PARENT id, run directly under its own id: accept both
  if echo "$out" | grep -qE "^VIOLATION property=($id|${id:0:3}) "; then caught=$((caught+1)); for r in $(echo "$out" | grep -o "replay=[^ ]*" | head -2); do echo "--- ${r#replay=}"; head -12 "${r#replay=}"; done; fi
done
git -C /repo worktree remove --force $M/repo 2>/dev/null; rm -rf $M/repo $M/verif
echo "mutant: caught by $caught of $total checks"
[ $caught -eq $total ]
