import json,sys,subprocess
pid=sys.argv[1]
base=subprocess.run(["python3","/verif/tools/seeding/seed_prompt.py",pid,"b"],capture_output=True,text=True).stdout
m=json.load(open(f"/verif/seeded/{pid}a/meta.json"))
extra=f"""
IMPORTANT - ALREADY TAKEN: another engineer has already seeded this bug for the same property: "{m['summary']}" (it needs: {m['needs']}). Your change must be a DIFFERENT one: a different function / mechanism / clause of the property, and a different triggering situation. Prefer a clause of the property statement that the taken bug does not touch (re-read the statement: it has several clauses), and prefer subtle state-dependent or order-dependent triggers over input-shape triggers."""
print(base.replace("DELIVERABLES, in", extra+"\n\nDELIVERABLES, in"))
