import json,sys
pid=sys.argv[1]; variant=sys.argv[2] if len(sys.argv)>2 else "a"
props={json.loads(l)["id"]:json.loads(l) for l in open('/verif/properties.jsonl')}
p=props[pid]
d=f"/tmp/seed/{pid}{variant}"
print(f"""You are helping to evaluate a verification effort by SEEDING A REALISTIC BUG. You work ONLY inside your own scratch git worktree of a Rust repository (barter-rs, an event-driven algorithmic trading engine): {d}/repo . Do not read or touch anything outside {d} (in particular nothing under /verif and nothing under /repo itself).

The property that your change must break:
  {pid} — {p['title']}
  Statement: {p['statement']}
  Quantifier (what it ranges over): {p['quantifier']['text']}
  Code it is anchored in: {', '.join(p['anchors']['files'])}
  Mechanisms: {'; '.join(m.get('name','')+' @ '+m.get('where','') for m in p['anchors']['mechanism'])}

YOUR TASK: make ONE small change to the library source code in {d}/repo (not to tests, not to Cargo files) such that
  (1) the workspace still compiles and the EXISTING test suite still passes unchanged:
        cd {d}/repo && CARGO_TARGET_DIR={d}/target CARGO_PROFILE_DEV_DEBUG=0 CARGO_PROFILE_TEST_DEBUG=0 CARGO_NET_OFFLINE=true cargo nextest run --workspace --no-fail-fast --offline
      (139 tests; one clock test `test_historical_clock_time_delta_calculation` is known to be flaky - ignore it. There is no network: always pass --offline. ALWAYS set CARGO_TARGET_DIR={d}/target and the two *_DEBUG=0 variables, otherwise linking fails / disk fills up.)
  (2) the property above is violated by the changed code, and
  (3) the violation needs something SPECIFIC to manifest - a particular interleaving or ordering of events, a fault at a particular point, a multi-step sequence of operations, an unusual-but-legal input, a particular configuration (e.g. several exchanges), or two cooperating sites that each look fine alone. NOT a change that any ordinary use would expose at once, and not a change to log messages/comments. Think of the kind of bug a plausible refactoring, optimisation or off-by-one would introduce (a flipped comparison at a boundary, a dropped branch, state updated in the wrong order, a guard on the wrong field, an early return that skips bookkeeping, ...).
Then write a DEMONSTRATION: a new Rust integration test file (e.g. {d}/repo/barter/tests/seed_{pid.lower()}{variant}.rs, or under the crate the code lives in: barter-data/tests, barter-execution/tests, barter-instrument/tests, barter-integration/tests) that FAILS with your change and PASSES without it (check both. NEVER use `git stash`: the stash is shared between all worktrees of this repository and other engineers work in parallel. Instead: `git diff -- <your source files> > {d}/p.diff && git apply -R {d}/p.diff`, run the demo test, then `git apply {d}/p.diff`). The demo should exercise the public API the way a user would and state in a comment what it shows. Use only crates that are already dependencies (no network).

DELIVERABLES, in {d}/out/ (create the directory):
  patch.diff   `git diff` of the library source change ONLY (no test files)
  demo.diff    `git diff`/new-file diff that adds ONLY your demonstration test file(s) (use `git add -N <file>` then `git diff -- <file>` so that new files appear)
  meta.json    {{"property": "{pid}", "summary": "<one line: what was changed>", "needs": "<what specific situation it needs in order to manifest>", "demo_cmd": "<the exact cargo test command, run from the repo root, that runs only your demo test, including the env vars above>", "suite": "<result line of the full-suite run with the change applied>"}}
Keep the worktree as it is at the end (do not remove it). Your final message: the summary, the needs, and the two test results (suite with change; demo with and without change).""")
