import json,sys
pid=sys.argv[1]; variant=sys.argv[2] if len(sys.argv)>2 else "a"
props={json.loads(l)["id"]:json.loads(l) for l in open('/verif/properties.jsonl')}
p=props[pid]
d=f"/tmp/refac/{pid}{variant}"
print(f"""You are helping to evaluate a verification effort by making a HARMLESS, BEHAVIOUR-PRESERVING change - the kind of refactoring, clean-up or micro-optimisation a maintainer would merge. You work ONLY inside your own scratch git worktree of a Rust repository (barter-rs, an event-driven algorithmic trading engine): {d}/repo . Do not read or touch anything outside {d} (in particular nothing under /verif and nothing under /repo itself).

The property whose code you refactor (it must STILL HOLD after your change, for every input):
  {pid} — {p['title']}
  Statement: {p['statement']}
  Quantifier (what it ranges over): {p['quantifier']['text']}
  Code it is anchored in: {', '.join(p['anchors']['files'])}
  Mechanisms: {'; '.join(m.get('name','')+' @ '+m.get('where','') for m in p['anchors']['mechanism'])}

YOUR TASK: make a realistic refactoring of the library source code that implements the mechanisms above (not tests, not Cargo files), touching the core logic - NOT only comments, log messages or formatting. Aim for 3 to 6 independent edits of different kinds in the anchored functions, for example: rename locals / private helpers; extract a private helper function or inline one; replace an `if/else` chain by a `match` (or the reverse) with the same decision table; reorder independent statements; reorder match arms whose patterns are disjoint; swap the operands of a commutative operator or turn `a <= b` into `b >= a`; replace `x.is_none()` by a `match`; introduce an early return that is equivalent to the nested form; replace a manual loop by an iterator chain with the same order of effects (or the reverse); change a private container's construction without changing what it holds or any order that is observable; hoist a repeated expression into a `let`. Every edit must preserve the observable behaviour EXACTLY: same results, same errors, same order of effects on channels and state, for every input including edge cases (ties, empty inputs, duplicates, overflow behaviour). If you are not certain an edit is behaviour-preserving, do not make it.
  (1) the workspace must still compile and the EXISTING test suite must still pass unchanged:
        cd {d}/repo && CARGO_TARGET_DIR={d}/target CARGO_PROFILE_DEV_DEBUG=0 CARGO_PROFILE_TEST_DEBUG=0 CARGO_NET_OFFLINE=true cargo nextest run --workspace --no-fail-fast --offline
      (139 tests; one clock test `test_historical_clock_time_delta_calculation` is known to be flaky - ignore it. There is no network: always pass --offline. ALWAYS set CARGO_TARGET_DIR={d}/target and the two *_DEBUG=0 variables, otherwise linking fails / disk fills up.)
  (2) NEVER use `git stash` (the stash is shared between all worktrees of this repository and other engineers work in parallel).

DELIVERABLES, in {d}/out/ (create the directory):
  patch.diff   `git diff` of the library source change
  meta.json    {{"property": "{pid}", "summary": "<one line per edit: what was changed and why it preserves behaviour>", "suite": "<result line of the full-suite run with the change applied>"}}
Keep the worktree as it is at the end (do not remove it). Your final message: the list of edits with the argument why each preserves behaviour, and the suite result.""")
