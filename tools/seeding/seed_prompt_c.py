import json,sys,subprocess,glob,os
pid=sys.argv[1]; variant=sys.argv[2]
base=subprocess.run(["python3","/verif/tools/seeding/seed_prompt.py",pid,variant],capture_output=True,text=True).stdout
taken=[]
for d in sorted(glob.glob(f"/verif/seeded/{pid}?")):
    m=json.load(open(os.path.join(d,"meta.json")))
    taken.append(f'- "{m["summary"]}" (needs: {m["needs"]})')
extra="\nIMPORTANT - ALREADY TAKEN: other engineers have already seeded these bugs for the same property:\n"+"\n".join(taken)+"\nYour change must be DIFFERENT from all of them: a different function / mechanism / clause of the property, and a different triggering situation. Re-read the property statement (it has several clauses) and the anchored files, and look for a clause or a code path none of the taken bugs touches. Prefer subtle state-dependent, order-dependent or configuration-dependent triggers."
print(base.replace("DELIVERABLES, in", extra+"\n\nDELIVERABLES, in"))
