#!/usr/bin/env python3
"""tools/coverage.py [--tier quick|thorough] [--n N] [ids...]

Blind-spot finder for the correspondence tie (NOT a check, NOT registered in MANIFEST.json): builds the
harness with `-C instrument-coverage` on the nightly toolchain into a scratch target dir, replays the
committed corpus and the seeded generator of each id's harness binary exactly as `./check` does, and
reports, for the source files a property is anchored in (props/<id>.py SOURCE_FILES), which regions of the
real code the cases never executed. An unexecuted region of an anchored function is a place where a
behaviour-changing edit cannot be seen by the correspondence; the report is what decides where a generator
needs strengthening (DESIGN 13.7).

Output: coverage/<id>.txt (per file: line coverage and the uncovered line ranges outside #[cfg(test)]).
Scratch: /tmp/verif_cov (removed with --clean).
"""
import importlib.util
import json
import os
import re
import shutil
import subprocess
import sys

ROOT = os.path.dirname(os.path.dirname(os.path.abspath(__file__)))
REPO = os.environ.get("VERIF_REPO", "/repo")
HARNESS = os.path.join(ROOT, "harness")
SCR = "/tmp/verif_cov"
TOOLS = os.path.expanduser("~/.rustup/toolchains/nightly-x86_64-unknown-linux-gnu/lib/rustlib/x86_64-unknown-linux-gnu/bin")


def sh(cmd, **kw):
    return subprocess.run(cmd, stdout=subprocess.PIPE, stderr=subprocess.PIPE, text=True, **kw)


def load_cfg(pid):
    spec = importlib.util.spec_from_file_location("p", os.path.join(ROOT, "props", pid + ".py"))
    m = importlib.util.module_from_spec(spec)
    spec.loader.exec_module(m)
    return {k: getattr(m, k) for k in dir(m) if k.isupper()}


def corpus_text(pid):
    d = os.path.join(ROOT, "corpus", pid)
    out = []
    if os.path.isdir(d):
        for f in sorted(os.listdir(d)):
            out.append(open(os.path.join(d, f)).read())
    return "\n".join(out)


def test_mod_start(path):
    """first line of a trailing `#[cfg(test)]` module (lines from there on are not production code)"""
    try:
        lines = open(path).read().split("\n")
    except OSError:
        return 10 ** 9
    for i, l in enumerate(lines):
        if l.strip().startswith("#[cfg(test)]") and i + 1 < len(lines) and "mod " in lines[i + 1]:
            return i + 1
    return 10 ** 9


def main():
    args = sys.argv[1:]
    if "--clean" in args:
        shutil.rmtree(SCR, ignore_errors=True)
        return 0
    tier = "quick"
    n_over = None
    if "--tier" in args:
        i = args.index("--tier"); tier = args[i + 1]; del args[i:i + 2]
    if "--n" in args:
        i = args.index("--n"); n_over = int(args[i + 1]); del args[i:i + 2]
    ids = [a.upper() for a in args] or [l.strip() for l in open(os.path.join(ROOT, "claimed.txt")) if l.strip()]
    os.makedirs(SCR, exist_ok=True)
    # LLVM_PROFILE_FILE: build scripts and proc macros are instrumented too and would otherwise drop
    # default_*.profraw files into the package directories under /repo
    env = dict(os.environ, RUSTFLAGS="--cfg barter_rs_verif -C instrument-coverage", CARGO_TARGET_DIR=SCR + "/target",
               LLVM_PROFILE_FILE=SCR + "/build-%p-%m.profraw")
    bins = ["--bin=c" + i[1:].lower() for i in ids]
    r = sh(["cargo", "+nightly", "build", "--offline"] + bins, cwd=HARNESS, env=env)
    if r.returncode != 0:
        print(r.stderr[-3000:]); return 2
    os.makedirs(os.path.join(ROOT, "coverage"), exist_ok=True)
    for pid in ids:
        cfg = load_cfg(pid)
        n = n_over or (cfg.get("N", {}).get(tier) if isinstance(cfg.get("N"), dict) else None) or 300
        b = os.path.join(SCR, "target", "debug", "c" + pid[1:].lower())
        raw = os.path.join(SCR, pid + "-%p.profraw")
        for f in os.listdir(SCR):
            if f.startswith(pid + "-") and f.endswith(".profraw"):
                os.remove(os.path.join(SCR, f))
        e = dict(os.environ, LLVM_PROFILE_FILE=raw)
        g = sh([b, "gen", "1", str(n), tier], env=e)
        text = corpus_text(pid) + "\n" + g.stdout
        subprocess.run([b, "run"], input=text, stdout=subprocess.DEVNULL, stderr=subprocess.DEVNULL, text=True, env=e)
        raws = [os.path.join(SCR, f) for f in os.listdir(SCR) if f.startswith(pid + "-") and f.endswith(".profraw")]
        prof = os.path.join(SCR, pid + ".profdata")
        sh([TOOLS + "/llvm-profdata", "merge", "-sparse", "-o", prof] + raws)
        files = [os.path.join(REPO, f) for f in cfg.get("SOURCE_FILES", []) if f.endswith(".rs")]
        files = [f for f in files if os.path.exists(f)]
        rep = []
        for f in files:
            r = sh([TOOLS + "/llvm-cov", "export", "-format=lcov", "-instr-profile", prof, b, "-sources", f])
            cut = test_mod_start(f)
            hit, miss = set(), set()
            for l in r.stdout.split("\n"):
                if l.startswith("DA:"):
                    ln, c = l[3:].split(",")[:2]
                    ln = int(ln)
                    if ln >= cut:
                        continue
                    # generic code is reported once per instantiation: a line is covered if any copy ran
                    if int(c) > 0:
                        hit.add(ln)
                    else:
                        miss.add(ln)
            miss -= hit
            tot = len(hit) + len(miss)
            ranges = []
            for ln in sorted(miss):
                if ranges and ln == ranges[-1][1] + 1:
                    ranges[-1][1] = ln
                else:
                    ranges.append([ln, ln])
            rel = os.path.relpath(f, REPO)
            rep.append(f"{rel}: {len(hit)}/{tot} instrumented production lines executed")
            src = open(f).read().split("\n")
            for a, z in ranges:
                first = src[a - 1].strip()[:100] if a - 1 < len(src) else ""
                rep.append(f"   not executed {a}-{z}: {first}")
        open(os.path.join(ROOT, "coverage", pid + ".txt"), "w").write(
            f"# {pid} tier={tier} n={n}: corpus + generated cases of harness bin c{pid[1:].lower()}\n" + "\n".join(rep) + "\n")
        print(f"{pid}: " + "; ".join(x.split(" instrumented")[0] for x in rep if not x.startswith("   ")))
    return 0


if __name__ == "__main__":
    sys.exit(main())
