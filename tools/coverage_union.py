#!/usr/bin/env python3
"""tools/coverage_union.py : which production lines of the whole workspace do the harnesses of ALL checks and
sub-checks (quick tier: corpus + generator) execute, taken together?  Needs the instrumented build of
tools/coverage.py (/tmp/verif_cov/target). Writes coverage/UNION.txt: per source file executed/instrumented lines,
sorted by the number of lines never executed."""
import os, subprocess, sys, re, glob
ROOT = os.path.dirname(os.path.dirname(os.path.abspath(__file__)))
sys.path.insert(0, os.path.join(ROOT, "tools"))
import coverage as cov
SCR = cov.SCR
ids = [l.strip() for l in open(os.path.join(ROOT, "claimed.txt")) if l.strip()]
for l in open(os.path.join(ROOT, "subchecks.txt")):
    if l.strip() and not l.startswith("#"):
        ids += l.split()[1:]
profs = []
for pid in ids:
    b = os.path.join(SCR, "target", "debug", "c" + pid[1:].lower())
    if not os.path.exists(b):
        print("no instrumented bin for", pid); continue
    cfg = cov.load_cfg(pid)
    n = (cfg.get("N", {}).get("quick") if isinstance(cfg.get("N"), dict) else None) or 300
    for f in glob.glob(os.path.join(SCR, pid + "-*.profraw")):
        os.remove(f)
    e = dict(os.environ, LLVM_PROFILE_FILE=os.path.join(SCR, pid + "-%p.profraw"))
    g = subprocess.run([b, "gen", "1", str(n), "quick"], stdout=subprocess.PIPE, stderr=subprocess.DEVNULL, text=True, env=e)
    text = cov.corpus_text(pid) + "\n" + g.stdout
    subprocess.run([b, "run"], input=text, stdout=subprocess.DEVNULL, stderr=subprocess.DEVNULL, text=True, env=e)
    raws = glob.glob(os.path.join(SCR, pid + "-*.profraw"))
    prof = os.path.join(SCR, pid + ".profdata")
    subprocess.run([cov.TOOLS + "/llvm-profdata", "merge", "-sparse", "-o", prof] + raws)
    profs.append((pid, b, prof))
hit, miss = {}, {}
for pid, b, prof in profs:
    r = subprocess.run([cov.TOOLS + "/llvm-cov", "export", "-format=lcov", "-instr-profile", prof, b,
                        "-ignore-filename-regex", r"(\.cargo|rustc|/verif/)"], stdout=subprocess.PIPE, stderr=subprocess.DEVNULL, text=True)
    cur = None
    for l in r.stdout.split("\n"):
        if l.startswith("SF:"):
            cur = l[3:]
        elif l.startswith("DA:") and cur and cur.startswith(cov.REPO):
            ln, c = l[3:].split(",")[:2]
            (hit if int(c) > 0 else miss).setdefault(cur, set()).add(int(ln))
rows = []
for f in sorted(set(hit) | set(miss)):
    cut = cov.test_mod_start(f)
    h = {x for x in hit.get(f, set()) if x < cut}
    m = {x for x in miss.get(f, set()) if x < cut} - h
    if h or m:
        rows.append((len(m), len(h), os.path.relpath(f, cov.REPO)))
rows.sort(reverse=True)
th = sum(r[1] for r in rows); tm = sum(r[0] for r in rows)
out = [f"# union over {len(profs)} harness binaries (quick tier): {th}/{th+tm} instrumented production lines of the",
       "# workspace code REACHABLE from the harnesses executed (files no harness links are absent)", ""]
out += [f"{h:5d}/{h+m:5d}  {f}" for m, h, f in rows]
open(os.path.join(ROOT, "coverage", "UNION.txt"), "w").write("\n".join(out) + "\n")
print(out[0]); print("\n".join(out[3:40]))
