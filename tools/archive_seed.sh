#!/bin/bash
# tools/archive_seed.sh <seed-dir> <result: caught|missed> <note...>
# copies an independently seeded, confirmed change into /verif/seeded/<id>/ and removes the scratch worktree
S=$1; ID=$(basename $S); RES=$2; shift 2; NOTE="$*"
D=/verif/seeded/$ID; mkdir -p $D
cp $S/out/patch.diff $S/out/demo.diff $D/
python3 - "$S/out/meta.json" "$D/meta.json" "$RES" "$NOTE" <<'PY'
import json,sys
m=json.load(open(sys.argv[1]))
m["confirmed_by_main"]="tools/confirm_seed.sh in a fresh scratch worktree of /repo HEAD: demo passes without the change; with the change the existing suite passes (139) and the demo fails"
m["checked_with"]="tools/mutant.sh <patch.diff> "+m["property"]+" (check run against a scratch copy of /repo with the patch applied)"
m["result"]=sys.argv[3]
m["result_note"]=sys.argv[4]
json.dump(m,open(sys.argv[2],"w"),indent=1)
PY
git -C /repo worktree remove --force $S/repo 2>/dev/null; rm -rf $S
echo archived $ID
