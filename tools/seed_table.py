#!/usr/bin/env python3
"""Prints the markdown table of independently seeded changes from seeded/*/meta.json (for DESIGN.md §13.5)."""
import json, glob, os
ROOT = os.path.dirname(os.path.dirname(os.path.abspath(__file__)))
print("| change | property | summary | what it needs to manifest | result |")
print("|---|---|---|---|---|")
for d in sorted(glob.glob(os.path.join(ROOT, "seeded", "*"))):
    m = json.load(open(os.path.join(d, "meta.json")))
    def cut(s, n):
        s = " ".join(str(s).split()).replace("|", "/")
        return s if len(s) <= n else s[: n - 1] + "…"
    print(f"| seeded/{os.path.basename(d)} | {m['property']} | {cut(m['summary'], 150)} | {cut(m['needs'], 150)} | {m.get('result','?')}: {cut(m.get('result_note',''), 170)} |")
