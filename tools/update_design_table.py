#!/usr/bin/env python3
"""Rewrites the seeded-changes table of DESIGN.md §13.5 (between the SEED-TABLE markers) from seeded/*/meta.json."""
import os, subprocess
ROOT = os.path.dirname(os.path.dirname(os.path.abspath(__file__)))
p = os.path.join(ROOT, "DESIGN.md")
s = open(p).read()
b = s.index("<!-- SEED-TABLE-BEGIN")
b = s.index("\n", b) + 1
e = s.index("<!-- SEED-TABLE-END -->")
table = subprocess.run(["python3", os.path.join(ROOT, "tools", "seed_table.py")], capture_output=True, text=True).stdout
open(p, "w").write(s[:b] + table + s[e:])
print("updated", table.count("\n") - 2, "rows")
