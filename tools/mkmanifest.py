#!/usr/bin/env python3
"""Regenerates MANIFEST.json from props/<id>.py (CLAIM, LEVEL_TEXT, LEVEL_NOTE, TECHNIQUE, DESIGN_REF)."""
import json, os, importlib.util
ROOT = os.path.dirname(os.path.dirname(os.path.abspath(__file__)))
ids = [json.loads(l)["id"] for l in open(os.path.join(ROOT, "properties.jsonl"))]
m = json.load(open(os.path.join(ROOT, "MANIFEST.json")))
checks, na = [], []
# only properties listed in claimed.txt (maintained by hand, after their quick check passes) are claimed
allowed = set(open(os.path.join(ROOT, "claimed.txt")).read().split())
for pid in ids:
    p = os.path.join(ROOT, "props", pid + ".py")
    cfg = {}
    if os.path.exists(p):
        spec = importlib.util.spec_from_file_location("p" + pid, p)
        mod = importlib.util.module_from_spec(spec)
        spec.loader.exec_module(mod)
        cfg = {k: getattr(mod, k) for k in dir(mod) if not k.startswith("_")}
    if cfg.get("CLAIM") and pid in allowed:
        checks.append({
            "property_id": pid,
            "quick_cmd": f"./check {pid} --tier quick",
            "thorough_cmd": f"./check {pid} --tier thorough",
            "evidence_file": f"/verif/evidence/{pid}.json",
            "replay_cmd_template": f"./check {pid} --replay {{path}}",
            "engine": "lean-proof+correspondence",
            "level_claimed": {"category": "proof", "text": cfg["LEVEL_TEXT"], "design_ref": cfg.get("DESIGN_REF", "DESIGN.md §7 " + pid)},
            "level_note": cfg["LEVEL_NOTE"],
            "technique": cfg.get("TECHNIQUE", "Lean 4 theorems (induction/invariant/refinement) over a hand-written executable model + differential correspondence with the Rust code"),
        })
    else:
        na.append({"property_id": pid, "reason": cfg.get("NA_REASON", "not claimed yet: the Lean model/theorems/correspondence for this property are not built yet (planned, DESIGN.md §11); the technique applies")})
m["checks"] = checks
m["not_applicable"] = na
m["engines"][0]["serves_properties"] = [c["property_id"] for c in checks]
json.dump(m, open(os.path.join(ROOT, "MANIFEST.json"), "w"), indent=1)
print("claimed:", [c["property_id"] for c in checks])
