#!/usr/bin/env python3
"""tools/rust2lean_sm.py -- regenerate Lean definitions of small STATE MACHINES ("stateful decision kernels")
from the CURRENT Rust source.  Companion of tools/rust2lean.py (whose lexer / source access it imports).

    python3 tools/rust2lean_sm.py [--require GROUP[,GROUP...]] [--stdout] [--list]

Reads the items listed in MACHINES *by name* from the files under $VERIF_REPO (default /repo) and writes
<verif>/lean/BarterModel/Generated/Machines.lean (groups GROUPS), Machines2.lean (groups GROUPS2; it imports the
first and continues its namespace BarterModel.Generated.Machines), Machines3.lean (groups GROUPS3: state machines
over MAP containers, see "Map vocabulary" below; it imports the second) and Machines4.lean (groups GROUPS4: code that
walks containers with ITERATOR chains, generic traits, sort / dedup, `for` loops: see "Iterator vocabulary" below; it
imports the third); core Lean only; each file is rewritten only when its content changes.  Everything added for the
fourth file is gated on the group of the item being translated, so that the first three files stay byte-identical.  The agreement theorems of lean/BarterModel/Lemmas/KernelsAgree/{Sequencer,Drawdown,
PositionSM,Connectivity}.lean (first file) and {DataSetSM,..}.lean (second file) state that the generated step
functions equal the hand-written model definitions for ALL states and arguments, so a change of such a method in
the Rust source breaks a proof obligation.  An item may belong to several groups (`a+b`); it is written to the
file of the first.

LOOKUP of functions that are not in the item table.  When a translated function calls a function or method that is
neither listed in MACHINES nor part of the fixed vocabulary, it is searched in the SOURCE: an unqualified `f(..)` in
the caller's `mod`, then at the top level of the caller's file; `x.m(..)` / `Type::m(..)` / `Self::m(..)` in every
`impl` block (inherent or trait) of that translated type in the caller's file, then in the file that declares the
type; `m::f(..)` in `mod m` of the caller's file.  Found exactly once it is translated on demand -- transitively --
as an AUXILIARY item of the caller's group(s): its file, line and source hash go into the header of the generated
file, its definition is emitted before its first caller.  It is rejected (and with it the caller) only if it cannot
be found, is found more than once, or falls outside the accepted subset.  This makes the tie indifferent to the
most common harmless refactoring, the extraction of a private helper.

SIMP SETS.  Every generated definition (listed functions, auxiliary items, instances of generic functions, derived
`Default` / `Constructor` items) carries the attribute `gen_<group>` of each group of the table item it was
generated for (registered in lean/BarterModel/Generated/Attr.lean); an auxiliary definition / instance that a later
group uses as well joins that group's set (`attribute [gen_<group>] name`).  Agreement proofs unfold "everything
generated for this group" with `simp only [gen_<group>, ..]` and never name an auxiliary definition.

Translation scheme
  fn f(&mut self, a: A) -> R   |->  def S.f (self : S) (a : A) : S x R      (state passing; R = () gives S)
  fn f(&self, a: A) -> R       |->  def S.f (self : S) (a : A) : R
  fn f(self, a: A) -> R        |->  def S.f (self : S) (a : A) : R          (`mut self`: self is a mutable local)
  fn f(a: A) -> R  (in impl S) |->  def S.f (a : A) : R                     (also `impl Trait for S`, e.g. From / Default)
  u64 -> Nat (overflow NOT modelled; `-` `/` `%` on u64 are rejected), i64 -> Int (`/` is Int.tdiv), Decimal -> Rat,
  DateTime<Utc> / TimeDelta -> Int (milliseconds), bool -> Bool (conditions are decidable propositions),
  Option<T> -> Option T, Result<T, E> -> Except E T, () -> Unit, (A, B) -> A x B, Vec<T> -> List T, &T -> T (shared
  references are values); type parameters of structs / impls stay parameters (with DecidableEq); generic free
  fns `fn f<T>(..)` are instantiated at the type of each call's arguments (Decimal / i64 / u64).

Accepted Rust subset (delta to tools/rust2lean.py, which covers straight-line Decimal expressions):
  items   `struct S<T = D, ..> { f: Ty, .. }` with fields of any accepted type, tuple structs `struct S(Ty);` (field
          `f0`), unit structs `struct S;`, `struct` restricted to its u64 fields (option fields_of_type: the other
          fields are dropped and recorded; reading them is rejected), `enum` with unit / tuple / struct variants,
          `enum` restricted to named variants (option variants), identifier newtypes declared `opaque` (-> Nat:
          only stored, cloned, compared), `fn` in `mod x` / `impl<..> S<..>` / `impl<..> Trait<..> for S<..>` with
          `&self`, `&mut self`, `self`, `mut self`, no receiver; parameters `x: Ty`, `x: &Ty`, `mut x: Ty`;
          `derive_default` / `derive_new`: the `#[derive(.. Default ..)]` / `#[derive(.. Constructor ..)]` attribute of
          a translated struct, read from the source (-> `S.default`, every field at its type's default / `S.new`,
          the fields in declaration order); `extern`: a free fn that is NOT translated -- only its signature is
          read and every definition that calls it (transitively) takes it as an explicit leading parameter;
          methods with their own type parameters `fn m<K>(&mut self, ..)` (kept as parameters); `enum` with option
          `rest` (the untranslated variants become the one constructor `Other_`); `opaque` with option `item: enum`;
          `Self::Name` resolved through `type Name = ..;` of the same trait impl; `f64` as the uninterpreted `F64`;
          `trait` (non-generic): the record of its `&self` methods with translatable signatures; a method call on a
          value of a type parameter is a field of the explicit parameter `T_Trait : Trait T`
  stmts   `let x (: Ty)? = e;`  `let (a, b) = e;`  `let Some(x) = e else { ..; return ..; };`  `self.f = e;`
          `self.f.g = e;` `self.f += e;` (also -= *= /=), assignment to a `let mut` local, `return e;`, `e?;`,
          `if c { .. }` / `if c { .. } else { .. }` / `if let Some(x) = e { .. } (else { .. })?` / `match` /
          `{ .. }` in statement position with field assignment, early return and `?` inside (the code after such
          a statement is inlined into every branch that falls through), calls of `&mut self` methods of
          translated structs on an assignable place as a whole statement / initialiser / tail (`self.m(a);`
          `let x = self.m(a);` `self.m(a)?;`), `place.take()` as a whole initialiser or `match` scrutinee,
          `place.push(e);`, `let mut v = Vec::new() / Vec::with_capacity(n);` directly followed by `v.push(e);`,
          `use Enum::*;`, tracing macros `error!/warn!/info!/debug!/trace!(..);` (skipped: they only log),
          `let Some(x) = &mut <place> else { ..diverges.. };` (x = the payload, every change of x is written back to
          the place at once), `place.replace(e);` on an Option place
  exprs   everything of rust2lean.py plus: integer literals, u64/i64 arithmetic and comparisons, `true`/`false`,
          `Ok(e)` `Err(e)` `Some(e)` `None`, `()`, tuples; `E::V { f: e, .. }` / `E::V(e)` / `S { f: e, .. }` / `S(e)`
          / `S`; postfix `?` on Option and on Result (same error type; only as a whole initialiser / statement /
          tail); `b.then_some(e)`, `.clone()`, `.is_some()`, `.is_none()`, `.abs()`, `.is_zero()`,
          `.is_sign_negative()` (`< 0`), `opt.expect("..")` / `opt.unwrap()` (the `None` arm is `Rust.unreachable`),
          `opt.as_ref()`, `opt.map(|x| e)`, `opt.is_none_or(|x| c)`, `opt.is_some_and(|x| c)` (closures ONLY there, one
          plain parameter), `opt.or(e)`, `opt.unwrap_or(e)`, `Decimal::from_f64(x)` (built-in extern parameter),
          `.checked_mul(e)` / `.checked_add(e)` / `.checked_sub(e)` (never `None`: overflow is not modelled),
          `a <= b` / `<` / `>` / `>=` on values of a type parameter `T` (explicit parameter `T_ord : Rust.PartialOrd T`),
          `?` below the top of an expression in an always-evaluated position (taken out in evaluation order),
          `Decimal::from(<i64>)`, `d.num_seconds()`, `TimeDelta::{days,hours,minutes,seconds,milliseconds}(n)`,
          `a.max(b)` on TimeDelta, `x.sqrt()` on Decimal (built-in extern parameter `decimal_sqrt`), `a.cmp(&b)` on
          Decimal with `std::cmp::Ordering`, `Utc::now()` (the explicit parameter `utc_now`, at most one reading per
          function), `t.add(d)` on DateTime, `.abs()` on i64, `Arc<T>` / `RwLock<T>` as `T` with `Arc::new(e)`,
          `RwLock::new(e)`, `x.read()`, `let mut g = <place>.write();` (write-back alias), `drop(local);`, a binder arm
          `x if c =>` in a guarded `match`, `matches!(e, p | q if g)` (by definition `match e { p | q if g => true, _ =>
          false }`), a `match` on an Option whose arms combine `Some(<irrefutable>)` / `None` / `_` / or-patterns of these
          with guards that may use the binders (`Some(x) if c => .., Some(_) | None => ..`): a decision on the constructor
          first, the arms' guards in source order second, each chain ending in an unguarded arm; the same with the
          scrutinee `&mut <place>` (statement position), where the binder of `Some(x)` is a mutable alias of the payload
          (every change written back at once, as for `let Some(x) = &mut <place> else ..`); a generic fn without
          receiver whose type parameters are only stored / copied / compared keeps them as parameters (the instantiation
          at Decimal / i64 / u64 is the fallback for bodies that do arithmetic on `T`),
          `.checked_div(e)`, `t.signed_duration_since(u)`, `d.num_milliseconds()`, `Decimal::from(<u64>)`,
          `<u64> as i64`, `&e`, `*e`, `x.0`, `==` / `!=` on type-parameter and opaque values, calls of `&self` /
          by-value methods and associated fns of translated structs, calls of translated free fns;
          `match` on bool / Option (`Some(p)`, `None`) / translated enum (every variant once) with patterns
          binder, `_`, `S { f, g: p, .. }`, `S(p)`, `(p, q)`; and the ORDERED form of `match` -- tuple scrutinee,
          or-patterns `p | q`, guards `if c`, binder-free patterns, last arm an unguarded `_` -- which becomes an
          if-chain; the ordered form WITHOUT guards but with binders / constructor patterns (`(Some(a), Some(b)) =>`,
          `E::V(x) =>`, `_ =>`) becomes a Lean `match` with the alternatives in source order;
          `unreachable!(..)` / `panic!(..)` become the opaque `Rust.unreachable` (an agreement theorem
          then only holds if the site is dead code).
Map vocabulary (third file; the fixed MEANING of every operation is PRELUDE3, proved to be a finite map in
Lemmas/KernelsAgree/MapVocab.lean; everything about maps that is not listed here is rejected by name)
  types   `HashMap<K, V>` / `FnvHashMap<K, V>` -> `Rust.Map K V` (association list read through `get`), `IndexMap<K, V>` /
          `FnvIndexMap<K, V>` -> `Rust.IndexMap K V` (pairs addressed by position and by key), `impl Iterator<Item = &T>`
          as a return type -> `Rust.Bag T` (what `values()` yields: no meaningful order)
  pure    `m.get(k)` `m.contains_key(k)` `m.len()` `m.is_empty()` `m.get_index(i)` (IndexMap), `m.values().all(p)` /
          `.any(p)` with `p` a closure `|x| c` or a method path `Type::method` (`values()` alone only to be consumed
          by `all` / `any` or returned), `HashMap::default()` / `new()`, `m.entry(k)` with the patterns
          `Entry::Occupied(e)` / `Entry::Vacant(e)` (the entry's TYPE records the map place it borrows, so the handle
          may travel through tuples, `let` and `match`), `e.get()` `e.get_mut()` (read) `e.key()`
  writes  (a whole statement / initialiser / `if let` / `match` scrutinee, on a map that is a field path of `&mut self`
          or of a mutable local) `m.insert(k, v)` (returns the old value) `m.remove(k)`, `e.remove()` `e.insert(v)` on
          an occupied entry, `e.insert(v)` on a vacant entry (its `&mut V` must be discarded),
          `e.get_mut().f = x;` on an occupied entry, `for x in m.values_mut() { x.f = e; .. }` (body: assignments to
          fields of `x` from values that do not mention the variable the map lives in)
  `&mut`-RETURNING ACCESSORS -- `m.get_mut(k)`, `m.get_index_mut(i).map(|(_k, v)| v)`, these followed by
          `.expect("..")` / `.unwrap()` / `.unwrap_or_else(|| panic!(..))`, and a USER fn `acc(&mut self, ..) -> &mut T`
          / `-> Option<&mut T>` of a translated non-generic struct whose body is ONE such expression over a field
          path of `self` (it is found by lookup and read in place at its calls, the arguments substituted; its
          source hash is in the header) -- are accepted ONLY where the returned reference is bound or written
          through at once:
            (a) `let Some(x) = <acc> else { ..diverges.. };`   (b) `if let Some(x) = <acc> { .. } else { .. }`
            (c) `let x = <acc unwrapped>;`                      (d) `<acc unwrapped>.f.g = e;` (= (c) + `x.f.g = e;`)
          `x` is then a mutable local holding the current value, and EVERY assignment to (a field of) `x`, every
          `&mut self` method call / `take()` / `push(..)` on it and every call that passes it as a `&mut` argument is
          followed at once by the write-back into the map (`Rust.Map.insert m k x` / `Rust.IndexMap.set m k x` /
          `set_index m i x`).  For code the borrow checker accepts this is the meaning of the borrow: while `x` is
          alive nothing else can read or write the map, afterwards `x` is never read again.  A second `&mut` borrow of
          the same place while the first is in scope is rejected; the panic of an unwrapped accessor on a missing key
          is `Rust.unreachable` for the WHOLE function (its result type must be inhabited).  Any other use of such an
          accessor (as a call argument, stored in a struct, returned, `.map(..)`ped further, ...) is rejected.
  also    (needed by the functions over maps, documented in PRELUDE3) generic enums, type aliases (kind `alias`),
          `self` methods on enums, `let <refutable pattern> = e else {..}` / `if let <pattern>` on any enum / `Result` /
          entry, `let p = match .. { arms that return early / change state };`, `match` with guards over patterns that
          take values apart, nested or-patterns, `x => ..` as the catch-all arm, `Ok(p)` / `Err(p)` patterns,
          `o.filter(|x| c)` `o.unwrap_or_else(|| e)` `o.cloned()` `o.ok_or(e)` `o.ok_or_else(|| e)`, `place.take()` at
          the head of a method chain, `String` + `format!` (the list of the formatted values), `assert!` /
          `assert_eq!`, `x.into()` (identity / the one `#[from]` variant / `T: Into<U>` as an explicit parameter),
          `fn f(x: &mut T, ..) -> R` (ONE `&mut` parameter: state passing, `f` returns `T x R`; a call passes a field
          path of a mutable variable and is a whole statement / initialiser / tail / scrutinee), `u64 / <literal>`,
          `t.checked_add_signed(d)`, `v.iter().filter(|x| c)` on a `Vec` (order kept), `n.to_smolstr()`, constructors
          of opaque identifier types from such text, structs with option `keep` / `drop` (fields outside the
          vocabulary left out), `for` ONLY over `values_mut()`.
Iterator vocabulary (fourth file; the fixed MEANING of every operation is PRELUDE4 -- which documents each item below in
full --, proved to be what it should be in Lemmas/KernelsAgree/IterVocab.lean; only for items of the groups GROUPS4)
  iterators  an iterator is the LIST of the items it will yield: `iter()` / `into_iter()` on `Vec` / slice `&[T]` / `Option`,
          `iter()` / `keys()` / `values()` on an `IndexMap` (insertion order), `impl Iterator<Item = T>` / `impl IntoIterator<Item
          = T>` / `I: IntoIterator<Item = T>` as types; adaptors `map` `filter` `filter_map` `find` `find_map` `position` `any` `all`
          `flat_map` `flatten` `chain` `enumerate` `zip` `cloned` / `copied` `count` `fold` `partition_result`; `collect()` into
          `Vec` / `IndexMap` (insert in order, value replaced in place) / `HashMap` (`Rust.Map`) / `NoneOneOrMany`, the target
          from the context, `collect::<Vec<_>>()` or a LATER use (`pending`); `len` `is_empty` `contains` `first` `last` `get(i)`
          on a `Vec`.  `HashMap::iter()` / `keys()` stay rejected; `values()` of a `HashMap` is a `Rust.Bag`, which stays one
          under `map` / `filter` / `filter_map` (and `flat_map` yielding one) and is rejected wherever an ORDERED iterator is
          required; a fn declared `-> impl Iterator` that returns one returns a `Rust.Bag`
  closures  `|x| e` `|(a, b)| e` `|x: &T| e` `|a, b| e` `|| e` `move |..|`, body an expression or a block with early exits
          (`let x = e?;` `return None`): a PURE function value -- compiled as a pure expression it can neither assign nor call a
          state-changing method --; also a path naming a one-argument fn / method / variant; parameters of type `impl Fn(&A) ->
          R` / `F: Fn(&A) -> R` are function values, `f(a)` applies them
  loops   `for x in <ordered iterator> { body }`: a left fold over the mutable variables the body mentions (no `return` / `?`
          inside); `while` / `loop` / `break` / `continue` stay rejected
  sorting `v.sort()` = stable `List.mergeSort` by an EXPLICIT ordering parameter `Ord_<type>` (`#[derive(Ord)]` is not
          translated); `v.dedup()` = `Rust.Vec.dedup`
  traits  generic traits, associated types (further type parameters of the record), `&mut self` methods (state passing),
          methods with type parameters and `From` / `Into` bounds (polymorphic fields taking the conversion); in a fn `T:
          Trait<A, Name = Ty>` of its `where` clause or of the enclosing impl's, inline bounds `<T: Bound>`, default type
          arguments of structs / enums / traits, `T::Name` projections (bound type or a further type parameter `T_Name`, which
          has the bounds the trait declares for it), `T::from(x)` / `Type::from(x)` with a `From` bound = explicit conversion
          parameter handed on by callers that have the same bound; lifetimes are skipped
  also    u64 `-` (panic on underflow), `==` on fully translated structs deriving `PartialEq`, `?` converting the error through
          ONE `#[from]` variant, `?` / state-changing calls below the top of an expression or in a `match` scrutinee taken out
          in evaluation order, `Result::{map, map_err, ok, expect, unwrap}`, `Ok(())` patterns, `Variant(x)` / `None` patterns
          of an enum in scope through `use Enum::*;`, type aliases as struct literal names, `itertools::Either` (transparent),
          `std::iter::{empty, once}`, barter-integration's `OneOrMany` / `NoneOneOrMany` as fixed vocabulary, item options `as`
          (a struct translated again in full under another name) and kind `abstract` (an untranslated type as a type parameter)
Round 7 (constructs met in harmless refactorings; each accepts source that was rejected before, so the generated files
of the unchanged tree stay byte-identical; all groups)
  `std::mem::replace(&mut <place>, e)` (also `mem::replace`, `core::mem::replace`) as a whole initialiser / statement / tail /
          scrutinee, the place a field path of a mutable variable: MEANING `let new = e; let old = <place>; <place> = new;`
          with value `old` (rustc rejects an `e` that reads the mutably borrowed place, so the order of the two readings is
          not observable); the write-back rules of `&mut` aliases apply as for `place.replace(e)`
  a GENERIC helper with ONE `&mut` parameter, `fn f<T: Bound>(x: &mut C<T>, ..) -> R` (no receiver): state passing like the
          non-generic case; the type parameters are what the `&mut` place and the other arguments determine (all of them must
          be determined); an ordering parameter `Ord_T` that a `sort()` inside the helper takes (`T: Ord` is NOT translated,
          see `sorting`) is instantiated at each call with the caller's ordering parameter `Ord_<the type T stands for>`:
          `T: Ord` resolves to the `Ord` impl of the actual type, as in Rust
  an ORDERED `match` (tuple scrutinee / or-patterns / guards, binder-free patterns) WITHOUT a final `_` arm whose last arm is
          unguarded: accepted when the UNGUARDED arms cover every value of the scrutinee's type -- decided by the usefulness
          check (Maranget) on fully translated enums / bool / Option / tuples of these; guarded arms do not count, as in rustc.
          MEANING: the same if-chain, the last arm's test dropped (a value that reaches it matches no earlier unguarded arm,
          hence, by coverage, the last one).  `(Buy, Buy) | (Sell, Sell) => a, (Buy, Sell) | (Sell, Buy) => b` is `if .. then
          a else b`
  `match a.cmp(&b) { Ordering::Less => .., Ordering::Equal => .., Ordering::Greater => .. }` on `Decimal` (arms in any order): a
          Lean `match` on `Decimal.cmp a b` (PRELUDE: `Less` iff `a < b`, `Equal` iff `a = b`, `Greater` otherwise;
          trichotomy law `Lemmas/KernelsAgree/PositionSM.lean :: decimal_cmp_spec`)
  `let Self { a, b, .. } = self;` / `let S { a, b, .. } = &x.f;`: an irrefutable struct pattern (`Self` = the struct of the impl);
          binders of a pattern on a reference are the field values (`&T` is `T`, `*a` is `a`)
  a closure with a block body that is not a plain `let x = e; .. e` sequence (a pattern `let`, early exits) where the context
          does not say its result type (`find_map(|x| { let S { a, b } = &x.v; if c { Some(k) } else { None } })`): the result
          type is what the returned values say (all must agree); rejected if they leave it open
Everything else is REJECTED: exit status 1 and a message naming the function and the construct (loops,
closures, iterators, `&mut` borrows and `&mut`-returning accessors, indexing, string / float literals, other
macros, other methods, maps, trait objects, lifetimes, `..` struct update, `as` casts other than u64 -> i64,
`-` `/` `%` on u64, refutable nested patterns, guards with binders, ...).  It never guesses.  An item of a
group that is not `--require`d is then left out of the generated file (its agreement theorem stops
building) and the exit status stays 0; without `--require` every group is required.

Trusted meaning of the fixed vocabulary = the PRELUDE below and the table in the docstring above.
"""
import hashlib
import os
import re
import sys

sys.path.insert(0, os.path.dirname(os.path.abspath(__file__)))
from rust2lean import Reject, blank_comments, match_brace, depth_at, tokenize, LEAN_RESERVED, DEC_CONSTS  # noqa: E402

VERIF = os.path.dirname(os.path.dirname(os.path.abspath(__file__)))
REPO = os.environ.get("VERIF_REPO", "/repo")
OUT = os.path.join(VERIF, "lean", "BarterModel", "Generated", "Machines.lean")
OUT2 = os.path.join(VERIF, "lean", "BarterModel", "Generated", "Machines2.lean")
OUT3 = os.path.join(VERIF, "lean", "BarterModel", "Generated", "Machines3.lean")
OUT4 = os.path.join(VERIF, "lean", "BarterModel", "Generated", "Machines4.lean")

SPOT = "barter-data/src/exchange/binance/spot/l2.rs"
FUT = "barter-data/src/exchange/binance/futures/l2.rs"
DD = "barter/src/statistic/metric/drawdown/mod.rs"
DDMAX = "barter/src/statistic/metric/drawdown/max.rs"
DDMEAN = "barter/src/statistic/metric/drawdown/mean.rs"
PSN = "barter/src/engine/state/position.rs"
TRADE = "barter-execution/src/trade.rs"
CONN = "barter/src/engine/state/connectivity/mod.rs"
ALGO = "barter/src/statistic/algorithm.rs"
DSET = "barter/src/statistic/summary/dataset/mod.rs"
DISP = "barter/src/statistic/summary/dataset/dispersion.rs"
PNL = "barter/src/statistic/summary/pnl.rs"
INSTR = "barter/src/statistic/summary/instrument.rs"
BAL = "barter-execution/src/balance.rs"
SNAP = "barter-integration/src/snapshot.rs"
SUMASSET = "barter/src/statistic/summary/asset.rs"
ASTATE = "barter/src/engine/state/asset/mod.rs"
IDATA = "barter/src/engine/state/instrument/data.rs"
BOOKS = "barter-data/src/books/mod.rs"
BOOKSUB = "barter-data/src/subscription/book.rs"
MEVENT = "barter-data/src/event.rs"
RISK = "barter/src/risk/mod.rs"
RCHECK = "barter/src/risk/check/mod.rs"
RUTIL = "barter/src/risk/check/util.rs"
CLOCK = "barter/src/engine/clock.rs"
STIME = "barter/src/statistic/time.rs"
SHARPE = "barter/src/statistic/metric/sharpe.rs"
SORTINO = "barter/src/statistic/metric/sortino.rs"
CALMAR = "barter/src/statistic/metric/calmar.rs"
ROR = "barter/src/statistic/metric/rate_of_return.rs"
ORD = "barter/src/engine/state/order/mod.rs"
OMOD = "barter-execution/src/order/mod.rs"
OSTATE = "barter-execution/src/order/state.rs"
OREQ = "barter-execution/src/order/request.rs"
OID = "barter-execution/src/order/id.rs"
XERR = "barter-execution/src/error.rs"
EXCH = "barter-instrument/src/exchange.rs"
ANAME = "barter-instrument/src/asset/name.rs"
INAME = "barter-instrument/src/instrument/name.rs"
MOCK = "barter-execution/src/exchange/mock/mod.rs"
MACC = "barter-execution/src/exchange/mock/account.rs"
ENG = "barter/src/engine/mod.rs"
AUD = "barter/src/engine/audit/mod.rs"
ACTX = "barter/src/engine/audit/context.rs"
REPL = "barter/src/engine/audit/state_replica.rs"
ILIB = "barter-instrument/src/lib.rs"
IASSET = "barter-instrument/src/asset/mod.rs"
IINSTR = "barter-instrument/src/instrument/mod.rs"
ISPEC = "barter-instrument/src/instrument/spec.rs"
IIDX = "barter-instrument/src/index/mod.rs"
IBUILD = "barter-instrument/src/index/builder.rs"
EMAP = "barter-execution/src/map.rs"
EIDX = "barter-execution/src/indexer.rs"
FILT = "barter/src/engine/state/instrument/filter.rs"
ISTATE = "barter/src/engine/state/instrument/mod.rs"
CLOSE = "barter/src/strategy/close_positions.rs"
SENDR = "barter/src/engine/action/send_requests.rs"

# (group, file, container, kind, name, options)     container: None = file top level, "mod x" or "impl X"
MACHINES = [
    ("sequencer", "barter-data/src/error.rs", None, "enum", "DataError", {"variants": ["InvalidSequence"]}),
    ("sequencer", SPOT, None, "struct", "BinanceSpotOrderBookL2Update", {"fields_of_type": "u64"}),
    ("sequencer", SPOT, None, "struct", "BinanceSpotOrderBookL2Sequencer", {}),
    ("sequencer", SPOT, "impl BinanceSpotOrderBookL2Sequencer", "fn", "new", {}),
    ("sequencer", SPOT, "impl BinanceSpotOrderBookL2Sequencer", "fn", "is_first_update", {}),
    ("sequencer", SPOT, "impl BinanceSpotOrderBookL2Sequencer", "fn", "validate_first_update", {}),
    ("sequencer", SPOT, "impl BinanceSpotOrderBookL2Sequencer", "fn", "validate_next_update", {}),
    ("sequencer", SPOT, "impl BinanceSpotOrderBookL2Sequencer", "fn", "validate_sequence", {}),
    ("sequencer", FUT, None, "struct", "BinanceFuturesOrderBookL2Update", {"fields_of_type": "u64"}),
    ("sequencer", FUT, None, "struct", "BinanceFuturesUsdOrderBookL2Sequencer", {}),
    ("sequencer", FUT, "impl BinanceFuturesUsdOrderBookL2Sequencer", "fn", "new", {}),
    ("sequencer", FUT, "impl BinanceFuturesUsdOrderBookL2Sequencer", "fn", "is_first_update", {}),
    ("sequencer", FUT, "impl BinanceFuturesUsdOrderBookL2Sequencer", "fn", "validate_first_update", {}),
    ("sequencer", FUT, "impl BinanceFuturesUsdOrderBookL2Sequencer", "fn", "validate_next_update", {}),
    ("sequencer", FUT, "impl BinanceFuturesUsdOrderBookL2Sequencer", "fn", "validate_sequence", {}),
    ("drawdown", "barter/src/lib.rs", None, "struct", "Timed", {}),
    ("drawdown", DD, None, "struct", "Drawdown", {}),
    ("drawdown", DD, "impl Drawdown", "fn", "duration", {}),
    ("drawdown", DD, None, "struct", "DrawdownGenerator", {}),
    ("drawdown", DD, "impl DrawdownGenerator", "fn", "init", {}),
    ("drawdown", DD, "impl DrawdownGenerator", "fn", "generate", {}),
    ("drawdown", DD, "impl DrawdownGenerator", "fn", "update", {}),
    ("drawdown", DDMAX, None, "struct", "MaxDrawdown", {}),
    ("drawdown", DDMAX, None, "struct", "MaxDrawdownGenerator", {}),
    ("drawdown", DDMAX, "impl MaxDrawdownGenerator", "fn", "init", {}),
    ("drawdown", DDMAX, "impl MaxDrawdownGenerator", "fn", "update", {}),
    ("drawdown", DDMAX, "impl MaxDrawdownGenerator", "fn", "generate", {}),
    ("drawdown+dataset", ALGO, "mod welford_online", "fn", "calculate_mean", {}),
    ("drawdown", DDMEAN, None, "struct", "MeanDrawdown", {}),
    ("drawdown", DDMEAN, None, "struct", "MeanDrawdownGenerator", {}),
    ("drawdown", DDMEAN, "impl MeanDrawdownGenerator", "fn", "init", {}),
    ("drawdown", DDMEAN, "impl MeanDrawdownGenerator", "fn", "update", {}),
    ("drawdown", DDMEAN, "impl MeanDrawdownGenerator", "fn", "generate", {}),
    ("position_sm+orders", "barter-instrument/src/lib.rs", None, "enum", "Side", {}),
    ("position_sm", "barter-instrument/src/asset/mod.rs", None, "struct", "QuoteAsset", {}),
    ("position_sm", TRADE, None, "opaque", "TradeId", {}),
    ("position_sm+orders", "barter-execution/src/order/id.rs", None, "opaque", "OrderId", {}),
    ("position_sm+orders", "barter-execution/src/order/id.rs", None, "opaque", "StrategyId", {}),
    ("position_sm", TRADE, None, "struct", "AssetFees", {}),
    ("position_sm", TRADE, "impl Default for AssetFees<QuoteAsset>", "fn", "default", {}),
    ("position_sm", TRADE, None, "struct", "Trade", {}),
    ("position_sm", PSN, None, "fn", "calculate_price_entry_average", {}),
    ("position_sm", PSN, None, "fn", "approximate_remaining_exit_fees", {}),
    ("position_sm", PSN, None, "fn", "calculate_pnl_unrealised", {}),
    ("position_sm", PSN, None, "fn", "calculate_pnl_realised", {}),
    ("position_sm", PSN, None, "struct", "Position", {}),
    ("position_sm", PSN, None, "struct", "PositionExited", {}),
    ("position_sm", PSN, "impl From for Position", "fn", "from", {}),
    ("position_sm", PSN, "impl From for PositionExited", "fn", "from", {}),
    ("position_sm", PSN, "impl Position", "fn", "update_price_entry_average", {}),
    ("position_sm", PSN, "impl Position", "fn", "update_pnl_unrealised", {}),
    ("position_sm", PSN, "impl Position", "fn", "update_pnl_realised", {}),
    ("position_sm", PSN, "impl Position", "fn", "update_from_trade", {}),
    ("position_sm", PSN, None, "struct", "PositionManager", {}),
    ("position_sm", PSN, "impl PositionManager", "fn", "update_from_trade", {}),
    ("connectivity", CONN, None, "enum", "Health", {}),
    ("connectivity", CONN, "impl Default for Health", "fn", "default", {}),
    ("connectivity", CONN, None, "struct", "ConnectivityState", {}),
    ("connectivity", CONN, "impl ConnectivityState", "fn", "all_healthy", {}),
    # ---- second generated file (Machines2.lean) from here on
    ("dataset", ALGO, None, "extern", "sqrt", {}),
    ("dataset", ALGO, "mod welford_online", "fn", "calculate_recurrence_relation_m", {}),
    ("dataset", ALGO, "mod welford_online", "fn", "calculate_population_variance", {}),
    ("dataset", DISP, None, "struct", "Range", {}),
    ("dataset", DISP, None, "derive_default", "Range", {}),
    ("dataset", DISP, "impl Range", "fn", "init", {}),
    ("dataset", DISP, "impl Range", "fn", "update", {}),
    ("dataset", DISP, "impl Range", "fn", "range", {}),
    ("dataset", DISP, None, "struct", "Dispersion", {}),
    ("dataset", DISP, None, "derive_default", "Dispersion", {}),
    ("dataset", DISP, "impl Dispersion", "fn", "update", {}),
    ("dataset", DSET, None, "struct", "DataSetSummary", {}),
    ("dataset", DSET, None, "derive_default", "DataSetSummary", {}),
    ("dataset", DSET, "impl DataSetSummary", "fn", "update", {}),
    ("pnl_returns", PSN, None, "fn", "calculate_pnl_return", {}),
    ("pnl_returns", PNL, None, "struct", "PnLReturns", {}),
    ("pnl_returns", PNL, None, "derive_default", "PnLReturns", {}),
    ("pnl_returns", PNL, "impl PnLReturns", "fn", "update", {}),
    ("pnl_returns", "barter/src/lib.rs", None, "derive_new", "Timed", {}),
    ("pnl_returns", DD, None, "derive_default", "DrawdownGenerator", {}),
    ("pnl_returns", DDMEAN, None, "derive_default", "MeanDrawdownGenerator", {}),
    ("pnl_returns", DDMAX, None, "derive_default", "MaxDrawdownGenerator", {}),
    ("pnl_returns", INSTR, None, "struct", "TearSheetGenerator", {}),
    ("pnl_returns", INSTR, "impl TearSheetGenerator", "fn", "init", {}),
    ("pnl_returns", INSTR, "impl TearSheetGenerator", "fn", "update_from_position", {}),
    ("registers+mock", BAL, None, "struct", "Balance", {}),
    ("registers+mock", BAL, None, "struct", "AssetBalance", {}),
    ("registers+orders", SNAP, None, "struct", "Snapshot", {}),
    ("registers", SNAP, "impl Snapshot", "fn", "value", {}),
    ("registers", SUMASSET, None, "struct", "TearSheetAssetGenerator", {}),
    ("registers", SUMASSET, None, "derive_default", "TearSheetAssetGenerator", {}),
    ("registers", SUMASSET, "impl TearSheetAssetGenerator", "fn", "update_from_balance", {}),
    ("registers", "barter-instrument/src/asset/mod.rs", None, "opaque", "Asset", {}),
    ("registers", ASTATE, None, "struct", "AssetState", {}),
    ("registers", ASTATE, "impl AssetState", "fn", "update_from_balance", {}),
    ("registers", BOOKS, None, "struct", "Level", {}),
    ("registers", BOOKS, None, "fn", "volume_weighted_mid_price", {}),
    ("registers", BOOKSUB, None, "struct", "OrderBookL1", {}),
    ("registers", BOOKSUB, None, "derive_default", "OrderBookL1", {}),
    ("registers", BOOKSUB, "impl OrderBookL1", "fn", "volume_weighed_mid_price", {}),
    ("registers", "barter-data/src/subscription/trade.rs", None, "struct", "PublicTrade", {"fields_of_type": "f64"}),
    ("registers", MEVENT, None, "enum", "DataKind", {"variants": ["Trade", "OrderBookL1"], "rest": True}),
    ("registers", "barter-instrument/src/exchange.rs", None, "opaque", "ExchangeId", {"item": "enum"}),
    ("registers", MEVENT, None, "struct", "MarketEvent", {}),
    ("registers", IDATA, None, "struct", "DefaultInstrumentMarketData", {}),
    ("registers", IDATA, None, "derive_default", "DefaultInstrumentMarketData", {}),
    ("registers", IDATA, "impl InstrumentDataState for DefaultInstrumentMarketData", "fn", "price", {}),
    ("registers", IDATA, "impl Processor<&MarketEvent<InstrumentKey, DataKind>> for DefaultInstrumentMarketData", "fn", "process", {}),
    ("risk", RISK, None, "struct", "RiskApproved", {}),
    ("risk", RISK, None, "derive_new", "RiskApproved", {}),
    ("risk", RISK, "impl RiskApproved", "fn", "into_item", {}),
    ("risk", RISK, None, "struct", "RiskRefused", {}),
    ("risk", RISK, "impl RiskRefused<T, Reason>", "fn", "into_item", {}),
    ("risk", RCHECK, None, "struct", "CheckHigherThan", {}),
    ("risk", RCHECK, None, "derive_new", "CheckHigherThan", {}),
    ("risk", RCHECK, None, "struct", "CheckFailHigherThan", {}),
    ("risk", RCHECK, "impl RiskCheck for CheckHigherThan", "fn", "check", {}),
    ("risk", RUTIL, None, "fn", "calculate_quote_notional", {}),
    ("risk", RUTIL, None, "fn", "calculate_abs_percent_difference", {}),
    ("risk", RUTIL, None, "fn", "calculate_delta", {}),
    ("metrics", STIME, None, "trait", "TimeInterval", {}),
    ("metrics", STIME, None, "struct", "Annual365", {}),
    ("metrics", STIME, "impl TimeInterval for Annual365", "fn", "interval", {}),
    ("metrics", STIME, None, "struct", "Annual252", {}),
    ("metrics", STIME, "impl TimeInterval for Annual252", "fn", "interval", {}),
    ("metrics", STIME, None, "struct", "Daily", {}),
    ("metrics", STIME, "impl TimeInterval for Daily", "fn", "interval", {}),
    ("metrics", SHARPE, None, "struct", "SharpeRatio", {}),
    ("metrics", SHARPE, "impl SharpeRatio", "fn", "calculate", {}),
    ("metrics", SHARPE, "impl SharpeRatio", "fn", "scale", {}),
    ("metrics", SORTINO, None, "struct", "SortinoRatio", {}),
    ("metrics", SORTINO, "impl SortinoRatio", "fn", "calculate", {}),
    ("metrics", SORTINO, "impl SortinoRatio", "fn", "scale", {}),
    ("metrics", CALMAR, None, "struct", "CalmarRatio", {}),
    ("metrics", CALMAR, "impl CalmarRatio", "fn", "calculate", {}),
    ("metrics", CALMAR, "impl CalmarRatio", "fn", "scale", {}),
    ("metrics", ROR, None, "struct", "RateOfReturn", {}),
    ("metrics", ROR, "impl RateOfReturn", "fn", "calculate", {}),
    ("metrics", ROR, "impl RateOfReturn", "fn", "scale", {}),
    ("clock", CLOCK, None, "trait", "TimeExchange", {}),
    ("clock", CLOCK, None, "struct", "LiveClock", {}),
    ("clock", CLOCK, "impl EngineClock for LiveClock", "fn", "time", {}),
    ("clock", CLOCK, "impl Processor<&Event> for LiveClock", "fn", "process", {}),
    ("clock", CLOCK, None, "struct", "HistoricalClockInner", {}),
    ("clock", CLOCK, None, "struct", "HistoricalClock", {}),
    ("clock", CLOCK, "impl HistoricalClock", "fn", "new", {}),
    ("clock", CLOCK, "impl EngineClock for HistoricalClock", "fn", "time", {}),
    ("clock", CLOCK, "impl Processor<&Event> for HistoricalClock", "fn", "process", {}),
    # ---- third generated file (Machines3.lean) from here on: state machines over MAP containers
    ("orders", OID, None, "opaque", "ClientOrderId", {}),
    ("orders+mock", XERR, None, "enum", "ConnectivityError", {}),
    ("orders+mock", XERR, None, "enum", "ApiError", {}),
    ("orders+mock", XERR, None, "enum", "OrderError", {}),
    ("orders", OMOD, None, "enum", "OrderKind", {}),
    ("orders", OMOD, None, "enum", "TimeInForce", {}),
    ("orders", OMOD, None, "struct", "OrderKey", {}),
    ("orders", OMOD, None, "struct", "OrderEvent", {}),
    ("orders", OMOD, None, "struct", "Order", {}),
    ("orders", OSTATE, None, "struct", "OpenInFlight", {}),
    ("orders", OSTATE, None, "struct", "Open", {}),
    ("orders", OSTATE, "impl Open", "fn", "quantity_remaining", {}),
    ("orders", OSTATE, None, "struct", "CancelInFlight", {}),
    ("orders", OSTATE, None, "struct", "Cancelled", {}),
    ("orders", OSTATE, None, "enum", "ActiveOrderState", {}),
    ("orders", OSTATE, "impl ActiveOrderState", "fn", "open_meta", {}),
    ("orders", OSTATE, None, "enum", "InactiveOrderState", {}),
    ("orders", OSTATE, None, "enum", "OrderState", {}),
    ("orders", OREQ, None, "struct", "RequestOpen", {}),
    ("orders", OREQ, None, "struct", "RequestCancel", {}),
    ("orders", OREQ, None, "alias", "OrderRequestOpen", {}),
    ("orders", OREQ, None, "alias", "OrderRequestCancel", {}),
    ("orders", OREQ, None, "alias", "OrderResponseCancel", {}),
    ("orders", OMOD, "impl Order<ExchangeKey, InstrumentKey, OrderState<AssetKey, InstrumentKey>>", "fn", "to_active", {}),
    ("orders", OMOD, "impl From<&OrderRequestOpen<ExchangeKey, InstrumentKey>> for Order<ExchangeKey, InstrumentKey, ActiveOrderState>", "fn", "from", {}),
    ("orders", ORD, None, "struct", "Orders", {}),
    ("orders", ORD, "impl Default for Orders", "fn", "default", {}),
    ("orders", ORD, "impl OrderManager for Orders", "fn", "update_from_order_snapshot", {}),
    ("orders", ORD, "impl OrderManager for Orders", "fn", "update_from_cancel_response", {}),
    ("orders", ORD, "impl InFlightRequestRecorder for Orders", "fn", "record_in_flight_cancel", {}),
    ("orders", ORD, "impl InFlightRequestRecorder for Orders", "fn", "record_in_flight_open", {}),
    ("mock", ANAME, None, "opaque", "AssetNameExchange", {}),
    ("mock", INAME, None, "opaque", "InstrumentNameExchange", {}),
    ("mock", "barter-instrument/src/lib.rs", None, "struct", "Underlying", {}),
    ("mock", "barter-instrument/src/instrument/mod.rs", None, "struct", "Instrument", {"keep": ["underlying"]}),
    ("mock", TRADE, "impl AssetFees<QuoteAsset>", "fn", "quote_fees", {}),
    ("mock", OREQ, None, "alias", "UnindexedOrderResponseCancel", {}),
    ("mock", XERR, None, "alias", "UnindexedApiError", {}),
    ("mock", XERR, None, "alias", "UnindexedOrderError", {}),
    ("mock", MACC, None, "struct", "AccountState", {}),
    ("mock", MACC, "impl AccountState", "fn", "update_time_exchange", {}),
    ("mock", MACC, "impl AccountState", "fn", "trades", {}),
    ("mock", MACC, "impl AccountState", "fn", "ack_trade", {}),
    ("mock", MOCK, None, "struct", "OpenOrderNotifications", {}),
    ("mock", MOCK, None, "struct", "MockExchange", {"drop": ["request_rx", "event_tx"]}),
    ("mock", MOCK, "impl MockExchange", "fn", "update_time_exchange", {}),
    ("mock", MOCK, "impl MockExchange", "fn", "time_exchange", {}),
    ("mock", MOCK, "impl MockExchange", "fn", "validate_order_kind_supported", {}),
    ("mock", MOCK, "impl MockExchange", "fn", "find_instrument_data", {}),
    ("mock", MOCK, "impl MockExchange", "fn", "order_id_sequence_fetch_add", {}),
    ("mock", MOCK, None, "fn", "build_open_order_err_response", {}),
    ("mock", MOCK, "impl MockExchange", "fn", "open_order", {}),
    ("connectivity_updates", EXCH, None, "struct", "ExchangeIndex", {}),
    ("connectivity_updates", EXCH, "impl ExchangeIndex", "fn", "index", {}),
    ("connectivity_updates", CONN, None, "struct", "ConnectivityStates", {}),
    ("connectivity_updates", CONN, "impl ConnectivityStates", "fn", "connectivity_index", {}),
    ("connectivity_updates", CONN, "impl ConnectivityStates", "fn", "connectivity", {}),
    ("connectivity_updates", CONN, "impl ConnectivityStates", "fn", "exchange_states", {}),
    ("connectivity_updates", CONN, "impl ConnectivityStates", "fn", "update_from_account_reconnecting", {}),
    ("connectivity_updates", CONN, "impl ConnectivityStates", "fn", "update_from_account_event", {}),
    ("connectivity_updates", CONN, "impl ConnectivityStates", "fn", "update_from_market_reconnecting", {}),
    ("connectivity_updates", CONN, "impl ConnectivityStates", "fn", "update_from_market_event", {}),
    # ---- fourth generated file (Machines4.lean) from here on
    ("audit_seq", "barter/src/lib.rs", None, "struct", "Sequence", {}),
    ("audit_seq", "barter/src/lib.rs", "impl Sequence", "fn", "value", {}),
    ("audit_seq", "barter/src/lib.rs", "impl Sequence", "fn", "fetch_add", {}),
    ("audit_seq", ACTX, None, "struct", "EngineContext", {}),
    ("audit_seq", ENG, None, "struct", "EngineMeta", {}),
    ("audit_seq", AUD, None, "struct", "AuditTick", {}),
    ("audit_seq", CLOCK, None, "trait", "EngineClock", {}),
    ("audit_seq", ENG, None, "struct", "Engine", {}),
    ("audit_seq", ENG, "impl Engine<Clock, State, ExecutionTxs, Strategy, Risk>", "fn", "new", {}),
    ("audit_seq", ENG, "impl Engine<Clock, State, ExecutionTxs, Strategy, Risk>", "fn", "time", {}),
    ("audit_seq", ENG, "impl Engine<Clock, State, ExecutionTxs, Strategy, Risk>", "fn", "reset_metadata", {}),
    ("audit_seq", AUD, "impl Auditor<Audit> for Engine", "fn", "audit", {}),
    ("audit_seq", AUD, "impl Auditor<Audit> for Engine", "fn", "audit_snapshot", {}),
    ("audit_seq", ENG, None, "trait", "Processor", {}),
    ("audit_seq", AUD, None, "trait", "Auditor", {}),
    ("audit_seq", ENG, None, "fn", "process_with_audit", {}),
    ("audit_seq", "barter/src/engine/state/mod.rs", None, "abstract", "EngineState", {}),
    ("audit_seq", REPL, None, "struct", "StateReplicaManager", {}),
    ("audit_seq", REPL, "impl StateReplicaManager<State, Updates>", "fn", "new", {}),
    ("audit_seq", REPL, "impl StateReplicaManager<EngineState<GlobalData, InstrumentData>, Updates>", "fn", "validate_and_update_context", {}),
    ("exec_map+indexer", ILIB, None, "struct", "Keyed", {}),
    ("exec_map+indexer", ILIB, None, "derive_new", "Keyed", {}),
    ("exec_map+indexer", IASSET, None, "struct", "AssetIndex", {}),
    ("exec_map+indexer", IASSET, None, "derive_new", "AssetIndex", {}),
    ("exec_map+indexer", IASSET, "impl AssetIndex", "fn", "index", {}),
    ("exec_map+indexer", IINSTR, None, "struct", "InstrumentIndex", {}),
    ("exec_map+indexer", IINSTR, None, "derive_new", "InstrumentIndex", {}),
    ("exec_map+indexer", IINSTR, "impl InstrumentIndex", "fn", "index", {}),
    ("exec_map+indexer", EXCH, None, "derive_new", "ExchangeIndex", {}),
    ("exec_map+indexer", ANAME, None, "opaque", "AssetNameInternal", {}),
    ("exec_map+indexer", INAME, None, "opaque", "InstrumentNameInternal", {}),
    ("exec_map+indexer", IASSET, None, "struct", "Asset", {"as": "AssetFull"}),
    ("exec_map+indexer", IASSET, None, "struct", "ExchangeAsset", {}),
    ("exec_map+indexer", "barter-instrument/src/instrument/quote.rs", None, "enum", "InstrumentQuoteAsset", {}),
    ("exec_map+indexer", "barter-instrument/src/instrument/kind/perpetual.rs", None, "struct", "PerpetualContract", {}),
    ("exec_map+indexer", "barter-instrument/src/instrument/kind/future.rs", None, "struct", "FutureContract", {}),
    ("exec_map+indexer", "barter-instrument/src/instrument/kind/option.rs", None, "enum", "OptionKind", {}),
    ("exec_map+indexer", "barter-instrument/src/instrument/kind/option.rs", None, "enum", "OptionExercise", {}),
    ("exec_map+indexer", "barter-instrument/src/instrument/kind/option.rs", None, "struct", "OptionContract", {}),
    ("exec_map+indexer", "barter-instrument/src/instrument/kind/mod.rs", None, "enum", "InstrumentKind", {}),
    ("exec_map+indexer", ISPEC, None, "struct", "InstrumentSpecPrice", {}),
    ("exec_map+indexer", ISPEC, None, "enum", "OrderQuantityUnits", {}),
    ("exec_map+indexer", ISPEC, None, "struct", "InstrumentSpecQuantity", {}),
    ("exec_map+indexer", ISPEC, None, "struct", "InstrumentSpecNotional", {}),
    ("exec_map+indexer", ISPEC, None, "struct", "InstrumentSpec", {}),
    ("exec_map+indexer", IINSTR, None, "struct", "Instrument", {"as": "InstrumentFull"}),
    ("exec_map+indexer", "barter-instrument/src/index/error.rs", None, "enum", "IndexError", {}),
    ("exec_map", XERR, None, "enum", "KeyError", {}),
    ("exec_map+indexer", IIDX, None, "struct", "IndexedInstruments", {}),
    ("exec_map+indexer", IIDX, "impl IndexedInstruments", "fn", "exchanges", {}),
    ("exec_map+indexer", IIDX, "impl IndexedInstruments", "fn", "assets", {}),
    ("exec_map+indexer", IIDX, "impl IndexedInstruments", "fn", "instruments", {}),
    ("exec_map", EMAP, None, "struct", "ExecutionInstrumentMap", {}),
    ("exec_map", EMAP, "impl ExecutionInstrumentMap", "fn", "new", {}),
    ("exec_map", EMAP, "impl ExecutionInstrumentMap", "fn", "exchange_assets", {}),
    ("exec_map", EMAP, "impl ExecutionInstrumentMap", "fn", "exchange_instruments", {}),
    ("exec_map", EMAP, "impl ExecutionInstrumentMap", "fn", "find_exchange_id", {}),
    ("exec_map", EMAP, "impl ExecutionInstrumentMap", "fn", "find_exchange_index", {}),
    ("exec_map", EMAP, "impl ExecutionInstrumentMap", "fn", "find_asset_name_exchange", {}),
    ("exec_map", EMAP, "impl ExecutionInstrumentMap", "fn", "find_asset_index", {}),
    ("exec_map", EMAP, "impl ExecutionInstrumentMap", "fn", "find_instrument_name_exchange", {}),
    ("exec_map", EMAP, "impl ExecutionInstrumentMap", "fn", "find_instrument_index", {}),
    ("exec_map", EMAP, None, "fn", "generate_execution_instrument_map", {}),
    ("exec_map", OMOD, None, "alias", "UnindexedOrderKey", {}),
    ("exec_map", EIDX, None, "struct", "AccountEventIndexer", {}),
    ("exec_map", EIDX, "impl AccountEventIndexer", "fn", "order_key", {}),
    ("exec_map", EIDX, "impl AccountEventIndexer", "fn", "order_request", {}),
    ("exec_map", EIDX, "impl AccountEventIndexer", "fn", "asset_balance", {}),
    ("exec_map", EIDX, "impl AccountEventIndexer", "fn", "trade", {}),
    ("indexer", IASSET, "impl ExchangeAsset<Asset>", "fn", "new", {}),
    ("indexer", "barter-instrument/src/instrument/kind/mod.rs", "impl InstrumentKind<AssetKey>", "fn", "settlement_asset", {}),
    ("indexer", ILIB, "impl Underlying<AssetKey>", "fn", "new", {}),
    ("indexer", IINSTR, "impl Instrument<ExchangeKey, AssetKey>", "fn", "map_exchange_key", {}),
    ("indexer", IINSTR, "impl Instrument<ExchangeKey, AssetKey>", "fn", "map_asset_key_with_lookup", {}),
    ("indexer", IIDX, None, "fn", "find_exchange_by_exchange_id", {}),
    ("indexer", IIDX, None, "fn", "find_asset_by_exchange_and_name_internal", {}),
    ("indexer", IBUILD, None, "struct", "IndexedInstrumentsBuilder", {}),
    ("indexer", IBUILD, None, "derive_default", "IndexedInstrumentsBuilder", {}),
    ("indexer", IBUILD, "impl IndexedInstrumentsBuilder", "fn", "new", {}),
    ("indexer", IBUILD, "impl IndexedInstrumentsBuilder", "fn", "add_instrument", {}),
    ("indexer", IBUILD, "impl IndexedInstrumentsBuilder", "fn", "build", {}),
    ("indexer", IIDX, "impl IndexedInstruments", "fn", "builder", {}),
    ("indexer", IIDX, "impl IndexedInstruments", "fn", "new", {}),
    ("indexer", IIDX, "impl IndexedInstruments", "fn", "find_exchange_index", {}),
    ("indexer", IIDX, "impl IndexedInstruments", "fn", "find_exchange", {}),
    ("indexer", IIDX, "impl IndexedInstruments", "fn", "find_asset_index", {}),
    ("indexer", IIDX, "impl IndexedInstruments", "fn", "find_asset", {}),
    ("indexer", IIDX, "impl IndexedInstruments", "fn", "find_instrument_index", {}),
    ("indexer", IIDX, "impl IndexedInstruments", "fn", "find_instrument", {}),
    ("filters_actions", FILT, None, "enum", "InstrumentFilter", {}),
    ("filters_actions", FILT, "impl InstrumentFilter<ExchangeKey, AssetKey, InstrumentKey>", "fn", "exchanges", {}),
    ("filters_actions", FILT, "impl InstrumentFilter<ExchangeKey, AssetKey, InstrumentKey>", "fn", "instruments", {}),
    ("filters_actions", FILT, "impl InstrumentFilter<ExchangeKey, AssetKey, InstrumentKey>", "fn", "underlyings", {}),
    ("filters_actions", IDATA, None, "trait", "InstrumentDataState", {}),
    ("filters_actions", ISTATE, None, "struct", "InstrumentState", {}),
    ("filters_actions", ISTATE, None, "struct", "InstrumentStates", {}),
    ("filters_actions", ISTATE, "impl InstrumentStates<InstrumentData>", "fn", "filtered", {}),
    ("filters_actions", ISTATE, "impl InstrumentStates<InstrumentData>", "fn", "instruments", {}),
    ("filters_actions", ISTATE, "impl InstrumentStates<InstrumentData>", "fn", "tear_sheets", {}),
    ("filters_actions", ISTATE, "impl InstrumentStates<InstrumentData>", "fn", "positions", {}),
    ("filters_actions", ISTATE, "impl InstrumentStates<InstrumentData>", "fn", "orders", {}),
    ("filters_actions", ISTATE, "impl InstrumentStates<InstrumentData>", "fn", "instrument_datas", {}),
    ("filters_actions", ORD, "impl OrderManager<ExchangeKey, InstrumentKey> for Orders<ExchangeKey, InstrumentKey>", "fn", "orders", {}),
    ("filters_actions", OMOD, "impl Order<ExchangeKey, InstrumentKey, ActiveOrderState>", "fn", "to_request_cancel", {}),
    ("filters_actions", "barter/src/engine/state/mod.rs", None, "struct", "EngineState", {"as": "EngineStateI", "keep": ["instruments"]}),
    ("filters_actions", CLOSE, None, "fn", "build_ioc_market_order_to_close_position", {}),
    ("filters_actions", CLOSE, None, "fn", "close_open_positions_with_market_orders", {}),
    ("send_requests", "barter/src/engine/error.rs", None, "enum", "RecoverableEngineError", {}),
    ("send_requests", "barter/src/engine/error.rs", None, "enum", "UnrecoverableEngineError", {}),
    ("send_requests", "barter/src/engine/error.rs", None, "enum", "EngineError", {}),
    ("send_requests", "barter/src/execution/request.rs", None, "enum", "ExecutionRequest", {}),
    ("send_requests", "barter-integration/src/lib.rs", None, "trait", "Unrecoverable", {}),
    ("send_requests", "barter-integration/src/channel.rs", None, "trait", "Tx", {}),
    ("send_requests", "barter/src/engine/execution_tx.rs", None, "trait", "ExecutionTxMap", {}),
    ("send_requests", SENDR, None, "struct", "SendRequestsOutput", {}),
    ("send_requests", SENDR, None, "derive_new", "SendRequestsOutput", {}),
    ("send_requests", SENDR, "impl SendRequestsOutput<Kind, ExchangeKey, InstrumentKey>", "fn", "is_empty", {}),
    ("send_requests", SENDR, "impl SendRequestsOutput<Kind, ExchangeKey, InstrumentKey>", "fn", "unrecoverable_errors", {}),
    ("send_requests", SENDR, None, "struct", "SendCancelsAndOpensOutput", {}),
    ("send_requests", SENDR, None, "derive_new", "SendCancelsAndOpensOutput", {}),
    ("send_requests", SENDR, "impl SendCancelsAndOpensOutput<ExchangeKey, InstrumentKey>", "fn", "is_empty", {}),
    ("send_requests", SENDR, "impl SendCancelsAndOpensOutput<ExchangeKey, InstrumentKey>", "fn", "unrecoverable_errors", {}),
    ("send_requests", SENDR, "impl SendRequests<ExchangeKey, InstrumentKey> for Engine", "fn", "send_request", {}),
    ("send_requests", SENDR, "impl SendRequests<ExchangeKey, InstrumentKey> for Engine", "fn", "send_requests", {}),
]
GROUPS = ["sequencer", "drawdown", "position_sm", "connectivity"]     # -> Generated/Machines.lean
GROUPS2 = ["dataset", "pnl_returns", "registers", "risk", "metrics", "clock"]                                                 # -> Generated/Machines2.lean (imports the first)
GROUPS3 = ["orders", "mock", "connectivity_updates"]                  # -> Generated/Machines3.lean (imports the second): MAP containers
GROUPS4 = ["audit_seq", "exec_map", "indexer", "filters_actions", "send_requests"]   # -> Generated/Machines4.lean (imports the third): ITERATORS
GROUPS34 = GROUPS3 + GROUPS4          # the groups that have the vocabulary of the third file

PRELUDE = """\
/-! ## Fixed prelude: the meaning given to the Rust vocabulary of the accepted subset

* `u64` is `Nat`: **overflow at 2^64 is not modelled** (`x + 1`, `x += 1`, `x * y` are exact); `-`, `/`, `%`
  on `u64` are rejected by the translator. `i64` is `Int` (overflow not modelled, `/` is `Int.tdiv`);
  `<u64> as i64` and `Decimal::from(<u64>)` are the inclusions `Nat -> Int`, `Nat -> Rat`.
* `Decimal` is `Rat` (rounding / overflow of rust_decimal not modelled, DESIGN section 3).
* `DateTime<Utc>` and `TimeDelta` are `Int` (milliseconds): `a.signed_duration_since(b)` is `a - b`,
  `.num_milliseconds()` is the identity (sub-millisecond precision not modelled).
* `Result<T, E>` is `Except E T`; `e?` is written out as a `match` returning the error / `none`
  together with the state as it is at that point; `&T` is `T`; `.clone()` is the identity;
  `opt.take()` returns the field's value and writes `none`.
* `fn f(&mut self, a) -> R` is `f (self) (a) : S × R` (`S` alone for `R = ()`).
-/

/-- A Rust panic site (`unreachable!(..)`, `panic!(..)`) as a value: an unspecified inhabitant. Nothing can be
proved about it, so an agreement theorem about a function that contains one only holds if the site is dead
code (`Vec<T>` is `List T`, `.push(x)` appends; type parameters stay parameters with decidable equality). -/
opaque Rust.unreachable {α : Type} [Inhabited α] : α

/-- `Decimal::abs`. -/
def Decimal.abs (x : Rat) : Rat := if x < 0 then -x else x

/-- `Decimal::checked_div`: `None` exactly on a zero divisor (overflow is not modelled). -/
def Decimal.checked_div (x y : Rat) : Option Rat := if y = 0 then none else some (x / y)

/-- `Decimal::MAX` = 2^96 - 1. -/
def Decimal.MAX : Rat := 79228162514264337593543950335

/-- `Decimal::MIN` = -(2^96 - 1). -/
def Decimal.MIN : Rat := -79228162514264337593543950335

/-- `std::cmp::Ordering` (`a.cmp(&b)` on `Decimal` is `Decimal.cmp`, below). -/
inductive Ordering where
  | Less
  | Equal
  | Greater
  deriving DecidableEq, Repr

/-- `Ord::cmp` of `Decimal` (a total order; rust_decimal compares values, not representations). -/
def Decimal.cmp (x y : Rat) : Ordering := if x < y then Ordering.Less else if x = y then Ordering.Equal else Ordering.Greater
"""

AGREE2 = ["DataSetSM", "PnLReturnsSM", "RegistersSM", "RiskSM", "MetricsSM", "ClockSM"]

PRELUDE2 = """\
/-! ## Prelude, continued: vocabulary added for the groups of this file (trusted like the prelude of Machines.lean)

* `x.is_sign_negative()` on a `Decimal` is `x < 0` (rust_decimal's negative zero is not modelled: a `Rat` has none).
* `opt.expect("..")` / `opt.unwrap()` on an `Option` is `match opt with | some v => v | none => Rust.unreachable`:
  the panic is the opaque value of Machines.lean, so an agreement theorem only holds if the `None` case is dead.
* `#[derive(Default)]` on a struct (kind `derive_default`; the attribute is read from the source and must list
  `Default`) is the value with every field at the default of its type: `Decimal` / `u64` / `i64` 0, `bool` false,
  `Option` `None`, `Vec` empty, `DateTime<Utc>` the Unix epoch (0 ms), `TimeDelta` zero, a translated struct its
  own translated `default`.
* `#[derive(Constructor)]` (derive_more; kind `derive_new`) is `new(f1, .., fn)` taking the fields in declaration
  order.
* An `extern` item is a function of the source that is NOT translated (e.g. `statistic::algorithm::sqrt`, a Newton
  iteration): only its signature is read; every generated definition that calls it, directly or through a
  translated callee, takes it as an explicit first parameter of that function type, so agreement theorems
  quantify over it (or over the functions satisfying its documented contract).
* `f64` is the uninterpreted type `F64` below: its values are only stored, copied and handed to extern functions
  (arithmetic and comparisons on it are rejected). `Decimal::from_f64(x)` (rust_decimal) is a built-in extern: the
  explicit parameter `from_f64 : F64 → Option Rat`, about which nothing is assumed.
* Option combinators: `o.as_ref()` is `o` (references are values); `o.map(|x| e)`, `o.is_none_or(|x| c)`,
  `o.is_some_and(|x| c)`, `o.or(p)`, `o.unwrap_or(d)` are the evident `match`es on `o` (arguments are pure, so eager
  and lazy evaluation agree); `place.replace(v)` writes `some v` and returns the old value.
* `let Some(x) = &mut <place> else { .. };` binds `x` to the payload as a mutable local, and every later change of
  `x` is written back to the place at once. For code the borrow checker accepts this is the meaning of the borrow:
  while `x` is alive nothing else reads or writes the place, afterwards `x` is never read again.
* A `match` without guards whose patterns bind variables is a Lean `match` with the alternatives in source order
  (first match wins in both languages). An enum translated with option `rest` has the extra constructor `Other_`
  standing for all its untranslated variants without their payloads (reachable only through `_` arms).
* `Self::Name` in a trait impl is the `type Name = ..;` of that impl.
* `Decimal::checked_mul` / `checked_add` / `checked_sub` (below) never return `None`: their only documented `None`
  is overflow, and **overflow is not modelled** (as for every other `Decimal` operation); `checked_div` (Machines.lean)
  is `None` exactly on a zero divisor.
* `a <= b` (`<`, `>`, `>=`) on values of a type PARAMETER `T` is `T_ord.le a b` (`.lt`, `.gt`, `.ge`) of the explicit
  parameter `T_ord : Rust.PartialOrd T` (below): the `PartialOrd` methods of whatever type is plugged in, about
  which nothing is assumed — not even that the four are related (an impl may override each).
* `f(a, b?)`: a `?` below the top of an expression, in a position that is always evaluated, is taken out in
  evaluation order (`let t = b?; f(a, t)`); panics are values (`Rust.unreachable`), not effects, so a panic that Rust
  would raise before the early return is not distinguished from the early return.
-/

/-! * A `trait` item is the record of its methods (`structure Name (Self : Type)`); a method call on a value of a
  type parameter `T` is a field of the explicit parameter `T_Name : Name T`.
* `d.num_seconds()` on a `TimeDelta` is `Int.tdiv d 1000` (whole seconds, truncated toward zero, as chrono does);
  `TimeDelta::days(n)` / `hours` / `minutes` / `seconds` / `milliseconds` are `n * 86400000` / `3600000` / `60000` /
  `1000` / `1` ms; `a.max(b)` on `TimeDelta` is the greater; `Decimal::from(<i64>)` is the inclusion `Int → Rat`.
* `x.sqrt()` on a `Decimal` (rust_decimal's `MathematicalOps::sqrt`, NOT `statistic::algorithm::sqrt`) is a built-in
  extern: the explicit parameter `decimal_sqrt : Rat → Option Rat`, about which nothing is assumed.
* `a.cmp(&b)` on `Decimal` is `Decimal.cmp` into `std::cmp::Ordering` (prelude of Machines.lean).
* `Utc::now()` is an INPUT: the explicit parameter `utc_now : Int` (ms, like every `DateTime`) of the function that
  reads it; a function may read it once only (two readings would be two different inputs: rejected), and functions
  that take it cannot be called from translated code. `t.add(d)` on a `DateTime` is `t + d`; `x.abs()` on `i64` is
  the absolute value (overflow at `i64::MIN` not modelled).
* `Arc<T>` is `T` and `RwLock<T>` is `T`: **locks and shared ownership are transparent**, a single owner and a
  single thread are modelled (clones of an `Arc` aliasing one cell, blocking and poisoning are not). `x.read()` is
  the content; `let mut g = <place>.write();` binds `g` to the content as a mutable local whose every change is
  written back to the place at once (as for `&mut`, see above); `drop(g);` has no effect.
* In a `match` with guards an arm `x if c => ..` names the (pure) scrutinee `x`. -/

/-- The four comparison methods of `PartialOrd` for a type parameter (see above). -/
structure Rust.PartialOrd (T : Type) where
  lt : T → T → Bool
  le : T → T → Bool
  gt : T → T → Bool
  ge : T → T → Bool

/-- `Decimal::checked_mul`: never `None` (its only `None` is overflow, which is not modelled). -/
def Decimal.checked_mul (x y : Rat) : Option Rat := some (x * y)

/-- `Decimal::checked_add`: never `None` (its only `None` is overflow, which is not modelled). -/
def Decimal.checked_add (x y : Rat) : Option Rat := some (x + y)

/-- `Decimal::checked_sub`: never `None` (its only `None` is overflow, which is not modelled). -/
def Decimal.checked_sub (x y : Rat) : Option Rat := some (x - y)

/-- `f64`, uninterpreted (see above); any injective coding of the bit patterns would do. -/
abbrev F64 := Nat
"""

AGREE3 = ["OrdersSM", "MockSM", "ConnectivityUpdSM"]

PRELUDE3 = """\
/-! ## Prelude, continued: the MAP vocabulary (trusted like the preludes of Machines.lean / Machines2.lean)

The translated functions of this file keep their state in `HashMap` / `FnvHashMap` / `IndexMap` containers.  The
translator accepts a small, closed set of operations on them and gives each the FIXED meaning below; every other
use of a map (iteration with `iter()` / `keys()` / `values()` / `drain()` / `retain()` whose order could be observed,
`extend`, indexing `m[k]`, `for` loops over it, ...) is rejected by name.

* `HashMap<K, V>` / `FnvHashMap<K, V>` is `Rust.Map K V`: a finite map written as an ASSOCIATION LIST read through
  `Rust.Map.get` (first pair with that key).  `m.get(k)` is `Rust.Map.get m k`; `m.contains_key(k)`;
  `m.insert(k, v)` writes `Rust.Map.insert m k v` (every pair with key `k` removed, `(k, v)` put in front) and
  returns the old `Rust.Map.get m k`; `m.remove(k)` writes `Rust.Map.remove m k` (every pair with key `k` removed)
  and returns the old value; `HashMap::default()` / `new()` is the empty list; `m.len()` / `m.is_empty()` count the
  pairs (faithful on lists with unique keys, which `insert` / `remove` / `map_values` preserve:
  Lemmas/KernelsAgree/MapVocab.lean proves this and the finite-map laws `get (insert m k v) k' = if k' = k then some v
  else get m k'`, `get (remove m k) k' = if k' = k then none else get m k'`).  The POSITION of a pair in the list has
  no meaning: hash order is never observable through the accepted operations, which are the ones above plus
  `m.values().all(p)` / `.any(p)` (order-free; `values()` alone has the type `Rust.Bag`, a list whose only accepted
  consumers are `all` / `any`) and `for x in m.values_mut() { x.f = e; .. }` / `m.values_mut().for_each(|x| x.f = e)`
  with a body that only assigns fields of `x` from values that do not depend on the map (`Rust.Map.map_values`).
* `m.get_mut(k)` (`Option<&mut V>`) is accepted ONLY in the forms `let Some(x) = m.get_mut(k) else { ..diverges.. };`,
  `if let Some(x) = m.get_mut(k) { .. }`, `let x = m.get_mut(k).expect(..) / .unwrap() / .unwrap_or_else(|| panic!(..));`
  and as the left side of an assignment `m.get_mut(k).unwrap().f = e;` on a map that is a field path of `&mut self` /
  a mutable local: `x` is a mutable local holding `Rust.Map.get m k`, and every change of `x` is written back at once as
  `Rust.Map.insert m k x` (for code the borrow checker accepts this is the meaning of the borrow: while `x` is alive
  nothing else reads or writes `m`; the panic of `expect` on a missing key is `Rust.unreachable` for the whole function).
* The Entry API: `m.entry(k)` is `Rust.Map.entry m k : Rust.Entry K V`, a two-constructor VIEW of `Rust.Map.get m k`:
  `Entry::Occupied(e)` with `e.key = k` and `e.value` the current value, `Entry::Vacant(e)` with `e.key = k`.
  `e.get()` / `e.get_mut()` read `e.value`; an assignment through `e.get_mut()` changes `e.value` and writes
  `Rust.Map.insert m e.key e.value` at once; `e.insert(v)` on an occupied entry likewise (returns the old value);
  `e.remove()` writes `Rust.Map.remove m e.key` and returns `e.value`; `e.insert(v)` on a vacant entry writes
  `Rust.Map.insert m e.key v` (its `&mut V` result must be discarded); `e.key()` is `e.key`.  The translator records
  in the TYPE of an entry which map place (field path of `self`) it borrows, so the handle may travel through tuples,
  `let` and `match` patterns.
* `IndexMap<K, V>` / `FnvIndexMap<K, V>` is `Rust.IndexMap K V`: a list of pairs addressed by POSITION (insertion
  order, which IS observable) and by key: `m.get(k)` first pair with that key, `m.get_index(i)` the pair at position
  `i`, `m.get_mut(k)` / `m.get_index_mut(i)` as for `HashMap::get_mut` with the write-back `Rust.IndexMap.set m k x` /
  `Rust.IndexMap.set_index m i x` IN PLACE (position and key unchanged), `m.values().all(p)` / `.any(p)`, `m.len()`.
  Insertion / removal on an `IndexMap` is not in the vocabulary (rejected).
* A user function returning `&mut T` / `Option<&mut T>` (`fn acc(&mut self, ..) -> &mut T`) is accepted only if its body
  is ONE accessor expression of the forms above over a field path of `self` (`self.f.get_mut(k)`,
  `self.f.get_mut(k).unwrap_or_else(|| panic!(..))`, `self.f.get_index_mut(i).map(|(_k, v)| v).expect(..)`, ...); a call of
  it is read as that expression with the arguments substituted, under the same rule as `get_mut`.
* Option combinators added: `o.filter(|x| c)`, `o.unwrap_or_else(|| e)` (pure `e`: eager and lazy evaluation agree;
  `|| panic!(..)` is `Rust.unreachable`), `o.cloned()` / `o.copied()` (identity), `o.ok_or(e)` / `o.ok_or_else(|| e)`,
  `o.take()` in the middle of a method chain (taken out in evaluation order).
* `Result` patterns `Ok(p)` / `Err(p)`; `let <refutable pattern> = e else { ..diverges.. };` and
  `if let <refutable pattern> = e { .. } else { .. }` on enums are `match e with | p => .. | _ => ..`; a `match` with
  guards whose patterns take values apart is a Lean `match` on the (let-bound) scrutinee in which a guarded arm
  `p if g => a` reads `| p => if g then a else <the same match over the arms that follow>`; nested or-patterns
  `(A | B, c)` are written out as the alternatives `(A, c) | (B, c)`; arms that earlier arms make unreachable are left
  out (Lean rejects redundant alternatives) and a guarded arm whose later arms do not cover its pattern on their own
  is rejected.
* `String` is `Rust.Str`: translated code only builds strings with `format!("template", a, b)` (error messages), stores and
  moves them, and never inspects them; such a value is the list of the values formatted into it, in order
  (`Decimal` / integers / times / identifier types; the template text, positional or inline `{name}` placeholders
  included, is NOT modelled).  `n.to_smolstr()` of a `u64` and `id.0` of an opaque identifier type are the text of an
  identifier, kept as the number (an injective coding, like the opaque identifier types themselves), from which
  `Id(text)` / `Id::new(text)` builds an identifier.
* `assert!(c)` / `assert_eq!(a, b)` panic unless the condition holds: `if c then <rest> else Rust.unreachable`.
* `x.into()`: the identity (`From<T> for T`), or the ONE one-field variant `V(T)` of the target enum that carries
  `#[from]` (thiserror) / whose enum derives `From` (derive_more); on a value of a type parameter `T` with the bound
  `T: Into<U>` it is the explicit parameter `T_into : T -> U`, which every translated caller supplies by the same rule.
* `a / n` on `u64` with a non-zero integer LITERAL `n` is `Nat` division (no panic, truncating like Rust);
  `t.checked_add_signed(d)` on a `DateTime` is `some (t + d)` (overflow is not modelled).
* `v.iter()` on a `Vec` keeps the order; `.filter(|x| c)` is `List.filter`, `.cloned()` the identity; such an iterator may
  be returned as `impl Iterator<Item = &T>` (it then has the type of `values()`, whose order nobody may observe).
* A struct translated with option `keep` / `drop` lacks the fields that are outside the vocabulary (channels, ...): no
  translated function may read them, and translated code cannot construct the struct.
* A type argument that Rust infers from a LATER use (the error type of an `Ok(..)` bound by `let`) is written `_` in the
  `let` and left to Lean's elaborator.
* A generic `enum E<A, B>` is an inductive type with parameters; a type alias `type N<P..> = T;` (kind `alias`) is
  expanded at every use (also as the name of a struct pattern / literal); an `opaque` identifier type may have type
  parameters, which are ignored (option `generic`); methods with a `self` receiver on an enum are translated like
  those on a struct (`&self` / `self` only).
-/

/-- one value formatted into a `String` by `format!` -/
inductive Rust.FmtArg where
  | dec (x : Rat)
  | nat (n : Nat)
  | int (i : Int)
  | id (n : Nat)
  deriving DecidableEq, Repr

/-- `String`, as far as the translated code is concerned: a message built by `format!`, known by the values
formatted into it, in order (the template text is not modelled). -/
structure Rust.Str where
  args : List Rust.FmtArg
  deriving DecidableEq, Repr, Inhabited

/-- `HashMap<K, V>` / `FnvHashMap<K, V>`: a finite map as an association list (see above). -/
abbrev Rust.Map (K V : Type) := List (K × V)

/-- `HashMap::default()` / `HashMap::new()`. -/
def Rust.Map.empty {K V : Type} : Rust.Map K V := []

/-- `m.get(k)`: the value of the first pair with key `k`. -/
def Rust.Map.get {K V : Type} [DecidableEq K] (m : Rust.Map K V) (k : K) : Option V :=
  match m with
  | [] => none
  | (k', v) :: rest => if k' = k then some v else Rust.Map.get rest k

/-- `m.remove(k)` (the map afterwards): every pair with key `k` removed. -/
def Rust.Map.remove {K V : Type} [DecidableEq K] (m : Rust.Map K V) (k : K) : Rust.Map K V :=
  match m with
  | [] => []
  | (k', v) :: rest => if k' = k then Rust.Map.remove rest k else (k', v) :: Rust.Map.remove rest k

/-- `m.insert(k, v)` (the map afterwards), also the write-back of `get_mut` / an entry: `k` is bound to `v` only. -/
def Rust.Map.insert {K V : Type} [DecidableEq K] (m : Rust.Map K V) (k : K) (v : V) : Rust.Map K V :=
  (k, v) :: Rust.Map.remove m k

/-- `m.contains_key(k)`. -/
def Rust.Map.contains_key {K V : Type} [DecidableEq K] (m : Rust.Map K V) (k : K) : Bool := (Rust.Map.get m k).isSome

/-- `m.len()` (faithful on lists with unique keys). -/
def Rust.Map.len {K V : Type} (m : Rust.Map K V) : Nat := m.length

/-- what `values()` yields: a collection WITHOUT a meaningful order; only `all` / `any` consume it. -/
abbrev Rust.Bag (V : Type) := List V

/-- `m.values()`. -/
def Rust.Map.values {K V : Type} (m : Rust.Map K V) : Rust.Bag V := m.map (·.2)

/-- `for x in m.values_mut() { .. }` with a body that is a function of `x` alone: that function on every value. -/
def Rust.Map.map_values {K V : Type} (f : V → V) (m : Rust.Map K V) : Rust.Map K V := m.map fun kv => (kv.1, f kv.2)

/-- An occupied entry: its key and the CURRENT value. -/
structure Rust.OccupiedEntry (K V : Type) where
  key : K
  value : V
  deriving DecidableEq, Repr

/-- A vacant entry: its key. -/
structure Rust.VacantEntry (K : Type) where
  key : K
  deriving DecidableEq, Repr

/-- `std::collections::hash_map::Entry`: a view of `Rust.Map.get m k`. -/
inductive Rust.Entry (K V : Type) where
  | Occupied (e : Rust.OccupiedEntry K V)
  | Vacant (e : Rust.VacantEntry K)
  deriving DecidableEq, Repr

/-- `m.entry(k)`. -/
def Rust.Map.entry {K V : Type} [DecidableEq K] (m : Rust.Map K V) (k : K) : Rust.Entry K V :=
  match Rust.Map.get m k with
  | some v => Rust.Entry.Occupied { key := k, value := v }
  | none => Rust.Entry.Vacant { key := k }

/-- `IndexMap<K, V>` / `FnvIndexMap<K, V>`: pairs in insertion order, addressed by position and by key. -/
abbrev Rust.IndexMap (K V : Type) := List (K × V)

/-- `m.get(k)` on an `IndexMap`. -/
def Rust.IndexMap.get {K V : Type} [DecidableEq K] (m : Rust.IndexMap K V) (k : K) : Option V := Rust.Map.get m k

/-- `m.get_index(i)`: the pair at position `i`. -/
def Rust.IndexMap.get_index {K V : Type} (m : Rust.IndexMap K V) (i : Nat) : Option (K × V) := m[i]?

/-- write-back of `m.get_mut(k)`: the value of the first pair with key `k` replaced IN PLACE. -/
def Rust.IndexMap.set {K V : Type} [DecidableEq K] (m : Rust.IndexMap K V) (k : K) (v : V) : Rust.IndexMap K V :=
  match m with
  | [] => []
  | (k', v') :: rest => if k' = k then (k', v) :: rest else (k', v') :: Rust.IndexMap.set rest k v

/-- write-back of `m.get_index_mut(i)`: the value at position `i` replaced, its key kept. -/
def Rust.IndexMap.set_index {K V : Type} (m : Rust.IndexMap K V) (i : Nat) (v : V) : Rust.IndexMap K V :=
  match m[i]? with
  | some kv => List.set m i (kv.1, v)
  | none => m

/-- `m.values()` on an `IndexMap`. -/
def Rust.IndexMap.values {K V : Type} (m : Rust.IndexMap K V) : Rust.Bag V := m.map (·.2)

/-- `m.len()` on an `IndexMap`. -/
def Rust.IndexMap.len {K V : Type} (m : Rust.IndexMap K V) : Nat := m.length
"""

AGREE4 = ["AuditSeqSM", "ExecMapSM", "IndexerSM", "FiltersActionsSM", "SendRequestsSM"]

PRELUDE4 = """\
/-! ## Prelude, continued: vocabulary added for the groups of this file (trusted like the preludes of Machines.lean ..
Machines3.lean)

* `a - b` on `u64` is `Rust.u64_sub a b`: the difference when `b <= a`, a PANIC (`Rust.unreachable`) otherwise -- the
  arithmetic-overflow panic of a build with overflow checks (debug); a release build wraps around instead, which is
  not modelled (like every other overflow).  An agreement theorem about a function that subtracts therefore only holds
  where the subtraction cannot underflow.
* ITERATORS ARE LISTS.  An iterator value is the LIST of the items it will yield, in order: `v.iter()` / `v.into_iter()` on a
  `Vec<T>` or slice `&[T]` is the list itself; on an `IndexMap<K, V>` (insertion order IS meaningful) `m.iter()` is the list of
  its pairs, `m.keys()` / `m.values()` the lists of their components; `o.iter()` / `o.into_iter()` on an `Option` is
  `Option.toList`.  `HashMap::iter()` / `keys()` / `values()` stay REJECTED (hash order is not modelled) except
  `values().all(p)` / `.any(p)` (Machines3.lean).  The adaptors are the list functions of core Lean, consumed at once:
  `map` `List.map`, `filter` `List.filter`, `filter_map` `List.filterMap`, `find` `List.find?`, `find_map` `List.findSome?`,
  `any` / `all` `List.any` / `List.all`, `flat_map(f)` `List.flatten (List.map f ..)` (`List.filterMap f` when `f` yields an
  `Option`), `flatten`, `chain` `++`, `zip` `List.zip`, `count` `List.length`, `cloned` / `copied` the identity,
  `enumerate` `Rust.Iter.enumerate` (pairs `(index, item)` from 0), `position(p)` `Rust.Iter.position` (index of the first
  item satisfying `p`).  On a `Vec` / slice: `len`, `is_empty`, `contains`, `first`, `last`, `get(i)`.
  LAZINESS IS NOT MODELLED, and need not be: a closure is accepted only as a PURE function value -- an expression (or a block
  with early exits: `let x = e?;`, `return None`) over its parameter and the variables in scope, which it can read but never
  assign, with no state-changing call inside -- so neither the number of times nor the moment it is evaluated can be observed,
  and for code the borrow checker accepts no variable it reads can change while the iterator is alive.  A path naming a
  one-argument function / method / variant (`Type::method`, `Enum::Variant`) is the same function value.
* `collect()`: into a `Vec` the list itself; into an `IndexMap` `Rust.IndexMap.collect` -- `insert` of every pair in order,
  where `Rust.IndexMap.insert` REPLACES THE VALUE IN PLACE when the key is present (the pair keeps the POSITION of its first
  occurrence, the LAST value wins) and appends a new key at the end: the documented semantics of indexmap's
  `FromIterator` / `Extend` ("equivalent to calling insert for each of them in order ... their value is updated but it keeps
  the existing order ... the last corresponding value prevails", indexmap-2.x src/map.rs); into a `HashMap` / `FnvHashMap`
  `Rust.Map.collect`, `Rust.Map.insert` of every pair in order (last value wins; position has no meaning).  The target
  collection is what the context says (a field / parameter type, a `let` annotation, `collect::<Vec<_>>()`).
  Lemmas/KernelsAgree/IterVocab.lean proves what these definitions amount to (`get` of a collected map is the LAST pair with
  that key, its keys are the distinct keys in order of first occurrence, `position` / `enumerate` index from 0, ...).
* `&[T]` is `List T` like `Vec<T>`; `_` in a type is left to the context.
* `v.sort()` on a `Vec<T>` is `List.mergeSort v Ord_T` where `Ord_T : T → T → Bool` is an EXPLICIT PARAMETER standing for
  `a <= b` of `T`'s `Ord` impl, which is NOT translated (`#[derive(Ord)]`: lexicographic in field / variant order): core's
  `mergeSort` is a stable sort, and for a total preorder the stable sorted permutation is unique, so this is what Rust's
  (stable) `slice::sort` returns whenever `Ord_T` is a total preorder; for any other `Ord_T` nothing is claimed (Rust leaves
  the order unspecified and may panic).  `v.dedup()` is `Rust.Vec.dedup`: of every run of consecutive EQUAL elements the
  first is kept (`PartialEq` of a fully translated type is `=`).  `iter.fold(init, |acc, x| e)` is `List.foldl`.
* A parameter of function type -- `f: impl Fn(&A) -> R`, or `f: F` with `F: Fn(&A) -> R` in the `where` clause -- is a PURE
  function value `A → R`; `f(a)` applies it; a closure passed for it is translated like the closures of the adaptors.
  `iter: impl IntoIterator<Item = X>` / `I: IntoIterator<Item = X>` is the list of the items.
* `let xs = it.collect();` whose target collection only a LATER use determines (`S { xs, .. }`) binds the item list; it is
  converted where it is used at a collection type (Rust infers the one target from that use as well).
* `res.expect(..)` / `res.unwrap()` on a `Result`: the `Err` arm is `Rust.unreachable`; `res.ok()` forgets the error.
* barter-integration's `OneOrMany<T>` / `NoneOneOrMany<T>` (another crate; modelled and tied to the code by the sub-check C03N)
  are part of the FIXED vocabulary: `Rust.OneOrMany` / `Rust.NoneOneOrMany` below with `contains`, `iter` / `as_ref` (`to_list`),
  `len`, `is_none` / `is_empty`, `from(Vec)` / `from_iter` / `collect()` (by the number of items), `from(Option)`, `default()`,
  the constructors and `extend` (arm by arm as in the source).  `itertools::Either::Left(it)` / `Right(it)` of two iterator
  types with the same item is the wrapped iterator; `std::iter::empty()` / `once(x)` are `[]` / `[x]`.
* An element-wise adaptor (`map`, `filter`, `filter_map`) of the UNORDERED `values()` of a `HashMap` stays a `Rust.Bag`, and so
  does `flat_map` with a closure that yields one: hash order still cannot be observed -- handing such a collection on where an
  ORDERED iterator is required (`impl IntoIterator`, `collect()` into a `Vec`, ..) is rejected.
* `for x in <ordered iterator> { body }` is a LEFT FOLD over the items, in order, whose state is the tuple of the mutable
  variables the body mentions: `List.foldl (fun state x => body; state') state items`.  The body may assign, `push`, call
  `&mut self` methods and branch; `return` / `?` inside it are rejected, `break` / `continue` / `while` / `loop` stay
  rejected, and so does a `for` over a `HashMap`.  `let mut v = Vec::new();` may get its element type from a later `push`.
* `format!`: an argument that has no coding as a `Rust.FmtArg` (a struct, a list, ..) is not recorded (the text of a message
  is not modelled).
* `a == b` / `a != b` on values of a FULLY translated struct whose `#[derive(..)]` lists `PartialEq` is field-wise equality:
  Lean's `=` (decidable by the derived `DecidableEq`).
* A struct that an earlier generated file has in a RESTRICTED form (`Instrument`, of which Machines3.lean keeps `underlying`)
  or as an opaque identifier (`Asset`) is translated again, in full, under another Lean name (item option `as`:
  `InstrumentFull`, `AssetFull`); in the groups of this file the Rust name means that full translation.
* A type parameter of a fn that is named like a translated type (`fn process_with_audit<Event, Engine>`) is renamed `<name>T`
  throughout the item.  An item of kind `abstract` (`EngineState`) is a type of the source that is NOT translated: it is a
  type parameter `{Name : Type}` of every definition that mentions it (its values are only stored and moved).
* TRAITS: a (generic) trait is the record of its methods, its type parameters being `Self`, the trait's own and its
  associated types; `fn m(&mut self, x) -> R` is the field `m : Self → X → Self × R`; a method with type parameters of its own
  and a bound `P: From<K>` is a polymorphic field taking the conversion `K → P` explicitly.  In a fn, `T: Trait<A, Name = Ty>`
  of its `where` clause makes `x.m(..)` on a value of the type parameter `T` the field `m` of the explicit parameter
  `T_Trait : Trait T A <associated types>`; `T::Name` is `Ty` if the bound binds it, else a further type parameter `T_Name`.
  `T::from(x)` with `T: From<U>` is the explicit parameter `T_from : U → T`, which every translated caller supplies (the
  identity where `U` is `T`).  Which `impl` a call resolves to is NOT modelled: agreement theorems quantify over the records
  or plug in the generated methods of the `impl` by hand (stated where they do).
* A state-changing call (`&mut self` method, `push`, ..) BELOW the top of an expression, in a position that is always
  evaluated, is taken out as `let call_n = <call>;` in evaluation order, provided nothing evaluated before it in that
  expression reads the variable it changes.
-/

/-- `a - b` on `u64` (see above). -/
def Rust.u64_sub (a b : Nat) : Nat := if b ≤ a then a - b else Rust.unreachable

/-- `m.keys()` on an `IndexMap`: the keys in insertion order. -/
def Rust.IndexMap.keys {K V : Type} (m : Rust.IndexMap K V) : List K := m.map (·.1)

/-- `m.insert(k, v)` on an `IndexMap` (the map afterwards): the value replaced IN PLACE if the key is present, else the pair
appended. -/
def Rust.IndexMap.insert {K V : Type} [DecidableEq K] (m : Rust.IndexMap K V) (k : K) (v : V) : Rust.IndexMap K V :=
  match m with
  | [] => [(k, v)]
  | (k', v') :: rest => if k' = k then (k', v) :: rest else (k', v') :: Rust.IndexMap.insert rest k v

/-- `iter.collect::<IndexMap<K, V>>()`: `insert` of every pair, in order. -/
def Rust.IndexMap.collect {K V : Type} [DecidableEq K] (l : List (K × V)) : Rust.IndexMap K V :=
  l.foldl (fun m kv => Rust.IndexMap.insert m kv.1 kv.2) []

/-- `iter.collect::<HashMap<K, V>>()`: `insert` of every pair, in order (the last value of a key wins). -/
def Rust.Map.collect {K V : Type} [DecidableEq K] (l : List (K × V)) : Rust.Map K V :=
  l.foldl (fun m kv => Rust.Map.insert m kv.1 kv.2) []

/-- `v.dedup()`: consecutive repeated elements removed (the first of a run is kept; `PartialEq` of a fully translated type
is `=`). -/
def Rust.Vec.dedup {T : Type} [DecidableEq T] : List T → List T
  | [] => []
  | [a] => [a]
  | a :: b :: t => if a = b then Rust.Vec.dedup (b :: t) else a :: Rust.Vec.dedup (b :: t)

/-- barter-integration `OneOrMany<T>` (collection/one_or_many.rs): part of the FIXED vocabulary (not regenerated; the sub-check
C03N models the two collection types and ties them to the code). -/
inductive Rust.OneOrMany (T : Type) where
  | One (x : T)
  | Many (xs : List T)
  deriving DecidableEq, Repr

/-- `as_ref()` / `iter()` / `into_iter()` / `into_vec()`: the items in order. -/
def Rust.OneOrMany.to_list {T : Type} : Rust.OneOrMany T → List T
  | .One x => [x]
  | .Many xs => xs

/-- `OneOrMany::contains`. -/
def Rust.OneOrMany.contains {T : Type} [DecidableEq T] (c : Rust.OneOrMany T) (x : T) : Bool :=
  match c with
  | .One v => decide (v = x)
  | .Many vs => List.elem x vs

/-- `OneOrMany::from_iter`: exactly one item is `One`, anything else -- the EMPTY iterator too -- is `Many`. -/
def Rust.OneOrMany.from_iter {T : Type} : List T → Rust.OneOrMany T
  | [x] => .One x
  | xs => .Many xs

/-- barter-integration `NoneOneOrMany<T>` (collection/none_one_or_many.rs): fixed vocabulary like `OneOrMany`. -/
inductive Rust.NoneOneOrMany (T : Type) where
  | None
  | One (x : T)
  | Many (xs : List T)
  deriving DecidableEq, Repr

instance {T : Type} : Inhabited (Rust.NoneOneOrMany T) := ⟨.None⟩

def Rust.NoneOneOrMany.to_list {T : Type} : Rust.NoneOneOrMany T → List T
  | .None => []
  | .One x => [x]
  | .Many xs => xs

def Rust.NoneOneOrMany.is_none {T : Type} : Rust.NoneOneOrMany T → Bool
  | .None => true
  | _ => false

def Rust.NoneOneOrMany.contains {T : Type} [DecidableEq T] (c : Rust.NoneOneOrMany T) (x : T) : Bool :=
  List.elem x c.to_list

/-- `NoneOneOrMany::from(Vec)` = `from_iter`: by the number of items 0 / 1 / more. -/
def Rust.NoneOneOrMany.from_vec {T : Type} : List T → Rust.NoneOneOrMany T
  | [] => .None
  | [x] => .One x
  | xs => .Many xs

def Rust.NoneOneOrMany.from_iter {T : Type} (l : List T) : Rust.NoneOneOrMany T := Rust.NoneOneOrMany.from_vec l

def Rust.NoneOneOrMany.from_option {T : Type} : Option T → Rust.NoneOneOrMany T
  | none => .None
  | some x => .One x

/-- `NoneOneOrMany::extend(self, other)` arm by arm as in the source: NOTE `(One(left), Many(right))` pushes `left` LAST. -/
def Rust.NoneOneOrMany.extend {T : Type} (self : Rust.NoneOneOrMany T) (other : List T) : Rust.NoneOneOrMany T :=
  match self, Rust.NoneOneOrMany.from_iter other with
  | .None, right => right
  | left, .None => left
  | .One l, .One r => .Many [l, r]
  | .One l, .Many r => .Many (r ++ [l])
  | .Many l, .One r => .Many (l ++ [r])
  | .Many l, .Many r => .Many (l ++ r)

/-- itertools `partition_result()`: the `Ok` payloads and the `Err` payloads, each in the order of the iterator. -/
def Rust.Iter.partition_result {T E : Type} : List (Except E T) → List T × List E
  | [] => ([], [])
  | Except.ok x :: rest => ((x :: (Rust.Iter.partition_result rest).1), (Rust.Iter.partition_result rest).2)
  | Except.error e :: rest => ((Rust.Iter.partition_result rest).1, (e :: (Rust.Iter.partition_result rest).2))

/-- `iter.enumerate()` counting from `i`. -/
def Rust.Iter.enumerate_from {T : Type} (i : Nat) : List T → List (Nat × T)
  | [] => []
  | x :: xs => (i, x) :: Rust.Iter.enumerate_from (i + 1) xs

/-- `iter.enumerate()`: `(0, x0), (1, x1), ..`. -/
def Rust.Iter.enumerate {T : Type} (l : List T) : List (Nat × T) := Rust.Iter.enumerate_from 0 l

/-- `iter.position(p)`: the index of the first item satisfying `p`. -/
def Rust.Iter.position {T : Type} (p : T → Bool) : List T → Option Nat
  | [] => none
  | x :: xs => if p x then some 0 else (Rust.Iter.position p xs).map (· + 1)
"""


LEAN_RESERVED = set(LEAN_RESERVED) | {"meta"}      # (`meta` became a keyword of Lean 4; no item of the first three files uses it)


def lean_id(x):
    return f"«{x}»" if x in LEAN_RESERVED else x


# Lean globals the emitter writes unqualified: a Rust local of that name must not capture them
LEAN_CLASH = {"none", "some", "decide"}


# ------------------------------------------------------------------------------------------ source access

def split_impl_header(h):
    """`<A, B> Tr<..> for Ty<..> where ..` -> (generics, trait tokens | None, type tokens)"""
    toks = [v for _, v in tokenize(h)][:-1]
    i, gs = 0, []
    if toks and toks[0] == "<":
        d, i = 1, 1
        cur = []
        while i < len(toks) and d:
            v = toks[i]
            if v == "<":
                d += 1
            elif v == ">":
                d -= 1
                if d == 0:
                    break
            if d == 1 and v == ",":
                gs.append(cur)
                cur = []
            else:
                cur.append(v)
            i += 1
        if cur:
            gs.append(cur)
        i += 1
    first, second, d, cur = None, None, 0, []
    while i < len(toks):
        v = toks[i]
        if d == 0 and v == "where":
            break
        if d == 0 and v == "for":
            first, cur = cur, []
        else:
            d += v in ("<", "(", "[")
            d -= v in (">", ")", "]")
            cur.append(v)
        i += 1
    if first is None:
        return gs, None, cur
    return gs, first, cur


def spec_matches(spec, toks):
    """a container spec `Name` matches `Name` and `Name<..>`; `Name<Args>` matches only that (spaces ignored)"""
    spec = spec.replace(" ", "")
    have = "".join(toks)
    return have == spec or ("<" not in spec and (have.startswith(spec + "<")))


def find_container(text, container):
    """(lo, hi, impl generics, self type tokens) of the body of exactly one top-level `mod x` / `impl ..` block.
    container: `mod x` | `impl Type` (inherent impl) | `impl Trait for Type`; Type / Trait with or without `<..>`"""
    ck, rest = container.split(None, 1)
    if ck == "mod":
        hits = [m for m in re.finditer(r"\bmod\s+%s\s*\{" % re.escape(rest), text) if depth_at(text, 0, m.start()) == 0]
        if len(hits) != 1:
            raise Reject(f"expected exactly one top-level `{container} {{`, found {len(hits)}")
        return hits[0].end(), match_brace(text, hits[0].end() - 1), [], None
    want_trait, want_ty = (None, rest)
    if " for " in rest:
        want_trait, want_ty = [x.strip() for x in rest.split(" for ", 1)]
    found = []
    for m in re.finditer(r"\bimpl\b([^{;]*)\{", text):
        if depth_at(text, 0, m.start()) != 0:
            continue
        gs, tr, ty = split_impl_header(m.group(1))
        if (tr is None) != (want_trait is None):
            continue
        if tr is not None and not spec_matches(want_trait, tr):
            continue
        if spec_matches(want_ty, ty):
            found.append((m, gs, ty))
    if len(found) != 1:
        raise Reject(f"expected exactly one top-level `{container} {{`, found {len(found)}")
    m, gs, ty = found[0]
    for g in gs:
        if len(g) != 1:
            raise Reject(f"`{container}`: bound / lifetime on impl parameter `{' '.join(g)}` (only a `where` clause is accepted)")
    return m.end(), match_brace(text, m.end() - 1), [g[0] for g in gs], ty


def find_item(text, container, kind, name):
    """(start, end, impl generics, impl self type tokens) of exactly one item `kind name` directly inside the
    container (or at the file's top level); a struct may end with `;` (tuple / unit struct)"""
    lo, hi, gs, sty = 0, len(text), [], None
    if container:
        lo, hi, gs, sty = find_container(text, container)
    hits = [m for m in re.finditer(r"\b%s\s+%s\b" % (kind, re.escape(name)), text[lo:hi]) if depth_at(text, lo, lo + m.start()) == 0]
    if len(hits) != 1:
        raise Reject(f"expected exactly one `{kind} {name}` at {container or 'top level'}, found {len(hits)}")
    start = lo + hits[0].start()
    j = start
    while j < hi and text[j] not in "{;":
        j += 1
    if j >= hi:
        raise Reject(f"`{kind} {name}` has no body")
    if text[j] == ";":
        if kind != "struct":
            raise Reject(f"`{kind} {name}` has no body")
        return start, j + 1, gs, sty
    return start, match_brace(text, j) + 1, gs, sty


def impl_blocks(text):
    """every top-level `impl .. { .. }` block: (body lo, body hi, generics [token lists], trait tokens | None, type tokens)"""
    out = []
    for m in re.finditer(r"\bimpl\b([^{;]*)\{", text):
        if depth_at(text, 0, m.start()) != 0:
            continue
        gs, tr, ty = split_impl_header(m.group(1))
        out.append((m.end(), match_brace(text, m.end() - 1), gs, tr, ty))
    return out


def base_name(ty_toks):
    """`a::b::Name<..>` -> `Name`"""
    out = None
    for v in ty_toks:
        if v == "<":
            break
        if re.fullmatch(r"[A-Za-z_]\w*", v):
            out = v
    return out


def fn_spans(text, lo, hi, name):
    """(start, end) of every `fn name .. { .. }` directly inside text[lo:hi]"""
    out = []
    for m in re.finditer(r"\bfn\s+%s\b" % re.escape(name), text[lo:hi]):
        if depth_at(text, lo, lo + m.start()) != 0:
            continue
        start = lo + m.start()
        j = start
        while j < hi and text[j] not in "{;":
            j += 1
        if j < hi and text[j] == "{":
            out.append((start, match_brace(text, j) + 1))
    return out


class Ctx:
    """the table item being translated: auxiliary items found by lookup belong to its groups"""

    def __init__(self, groups, rel, container):
        self.groups, self.rel, self.container = list(groups), rel, container


def aux_translate(world, cont, name):
    """LOOKUP of a function / method that is called by a translated function but is not in the item table (typically a
    private helper extracted by a refactoring): it is searched in the file of the caller -- `cont` None: the caller's
    `mod`, then the file's top level; `cont` a translated type: every `impl` block of that type (also in the file that
    declares the type); otherwise `mod cont` of the file -- and translated on demand as an AUXILIARY item of the
    caller's group(s) (its source hash goes into the header, its definition into the group's simp set).
    Returns the key it is registered under, or None if there is no such function; raises Reject if it exists but is
    ambiguous / outside the accepted subset."""
    ctx = world.ctx
    if ctx is None:
        return None
    shown = (cont + "::" if cont else "") + name
    if (cont, name) in world.aux_failed:
        raise Reject(world.aux_failed[(cont, name)])
    if (cont, name) in world.aux_busy:
        raise Reject(f"recursive call of `{shown}`")
    cands = lookup_candidates(world, cont, name)
    if not cands:
        return None
    rel, a, b, gs, sty_toks, label, assoc_span = cands[0]
    where = f"{rel} :: " + (label + " :: " if label else "") + f"fn {name}"
    try:
        if len(cands) > 1:
            raise Reject(f"found {len(cands)} times")
        for g in gs:
            if len(g) != 1:
                raise Reject(f"`{label}`: bound / lifetime on impl parameter `{' '.join(g)}` (only a `where` clause is accepted)")
        world.aux_busy.add((cont, name))
        saved = world.ctx
        world.ctx = Ctx(ctx.groups, rel, label)
        try:
            raw, text = world.source(rel)
            out, sha, line = translate(world, text, raw, label, "fn", name, {}, loc=(a, b, [g[0] for g in gs], sty_toks, assoc_span))
        finally:
            world.ctx = saved
            world.aux_busy.discard((cont, name))
    except Reject as ex:
        msg = f"call of `{shown}`, which is not in the item table; looked up as {where}: {ex}"
        world.aux_failed[(cont, name)] = msg
        raise Reject(msg)
    lead = ""
    while out.startswith("-- "):
        c, out = out.split("\n", 1) if "\n" in out else (out, "")
        lead += c + "\n"
    if out:
        world.pending.append(f"{lead}/-- AUXILIARY item (not in the item table: found by lookup from a translated caller), generated from "
                             f"`{(label + ' :: ' if label else '')}fn {name}` ({rel}:{line}) -/\n{out}")
    else:
        world.pending.append(f"-- auxiliary `{(label + ' :: ' if label else '')}fn {name}` ({rel}:{line}) {lead[3:].rstrip()}")
    world.aux_header.append(f"    + auxiliary (by lookup): {where}  (line {line})  sha256[:16]={sha}")
    key = world.aux_key
    return key


def lookup_candidates(world, cont, name):
    """where a function / method `cont::name` that is not in the item table is defined (see aux_translate): a list of
    (file, start, end, impl generics [token lists], self type tokens | None, container label, span of the trait impl | None)"""
    ctx = world.ctx
    files = [ctx.rel]
    if cont is not None and world.item_file.get(cont) not in (None, ctx.rel):
        files.append(world.item_file[cont])
    cands = []
    for rel in files:
        raw, text = world.source(rel)
        if cont is None:
            if ctx.container and ctx.container.startswith("mod ") and rel == ctx.rel:
                lo, hi, _, _ = find_container(text, ctx.container)
                cands = [(rel, a, b, [], None, ctx.container, None) for a, b in fn_spans(text, lo, hi, name)]
            if not cands:
                cands = [(rel, a, b, [], None, None, None) for a, b in fn_spans(text, 0, len(text), name)]
        elif cont in world.structs or cont in world.enums:
            for lo, hi, gs, tr, ty in impl_blocks(text):
                if world.rn(base_name(ty)) == cont:
                    label = "impl " + ("".join(tr) + " for " if tr else "") + "".join(ty)
                    cands += [(rel, a, b, gs, ty, label, (lo, hi) if tr else None) for a, b in fn_spans(text, lo, hi, name)]
        else:
            hits = [m for m in re.finditer(r"\bmod\s+%s\s*\{" % re.escape(cont), text) if depth_at(text, 0, m.start()) == 0]
            if len(hits) == 1:
                lo, hi = hits[0].end(), match_brace(text, hits[0].end() - 1)
                cands = [(rel, a, b, [], None, "mod " + cont, None) for a, b in fn_spans(text, lo, hi, name)]
        if cands:
            break
    return cands


def attributes_before(text, start):
    """the `#[..]` attributes (comments are already blanked) and the visibility directly before the item that starts at
    `start`: (offset where they begin, [attribute texts])"""
    i = start
    attrs = []
    head = text[:i].rstrip()
    m = re.search(r"pub(\s*\([^()]*\))?$", head)
    if m:
        head = head[:m.start()].rstrip()
    while head.endswith("]"):
        d, j = 0, len(head) - 1
        while j >= 0:
            if head[j] == "]":
                d += 1
            elif head[j] == "[":
                d -= 1
                if d == 0:
                    break
            j -= 1
        if j < 1 or head[:j].rstrip()[-1:] != "#":
            break
        k = head[:j].rstrip().rfind("#")
        attrs.append(head[k:])
        head = head[:k].rstrip()
    return len(head), list(reversed(attrs))


def ensure_inhabited(world, t):
    """can the Lean type of `t` be given an `Inhabited` instance (needed where a panic, `Rust.unreachable`, stands for a whole
    state)?  The `deriving instance Inhabited for ..` lines for translated structs / enums are appended to world.pending
    once.  Conservative: a type parameter is never inhabited, a generic struct / enum only at inhabited arguments."""
    k = t[0]
    if k in SCALAR_LEAN or k in ("opt", "list", "map", "imap", "bag", "opaque", "seq", "noom", "pending"):
        return True
    if k == "lock":
        return ensure_inhabited(world, t[1])
    if k == "tuple":
        return all(ensure_inhabited(world, a) for a in t[1])
    if k == "res":
        return ensure_inhabited(world, t[2])
    if k in ("struct", "enum"):
        name = t[1]
        targs = t[2] if len(t) == 3 else ()
        if not all(ensure_inhabited(world, a) for a in targs):
            return False
        if name not in world.inhabited:
            world.inhabited[name] = False          # (recursive types: not inhabited by this rule)
            if k == "struct":
                st = world.structs[name]
                gen = {g: ("nat",) for g in st.generics}
                ok = all(ensure_inhabited(world, subst(ft, gen)) for _, ft in st.fields)      # (dropped fields are not in the Lean structure)
            else:
                en = world.enums[name]
                gen = {g: ("nat",) for g in en.generics}
                ok = any(all(ensure_inhabited(world, subst(ft, gen)) for _, ft in fs) for _, _, fs in en.variants)
            world.inhabited[name] = ok
            if ok and name != "Ordering":
                world.pending.append(f"deriving instance Inhabited for {ty_name(name)}")
        return world.inhabited[name]
    return False


def default_of(world, t):
    """Lean text of `<T as Default>::default()` for the types whose default the prelude fixes"""
    k = t[0]
    if k in ("dec", "nat", "int", "time", "delta"):
        return "0"
    if k == "bool":
        return "false"
    if k == "opt":
        return "none"
    if k == "list":
        return "[]"
    if k == "unit":
        return "()"
    if k == "tuple":
        return "(" + ", ".join(default_of(world, x) for x in t[1]) + ")"
    if k in ("struct", "enum"):
        fn = world.fns.get((t[1], "default"))
        if fn is None or fn.params or fn.mode != "none" or fn.externs or (k == "struct" and t[2]):
            raise Reject(f"default of `{ty_rust(t)}`: no translated `{t[1]}::default()`")
        return fn.lean
    raise Reject(f"default of a value of type {ty_rust(t)}")


# ------------------------------------------------------------------------------------------ parser (AST)

BLOCKLIKE = ("if", "iflet", "match", "block")
TRACING = ("error", "warn", "info", "debug", "trace")


class Parser:
    def __init__(self, toks):
        self.t, self.i = toks, 0

    def peek(self, k=0):
        return self.t[min(self.i + k, len(self.t) - 1)][1]

    def kind(self, k=0):
        return self.t[min(self.i + k, len(self.t) - 1)][0]

    def next(self):
        v = self.t[self.i][1]
        self.i += 1
        return v

    def eat(self, v):
        if self.peek() != v:
            raise Reject(f"expected `{v}` but found `{self.peek()}`")
        self.i += 1

    def ident(self):
        if self.kind() != "id":
            raise Reject(f"expected an identifier but found `{self.peek()}`")
        return self.next()

    def skip_attrs(self):
        self.last_attrs = []         # first identifier of every attribute skipped by this call (`from` of `#[from]`)
        while self.peek() == "#":
            self.next()
            self.eat("[")
            self.last_attrs.append(self.peek())
            d = 1
            while d:
                v = self.next()
                if v == "[":
                    d += 1
                elif v == "]":
                    d -= 1
                elif v == "<end>":
                    raise Reject("unterminated attribute")

    def skip_vis(self):
        if self.peek() == "pub":
            self.next()
            if self.peek() == "(":
                while self.next() != ")":
                    pass

    # -- types are collected as token lists and resolved later (so that unknown field types can be skipped)
    def type_tokens(self, stop):
        out, d = [], 0
        while True:
            v = self.peek()
            if v == "<end>":
                raise Reject("unterminated type")
            if d == 0 and v in stop:
                break
            if v in ("<", "(", "["):
                d += 1
            elif v in (">", ")", "]"):
                if d == 0:
                    break
                d -= 1
            out.append(self.next())
        if not out:
            raise Reject(f"missing type before `{self.peek()}`")
        return out

    def generics(self):
        gs = []
        self.inline_bounds = {}
        self.generic_defaults = {}       # type parameter -> tokens of its default type argument (`Context = EngineContext`)
        if self.peek() == "<":
            self.next()
            while self.peek() != ">":
                if self.peek() == "'":
                    self.next(); self.next()          # a lifetime parameter `'a`: says nothing about values
                    if self.peek() == ",":
                        self.next()
                    continue
                if self.peek() == "const":
                    raise Reject("const generic parameter")
                g = self.ident()
                if self.peek() == ":":
                    # an inline bound `<Item: Into<Self::Item>>`: kept like a clause of a `where` (fourth file; the first
                    # three files have none)
                    self.next()
                    bt, d = [], 0
                    while not (d == 0 and self.peek() in (",", ">", "=")):
                        x = self.next()
                        if x == "<end>":
                            raise Reject("unterminated generics")
                        d += x in ("<", "(", "[")
                        d -= x in (">", ")", "]")
                        bt.append(x)
                    self.inline_bounds.setdefault(g, []).append(bt)
                if self.peek() == "=":
                    # default type argument: irrelevant here, every use of the type must give all arguments
                    self.next()
                    self.generic_defaults[g] = self.type_tokens({","})
                gs.append(g)
                if self.peek() == ",":
                    self.next()
            self.eat(">")
        return gs

    # -- items
    def struct(self):
        """(name, generics, tuple?, [(field, type tokens)])"""
        self.eat("struct")
        name = self.ident()
        gs = self.generics()
        if self.peek() == "where":
            raise Reject(f"struct `{name}`: where clause")
        fields = []
        if self.peek() == "(":
            self.next()
            k = 0
            while self.peek() != ")":
                self.skip_attrs()
                self.skip_vis()
                fields.append((f"f{k}", self.type_tokens({","})))
                k += 1
                if self.peek() == ",":
                    self.next()
            self.eat(")")
            self.eat(";")
            return name, gs, True, fields
        if self.peek() == ";":
            self.next()
            return name, gs, False, []
        if self.peek() != "{":
            raise Reject(f"struct `{name}`: `{self.peek()}`")
        self.eat("{")
        while self.peek() != "}":
            self.skip_attrs()
            self.skip_vis()
            f = self.ident()
            self.eat(":")
            fields.append((f, self.type_tokens({",", "}"})))
            if self.peek() == ",":
                self.next()
            elif self.peek() != "}":
                raise Reject(f"struct `{name}`: `{self.peek()}` after field `{f}`")
        self.eat("}")
        return name, gs, False, fields

    def enum(self):
        """(name, [(variant, shape, [(field, type tokens)])])   shape: unit | tuple | struct"""
        self.eat("enum")
        name = self.ident()
        self.enum_generics = self.generics()
        self.enum_defaults = dict(self.generic_defaults)
        self.enum_from = set()       # variants whose one field carries `#[from]` (thiserror / derive_more): `From<Field> for Enum`
        if self.peek() != "{":
            raise Reject(f"enum `{name}`: where clause")
        self.eat("{")
        variants = []
        while self.peek() != "}":
            self.skip_attrs()
            v = self.ident()
            fields, shape = [], "unit"
            if self.peek() == "(":
                shape = "tuple"
                self.next()
                k = 0
                while self.peek() != ")":
                    self.skip_attrs()
                    if "from" in self.last_attrs:
                        self.enum_from.add(v)
                    fields.append((f"f{k}", self.type_tokens({","})))
                    k += 1
                    if self.peek() == ",":
                        self.next()
                self.eat(")")
            elif self.peek() == "{":
                shape = "struct"
                self.next()
                while self.peek() != "}":
                    self.skip_attrs()
                    f = self.ident()
                    self.eat(":")
                    fields.append((f, self.type_tokens({",", "}"})))
                    if self.peek() == ",":
                        self.next()
                self.eat("}")
            if self.peek() == "=":
                raise Reject(f"enum `{name}`: explicit discriminant on `{v}`")
            variants.append((v, shape, fields))
            if self.peek() == ",":
                self.next()
            elif self.peek() != "}":
                raise Reject(f"enum `{name}`: `{self.peek()}` after variant `{v}`")
        self.eat("}")
        if not variants:
            raise Reject(f"enum `{name}` has no variants")
        return name, variants

    def fn(self, sig_only=False):
        """(name, generics, self mode, [(param, mut, type tokens)], ret type tokens | None, body block)
        sig_only: the body is not parsed (None): used for `extern` items, of which only the signature is read"""
        self.eat("fn")
        name = self.ident()
        gs = self.generics()
        self.eat("(")
        mode, params = "none", []
        first = True
        while self.peek() != ")":
            if first and self.peek() == "&" and self.peek(1) == "self":
                self.next(); self.next()
                mode = "ref"
            elif first and self.peek() == "&" and self.peek(1) == "mut" and self.peek(2) == "self":
                self.next(); self.next(); self.next()
                mode = "mut"
            elif first and self.peek() == "&" and self.peek(1) == "'" and self.peek(3) == "self":
                self.next(); self.next(); self.next(); self.next()
                mode = "ref"              # `&'a self`
            elif first and self.peek() == "&" and self.peek(1) == "'" and self.peek(3) == "mut" and self.peek(4) == "self":
                self.next(); self.next(); self.next(); self.next(); self.next()
                mode = "mut"              # `&'a mut self`
            elif first and self.peek() == "&" and self.peek(1) == "'":
                raise Reject("lifetime on the receiver")
            elif first and (self.peek() == "self" or (self.peek() == "mut" and self.peek(1) == "self")):
                # receiver by value: `self` is an ordinary (mutable, if `mut self`) local of the body
                mode = "ownmut" if self.next() == "mut" else "own"
                if mode == "ownmut":
                    self.next()
                if self.peek() == ":":
                    raise Reject("typed receiver `self: ..`")
            else:
                mut = False
                if self.peek() == "mut":
                    self.next()
                    mut = True
                if self.kind() != "id" or self.peek(1) != ":":
                    raise Reject(f"parameter pattern starting `{self.peek()} {self.peek(1)}` (only `x: Ty`)")
                p = self.ident()
                self.eat(":")
                params.append((p, mut, self.type_tokens({","})))
            first = False
            if self.peek() == ",":
                self.next()
            elif self.peek() != ")":
                raise Reject(f"`{self.peek()}` in the parameter list")
        self.eat(")")
        ret = None
        if self.peek() == "->":
            self.next()
            ret = self.type_tokens({"where", "{"})
        self.where_into = {}
        self.where_from = {}         # `T: From<U>`: type parameter -> tokens of U (what `T::from(x)` converts from)
        self.where_bounds = {}       # type parameter -> [tokens of each bound `Trait<Args, Name = Ty>`]
        self.where_type_from = []    # `Type<..>: From<U>` on a NON-parameter type: (tokens of the type, tokens of U)
        for g, bts in getattr(self, "inline_bounds", {}).items():
            for bt in bts:
                d, cur, parts = 0, [], []
                for x in bt:
                    d += x in ("<", "(", "[")
                    d -= x in (">", ")", "]")
                    if x == "+" and d == 0:
                        parts.append(cur)
                        cur = []
                    else:
                        cur.append(x)
                parts.append(cur)
                for b in parts:
                    if len(b) > 3 and b[0] == "Into" and b[1] == "<" and b[-1] == ">":
                        self.where_into[g] = b[2:-1]
                    elif len(b) > 3 and b[0] == "From" and b[1] == "<" and b[-1] == ">":
                        self.where_from.setdefault(g, []).append(b[2:-1])
                    if b:
                        self.where_bounds.setdefault(g, []).append(b)
        if self.peek() == "where":
            # bounds of generic parameters only say which operators T has; skipped -- except `T: Into<U>`, which says
            # what `x.into()` of a value of the type parameter T is: the explicit conversion parameter `T_into : T -> U`
            self.next()
            wt = []
            while self.peek() not in ("{", "<end>"):
                wt.append(self.next())
            d, cur, clauses = 0, [], []
            for x in wt:
                if x in ("<", "(", "["):
                    d += 1
                elif x in (">", ")", "]"):
                    d -= 1
                if x == "," and d == 0:
                    clauses.append(cur)
                    cur = []
                else:
                    cur.append(x)
            if cur:
                clauses.append(cur)
            for cl in clauses:
                if len(cl) > 4 and cl[1] == "<" and re.fullmatch(r"[A-Z]\w*", cl[0]):
                    # `Type<..>: From<U>`: a bound on a type that is not a parameter
                    d, j = 0, 0
                    for j, x in enumerate(cl):
                        d += x in ("<", "(", "[")
                        d -= x in (">", ")", "]")
                        if d == 0 and j > 0:
                            break
                    rest = cl[j + 1:]
                    if len(rest) > 4 and rest[0] == ":" and rest[1] == "From" and rest[2] == "<" and rest[-1] == ">":
                        self.where_type_from.append((cl[:j + 1], rest[3:-1]))
                    continue
                if len(cl) >= 3 and cl[1] == ":" and re.fullmatch(r"[A-Za-z_]\w*", cl[0]):
                    d, cur, bounds = 0, [], []
                    for x in cl[2:]:
                        if x in ("<", "(", "["):
                            d += 1
                        elif x in (">", ")", "]"):
                            d -= 1
                        if x == "+" and d == 0:
                            bounds.append(cur)
                            cur = []
                        else:
                            cur.append(x)
                    bounds.append(cur)
                    for b in bounds:
                        if len(b) > 3 and b[0] == "Into" and b[1] == "<" and b[-1] == ">":
                            self.where_into[cl[0]] = b[2:-1]
                        elif len(b) > 3 and b[0] == "From" and b[1] == "<" and b[-1] == ">":
                            self.where_from.setdefault(cl[0], []).append(b[2:-1])
                        if b:
                            self.where_bounds.setdefault(cl[0], []).append(b)
        if sig_only:
            if self.peek() != "{":
                raise Reject(f"`{self.peek()}` where the function body should start")
            return name, gs, mode, params, ret, None
        body = self.block()
        if self.kind() != "eof":
            raise Reject(f"`{self.peek()}` after the function body")
        return name, gs, mode, params, ret, body

    # -- blocks and statements
    def block(self):
        """`{ stmt* tail? }` -> ("block", [stmt], tail | None)"""
        self.eat("{")
        stmts, tail = [], None
        while self.peek() != "}":
            if tail is not None:
                raise Reject(f"`{self.peek()}` after a block's tail expression")
            v = self.peek()
            if v == ";":
                self.next()
                continue
            if v == "let":
                stmts.append(self.let())
                continue
            if v == "use":
                self.next()
                segs = [self.ident()]
                while self.peek() == "::":
                    self.next()
                    if self.peek() == "*":
                        self.next()
                        segs.append("*")
                        break
                    segs.append(self.ident())
                if segs[-1] != "*" or self.peek() != ";":
                    raise Reject("`use` inside a function body other than `use Enum::*;`")
                self.next()
                stmts.append(("use", segs[:-1]))
                continue
            if self.kind() == "id" and v in TRACING and self.peek(1) == "!" and self.peek(2) in ("(", "[", "{"):
                # tracing macros only log: no effect on state or result
                self.next(); self.next()
                d = 0
                while True:
                    x = self.next()
                    if x in ("(", "[", "{"):
                        d += 1
                    elif x in (")", "]", "}"):
                        d -= 1
                        if d == 0:
                            break
                    elif x == "<end>":
                        raise Reject(f"unterminated `{v}!`")
                if self.peek() == ";":
                    self.next()
                elif self.peek() != "}":
                    raise Reject(f"`{self.peek()}` after `{v}!(..)`")
                continue
            if self.kind() == "id" and v in ("assert", "assert_eq", "assert_ne", "debug_assert", "debug_assert_eq") and self.peek(1) == "!" \
                    and self.peek(2) == "(":
                # `assert!(c)` / `assert_eq!(a, b)`: a panic unless the condition holds (an optional message is skipped)
                if v.startswith("debug_"):
                    raise Reject(f"`{v}!` (only checked in debug builds)")
                self.next(); self.next()
                self.eat("(")
                c = self.expr()
                if v != "assert":
                    self.eat(",")
                    c = ("bin", "==" if v == "assert_eq" else "!=", c, self.expr())
                d = 1
                while d:
                    x = self.next()
                    d += x in ("(", "[", "{")
                    d -= x in (")", "]", "}")
                    if x == "<end>":
                        raise Reject(f"unterminated `{v}!`")
                if self.peek() == ";":
                    self.next()
                elif self.peek() != "}":
                    raise Reject(f"`{self.peek()}` after `{v}!(..)`")
                stmts.append(("expr", ("assert", c)))
                continue
            if v in ("fn", "struct", "enum", "impl", "const", "static", "type", "mod", "trait"):
                raise Reject(f"`{v}` item inside a function body")
            if v == "for":
                # `for x in <iterator> { .. }`: accepted by the compiler only over `<map place>.values_mut()` (PRELUDE3)
                self.next()
                pat = self.pattern()
                if self.peek() != "in":
                    raise Reject("`for` without `in`")
                self.next()
                it = self.expr(ns=True)
                stmts.append(("expr", ("for", pat, it, self.block())))
                continue
            if v in ("while", "loop"):
                raise Reject(f"`{v}` loop")
            if v == "#":
                raise Reject("attribute inside a function body")
            e = self.expr_stmt()
            if self.peek() == ";":
                self.next()
                stmts.append(("expr", e))
            elif self.peek() == "}":
                tail = e
            elif e[0] in BLOCKLIKE:
                stmts.append(("expr", e))
            else:
                raise Reject(f"`{self.peek()}` after an expression")
        self.eat("}")
        return ("block", stmts, tail)

    def let(self):
        self.eat("let")
        p = self.pattern()
        ann = None
        if self.peek() == ":":
            self.next()
            ann = self.type_tokens({"="})
        if self.peek() != "=":
            raise Reject("`let` without an initialiser")
        self.eat("=")
        init = self.expr()
        els = None
        if self.peek() == "else":
            self.next()
            els = self.block()
        self.eat(";")
        return ("let", p, ann, init, els)

    ASSIGN = ("=", "+=", "-=", "*=", "/=")

    def expr_stmt(self):
        e = self.expr()
        if self.peek() in self.ASSIGN:
            op = self.next()
            return ("assign", e, op, self.expr())
        if self.peek() in ("%=", "^=", "|=", "&="):
            raise Reject(f"operator `{self.peek()}`")
        return e

    # -- patterns
    def pattern_or(self):
        """a sub-pattern, which may be an or-pattern `p | q` (-> ("por", [p, q]); written out as top-level alternatives
        by the compiler: expand_or)"""
        ps = [self.pattern()]
        while self.peek() == "|":
            self.next()
            ps.append(self.pattern())
        return ps[0] if len(ps) == 1 else ("por", ps)

    def pattern(self):
        v = self.peek()
        if v == "_":
            self.next()
            return ("pwild",)
        if v == "&":
            raise Reject("reference pattern `&..`")
        if v == "(":
            self.next()
            ps = []
            while self.peek() != ")":
                ps.append(self.pattern_or())
                if self.peek() == ",":
                    self.next()
            self.eat(")")
            return ("ptuple", ps)
        if self.kind() == "num" or v == "-":
            raise Reject("literal pattern")
        mut = False
        if v == "mut":
            self.next()
            mut = True
        if v == "ref":
            raise Reject("`ref` pattern")
        name = self.ident()
        if name in ("true", "false"):
            return ("pbool", name)
        segs = [name]
        while self.peek() == "::":
            self.next()
            segs.append(self.ident())
        if self.peek() == "@":
            raise Reject("`@` pattern")
        if self.peek() == "(":
            self.next()
            ps = []
            while self.peek() != ")":
                ps.append(self.pattern_or())
                if self.peek() == ",":
                    self.next()
            self.eat(")")
            return ("pctor", segs, ps)
        if self.peek() == "{" and (len(segs) > 1 or segs[0][0].isupper()):
            self.next()
            fps, rest = [], False
            while self.peek() != "}":
                if self.peek() == ".":
                    self.next(); self.eat(".")
                    rest = True
                    break
                f = self.ident()
                if self.peek() == ":":
                    self.next()
                    fps.append((f, self.pattern_or()))
                else:
                    fps.append((f, ("pbind", f, False)))
                if self.peek() == ",":
                    self.next()
            self.eat("}")
            return ("pstruct", segs, fps, rest)
        if len(segs) == 1 and not segs[0][0].isupper():
            return ("pbind", name, mut)
        if mut:
            raise Reject("`mut` before a path pattern")
        return ("ppath", segs)

    # -- expressions
    def expr(self, ns=False):
        return self.p_or(ns)

    def p_or(self, ns):
        e = self.p_and(ns)
        while self.peek() == "||":
            self.next()
            e = ("bin", "||", e, self.p_and(ns))
        return e

    def p_and(self, ns):
        e = self.p_cmp(ns)
        while self.peek() == "&&":
            self.next()
            e = ("bin", "&&", e, self.p_cmp(ns))
        return e

    CMP = ("==", "!=", "<", "<=", ">", ">=")

    def p_cmp(self, ns):
        e = self.p_bit(ns)
        if self.peek() in self.CMP:
            op = self.next()
            f = self.p_bit(ns)
            if self.peek() in self.CMP:
                raise Reject("chained comparison")
            return ("bin", op, e, f)
        return e

    def p_bit(self, ns):
        e = self.p_add(ns)
        if self.peek() in ("|", "^", "&"):
            raise Reject(f"bit operator `{self.peek()}`")
        return e

    def p_add(self, ns):
        e = self.p_mul(ns)
        while self.peek() in ("+", "-"):
            op = self.next()
            e = ("bin", op, e, self.p_mul(ns))
        return e

    def p_mul(self, ns):
        e = self.p_cast(ns)
        while self.peek() in ("*", "/", "%"):
            op = self.next()
            e = ("bin", op, e, self.p_cast(ns))
        return e

    def p_cast(self, ns):
        e = self.p_unary(ns)
        while self.peek() == "as":
            self.next()
            e = ("cast", e, [self.ident()])
        return e

    def p_unary(self, ns):
        v = self.peek()
        if v in ("-", "!", "*"):
            self.next()
            return ("un", v, self.p_unary(ns))
        if v == "&":
            self.next()
            if self.peek() == "mut":
                # accepted by the compiler only as `let Some(x) = &mut <place> else { .. };`
                self.next()
                return ("mutref", self.p_unary(ns))
            return ("un", "&", self.p_unary(ns))
        if v == "&&":
            raise Reject("`&&` borrow")
        return self.p_postfix(ns)

    def args(self, what):
        self.eat("(")
        out = []
        while self.peek() != ")":
            if self.peek() == "move" and self.peek(1) in ("|", "||"):
                self.next()              # captures by value instead of by reference: the same value (references are values)
            if self.peek() in ("|", "||"):
                out.append(self.closure())
            else:
                out.append(self.expr())
            if self.peek() == ",":
                self.next()
            elif self.peek() != ")":
                raise Reject(f"`{self.peek()}` in the argument list of `{what}`")
        self.eat(")")
        return out

    def closure(self):
        """`|x| e` / `|| e` as a call argument -> ("closure", param | None, body); accepted by the compiler only as the
        argument of a few Option combinators"""
        if self.next() == "||":
            param = None
        else:
            params = []
            while True:
                if self.peek() == "(":
                    param = self.pattern()
                    if not (param[0] == "ptuple" and all(q[0] in ("pbind", "pwild") and not (q[0] == "pbind" and q[2]) for q in param[1])):
                        raise Reject("closure parameter pattern other than `|x|` / `|(a, b)|`")
                elif self.peek() == "_":
                    self.next()
                    param = ("pwild",)
                elif self.peek() in ("&", "mut") or self.kind() != "id":
                    raise Reject(f"closure parameter pattern starting `{self.peek()}` (only `|x|` / `|(a, b)|`)")
                else:
                    param = self.ident()
                if self.peek() == ":":
                    # a typed parameter `|x: &T|`: the annotation is skipped (the type comes from where the closure is used)
                    self.next()
                    self.type_tokens({",", "|"})
                params.append(param)
                if self.peek() == ",":
                    self.next()          # several parameters `|acc, x|` (fourth file: `fold`): a LIST of parameters
                    continue
                break
            param = params[0] if len(params) == 1 else params
            self.eat("|")
        if self.peek() == "->":
            raise Reject("closure with a return type")
        return ("closure", param, self.expr())

    def p_postfix(self, ns):
        e = self.p_primary(ns)
        while True:
            v = self.peek()
            if v == ".":
                self.next()
                if self.peek() == ".":
                    raise Reject("range `..`")
                if self.kind() == "num":
                    n = self.next()
                    if not n.isdigit():
                        raise Reject(f"tuple field access `.{n}`")
                    e = ("field", e, n)
                    continue
                name = self.ident()
                if name == "await":
                    raise Reject("`.await`")
                if self.peek() == "::" and name == "collect" and self.peek(1) == "<":
                    # `.collect::<Vec<_>>()`: the target collection (fourth file); kept as a pseudo argument
                    self.next(); self.next()
                    tt, d = [], 1
                    while True:
                        x = self.next()
                        if x == "<end>":
                            raise Reject("unterminated turbofish")
                        d += x == "<"
                        d -= x == ">"
                        if d == 0:
                            break
                        tt.append(x)
                    self.eat("(")
                    self.eat(")")
                    e = ("mcall", e, "collect", [("tyarg", tt)])
                    continue
                if self.peek() == "::":
                    raise Reject(f"turbofish on `.{name}`")
                if name == "expect" and self.peek() == "(" and self.peek(1) == '"' and self.peek(2) == '"' and self.peek(3) == ")":
                    # `.expect("message")`: the message only labels the panic
                    self.next(); self.next(); self.next(); self.next()
                    e = ("mcall", e, "expect", [])
                elif self.peek() == "(":
                    e = ("mcall", e, name, self.args("." + name))
                else:
                    e = ("field", e, name)
            elif v == "?":
                self.next()
                e = ("try", e)
            elif v == "[":
                raise Reject("indexing `[..]`")
            else:
                return e

    def p_primary(self, ns):
        v, k = self.peek(), self.kind()
        if v == "(":
            self.next()
            if self.peek() == ")":
                self.next()
                return ("unit",)
            e = self.expr()
            if self.peek() == ",":
                es = [e]
                while self.peek() == ",":
                    self.next()
                    if self.peek() != ")":
                        es.append(self.expr())
                self.eat(")")
                return ("tuple", es)
            self.eat(")")
            return e
        if k == "num":
            self.next()
            return ("num", v)
        if v == "if":
            return self.p_if()
        if v == "match":
            return self.p_match()
        if v == "{":
            return self.block()
        if v == "return":
            self.next()
            if self.peek() in (";", "}", ","):
                return ("return", None)
            return ("return", self.expr())
        if v in ("loop", "while", "for", "unsafe", "async", "move", "|", "||", "break", "continue", "let", "'", '"'):
            raise Reject(f"`{v}` expression" if v != '"' else "string literal")
        if k != "id":
            raise Reject(f"unexpected `{v}`")
        segs = [self.next()]
        while self.peek() == "::":
            self.next()
            if self.peek() == "<":
                raise Reject("turbofish `::<..>`")
            segs.append(self.ident())
        shown = "::".join(segs)
        if self.peek() == "!" and self.peek(1) in ("(", "[", "{"):
            if shown in ("unreachable", "panic"):
                self.next()
                d = 0
                while True:
                    x = self.next()
                    if x in ("(", "[", "{"):
                        d += 1
                    elif x in (")", "]", "}"):
                        d -= 1
                        if d == 0:
                            break
                    elif x == "<end>":
                        raise Reject(f"unterminated `{shown}!`")
                return ("panic", shown)
            if shown == "format" and self.peek(1) == "(":
                # `format!("template", a, b)`: the template text is not modelled, the value is the list of its arguments
                self.next()
                self.eat("(")
                if not (self.peek() == '"' and self.peek(1) == '"'):
                    raise Reject("`format!` whose first argument is not a string literal")
                self.next(); self.next()
                fargs = []
                while self.peek() == ",":
                    self.next()
                    if self.peek() == ")":
                        break
                    if self.kind() == "id" and self.peek(1) == "=":
                        raise Reject("named argument in `format!`")
                    fargs.append(self.expr())
                self.eat(")")
                return ("format", fargs)
            if shown == "matches" and self.peek(1) == "(":
                # `matches!(e, p | q if g)` is by definition `match e { p | q if g => true, _ => false }`
                self.next()
                self.eat("(")
                scrut = self.expr()
                self.eat(",")
                pats = [self.pattern()]
                while self.peek() == "|":
                    self.next()
                    pats.append(self.pattern())
                guard = None
                if self.peek() == "if":
                    self.next()
                    guard = self.expr()
                if self.peek() == ",":
                    self.next()
                self.eat(")")
                return ("match", scrut, [(pats, guard, ("block", [], ("path", ["true"]))),
                                         ([("pwild",)], None, ("block", [], ("path", ["false"])))])
            raise Reject(f"macro `{shown}!`")
        if self.peek() == "(":
            return ("call", segs, self.args(shown))
        if self.peek() == "{" and not ns and (segs[-1][0].isupper()):
            self.next()
            fs = []
            while self.peek() != "}":
                if self.peek() == ".":
                    raise Reject("struct update syntax `..`")
                f = self.ident()
                if self.peek() == ":":
                    self.next()
                    fs.append((f, self.expr()))
                else:
                    fs.append((f, ("path", [f])))
                if self.peek() == ",":
                    self.next()
                elif self.peek() != "}":
                    raise Reject(f"`{self.peek()}` in a struct literal")
            self.eat("}")
            return ("structlit", segs, fs)
        return ("path", segs)

    def p_if(self):
        self.eat("if")
        if self.peek() == "let":
            self.next()
            p = self.pattern()
            self.eat("=")
            e = self.expr(ns=True)
            if self.peek() == "&&":
                raise Reject("`if let` chain")
            a = self.block()
            b = self.p_else()
            return ("iflet", p, e, a, b)
        c = self.expr(ns=True)
        a = self.block()
        return ("if", c, a, self.p_else())

    def p_else(self):
        if self.peek() != "else":
            return None
        self.next()
        if self.peek() == "if":
            return ("block", [], self.p_if())
        return self.block()

    def p_match(self):
        self.eat("match")
        s = self.expr(ns=True)
        self.eat("{")
        arms = []
        while self.peek() != "}":
            if self.peek() == "|":
                self.next()
            pats = [self.pattern()]
            while self.peek() == "|":
                self.next()
                pats.append(self.pattern())
            guard = None
            if self.peek() == "if":
                self.next()
                guard = self.expr(ns=True)
            self.eat("=>")
            if self.peek() == "{":
                body = self.block()
                if self.peek() == ",":
                    self.next()
            else:
                body = ("block", [], self.expr_stmt())
                if self.peek() == ",":
                    self.next()
                elif self.peek() != "}":
                    raise Reject(f"`{self.peek()}` after a match arm")
            arms.append((pats, guard, body))
        self.eat("}")
        return ("match", s, arms)


# ------------------------------------------------------------------------------------------ types / world

NAT, INT, DEC, BOOL, UNIT, TIME, DELTA, HOLE, INTLIT = ("nat",), ("int",), ("dec",), ("bool",), ("unit",), ("time",), ("delta",), ("hole",), ("intlit",)
STR = ("str",)     # `String`: the values formatted into it (PRELUDE3: `Rust.Str`); only built by `format!`, stored and moved
IDSTR = ("idstr",)  # the text of an identifier (`n.to_smolstr()` of a u64, `id.0` of an opaque identifier type): Nat, like the opaque types
F64 = ("f64",)     # uninterpreted: only stored, copied and handed to extern functions (no arithmetic, no comparison)
SCALAR_LEAN = {"nat": "Nat", "int": "Int", "dec": "Rat", "bool": "Bool", "unit": "Unit", "time": "Int", "delta": "Int", "f64": "F64",
               "str": "Rust.Str", "idstr": "Nat"}
SCALAR_RUST = {"nat": "u64", "int": "i64", "dec": "Decimal", "bool": "bool", "unit": "()", "time": "DateTime<Utc>", "delta": "TimeDelta",
               "hole": "_", "intlit": "{integer}", "f64": "f64", "str": "String", "idstr": "SmolStr"}


# Types added for the map vocabulary (PRELUDE3):
#   ("map", K, V) `HashMap` / `FnvHashMap`      ("imap", K, V) `IndexMap` / `FnvIndexMap`      ("bag", V) what `values()` yields
#   ("entry" | "occ" | "vac", K, V, place) the Entry API; `place` = (root variable, (fields..)) is the map the handle borrows
#   ("enum", Name, (args..)) an instance of a GENERIC enum (a non-generic enum stays the pair ("enum", Name))
MAPLIKE = ("map", "imap")
ENTRYLIKE = ("entry", "occ", "vac")
# names of enum variants translated so far: inside `def E.f ..` Lean opens the namespace `E`, where a variant `E.Open` would
# capture a translated TYPE of the same name (`Open`); such type names are written with their full name
VARIANT_NAMES = set()
FULL = "_root_.BarterModel.Generated.Machines."


def ty_name(n):
    return FULL + n if n in VARIANT_NAMES else n


def ty_lean(t):
    k = t[0]
    if k in SCALAR_LEAN:
        return SCALAR_LEAN[k]
    if k == "map":
        return f"Rust.Map {ty_atom(t[1])} {ty_atom(t[2])}"
    if k == "imap":
        return f"Rust.IndexMap {ty_atom(t[1])} {ty_atom(t[2])}"
    if k == "bag":
        return f"Rust.Bag {ty_atom(t[1])}"
    if k in ("seq", "pending"):
        return f"List {ty_atom(t[1])}"
    if k == "fn":
        return " → ".join([ty_atom(a) for a in t[1]] + [ty_atom(t[2])]) if t[1] else f"Unit → {ty_atom(t[2])}"
    if k == "oom":
        return f"Rust.OneOrMany {ty_atom(t[1])}"
    if k == "noom":
        return f"Rust.NoneOneOrMany {ty_atom(t[1])}"
    if k == "entry":
        return f"Rust.Entry {ty_atom(t[1])} {ty_atom(t[2])}"
    if k == "occ":
        return f"Rust.OccupiedEntry {ty_atom(t[1])} {ty_atom(t[2])}"
    if k == "vac":
        return f"Rust.VacantEntry {ty_atom(t[1])}"
    if k == "enum" and len(t) == 3:
        return " ".join([ty_name(t[1])] + [ty_atom(a) for a in t[2]])
    if k == "opt":
        # (a translated enum may have a VARIANT named `Option`: inside `def E.f ..` Lean would read `Option` as `E.Option`)
        return ("_root_.Option" if "Option" in VARIANT_NAMES else "Option") + f" {ty_atom(t[1])}"
    if k == "res":
        return f"Except {ty_atom(t[2])} {ty_atom(t[1])}"
    if k == "struct":
        return " ".join([ty_name(t[1])] + [ty_atom(a) for a in t[2]])
    if k in ("enum", "opaque"):
        return ty_name(t[1])
    if k == "tvar":
        return t[1]
    if k == "list":
        return f"List {ty_atom(t[1])}"
    if k == "lock":
        return ty_lean(t[1])          # `RwLock<T>` is transparent (PRELUDE2): a single owner is modelled
    if k == "tuple":
        return " × ".join(ty_atom(a) for a in t[1])
    if t == HOLE:
        return "_"       # not determined by the translator: left to Lean's elaborator (only below the top of a `let` type)
    raise Reject(f"type {ty_rust(t)} cannot be written in Lean (not determined)")


def ty_atom(t):
    s = ty_lean(t)
    return f"({s})" if " " in s else s


def ty_rust(t):
    k = t[0]
    if k in SCALAR_RUST:
        return SCALAR_RUST[k]
    if k == "opt":
        return f"Option<{ty_rust(t[1])}>"
    if k == "res":
        return f"Result<{ty_rust(t[1])}, {ty_rust(t[2])}>"
    if k == "struct":
        return t[1] + (("<" + ", ".join(ty_rust(a) for a in t[2]) + ">") if t[2] else "")
    if k == "tuple":
        return "(" + ", ".join(ty_rust(a) for a in t[1]) + ")"
    if k == "list":
        return f"Vec<{ty_rust(t[1])}>"
    if k == "lock":
        return f"RwLock<{ty_rust(t[1])}>"
    if k in MAPLIKE:
        return ("HashMap" if k == "map" else "IndexMap") + f"<{ty_rust(t[1])}, {ty_rust(t[2])}>"
    if k in ("bag", "seq", "pending"):
        return f"impl Iterator<Item = {ty_rust(t[1])}>"
    if k == "fn":
        return "Fn(" + ", ".join(ty_rust(a) for a in t[1]) + f") -> {ty_rust(t[2])}"
    if k in ("oom", "noom"):
        return ("OneOrMany" if k == "oom" else "NoneOneOrMany") + f"<{ty_rust(t[1])}>"
    if k in ENTRYLIKE:
        return {"entry": "Entry", "occ": "OccupiedEntry", "vac": "VacantEntry"}[k] + f"<{ty_rust(t[1])}, {ty_rust(t[2])}>"
    if k == "enum" and len(t) == 3:
        return t[1] + "<" + ", ".join(ty_rust(a) for a in t[2]) + ">"
    return t[1]


def ty_children(t):
    """the component types of a type constructor added for the map vocabulary / generic enums (None: not one of them)"""
    if t[0] == "fn":
        return list(t[1]) + [t[2]]            # (fourth file) `Fn(A, B) -> R`: a pure function value
    if t[0] in ("pending", "oom", "noom"):
        return [t[1]]                         # (fourth file) pending `collect()`; barter-integration `OneOrMany` / `NoneOneOrMany`
    if t[0] in MAPLIKE or t[0] in ENTRYLIKE:
        return [t[1], t[2]]
    if t[0] in ("bag", "seq"):
        return [t[1]]
    if t[0] == "enum" and len(t) == 3:
        return list(t[2])
    return None


def ty_rebuild(t, cs):
    if t[0] == "fn":
        return ("fn", tuple(cs[:-1]), cs[-1])
    if t[0] in ("pending", "oom", "noom"):
        return (t[0], cs[0])
    if t[0] in MAPLIKE:
        return (t[0], cs[0], cs[1])
    if t[0] in ENTRYLIKE:
        return (t[0], cs[0], cs[1], t[3])
    if t[0] in ("bag", "seq"):
        return (t[0], cs[0])
    return ("enum", t[1], tuple(cs))


def has_hole(t):
    if t in (HOLE, INTLIT):
        return True
    if ty_children(t) is not None:
        return any(has_hole(a) for a in ty_children(t))
    if t[0] in ("opt", "list", "lock"):
        return has_hole(t[1])
    if t[0] == "res":
        return has_hole(t[1]) or has_hole(t[2])
    if t[0] == "struct":
        return any(has_hole(a) for a in t[2])
    if t[0] == "tuple":
        return any(has_hole(a) for a in t[1])
    return False


def unify(a, b):
    """most specific common type of a and b (HOLE matches anything, INTLIT matches u64 / i64); None if none"""
    if a == b:
        return a
    if a == HOLE:
        return b
    if b == HOLE:
        return a
    if a == INTLIT:
        return b if b in (NAT, INT) else None
    if b == INTLIT:
        return a if a in (NAT, INT) else None
    if a[0] == "fn" and b[0] == "fn" and len(a[1]) != len(b[1]):
        return None
    if {a[0], b[0]} == {"pending", "list"}:
        u = unify(a[1], b[1])             # a pending `collect()` where a `Vec` is expected: the item list
        return ("list", u) if u else None
    if {a[0], b[0]} == {"bag", "seq"}:
        u = unify(a[1], b[1])             # an ordered iterator where an unordered collection is expected: the order is forgotten
        return ("bag", u) if u else None
    if a[0] != b[0]:
        return None
    if ty_children(a) is not None:
        ca, cb = ty_children(a), ty_children(b)
        if cb is None or len(ca) != len(cb) or (a[0] == "enum" and a[1] != b[1]) or (a[0] in ENTRYLIKE and a[3] != b[3]):
            return None
        us = [unify(x, y) for x, y in zip(ca, cb)]
        return ty_rebuild(a, us) if all(us) else None
    if a[0] in ("opt", "list", "lock"):
        u = unify(a[1], b[1])
        return (a[0], u) if u else None
    if a[0] == "res":
        u, v = unify(a[1], b[1]), unify(a[2], b[2])
        return ("res", u, v) if u and v else None
    if a[0] == "struct" and a[1] == b[1] and len(a[2]) == len(b[2]):
        us = [unify(x, y) for x, y in zip(a[2], b[2])]
        return ("struct", a[1], tuple(us)) if all(us) else None
    if a[0] == "tuple" and len(a[1]) == len(b[1]):
        us = [unify(x, y) for x, y in zip(a[1], b[1])]
        return ("tuple", tuple(us)) if all(us) else None
    return None


def subst(t, m):
    if t[0] == "tvar":
        return m.get(t[1], t)
    if ty_children(t) is not None:
        return ty_rebuild(t, [subst(a, m) for a in ty_children(t)])
    if t[0] in ("opt", "list", "lock"):
        return (t[0], subst(t[1], m))
    if t[0] == "res":
        return ("res", subst(t[1], m), subst(t[2], m))
    if t[0] == "struct":
        return ("struct", t[1], tuple(subst(a, m) for a in t[2]))
    if t[0] == "tuple":
        return ("tuple", tuple(subst(a, m) for a in t[1]))
    return t


def match_ty(pat, actual, m):
    """one-way matching: binds the type variables of `pat` so that it becomes `actual` (holes in `actual` match
    anything and bind nothing); False if impossible"""
    if pat[0] == "tvar":
        if actual in (HOLE,):
            return True
        if pat[1] in m:
            u = unify(m[pat[1]], actual)
            if u is None:
                return False
            m[pat[1]] = u
            return True
        m[pat[1]] = actual
        return True
    if actual == HOLE:
        return True
    if actual == INTLIT:
        return pat in (NAT, INT)
    if pat[0] != actual[0]:
        return False
    if ty_children(pat) is not None:
        cp, ca = ty_children(pat), ty_children(actual)
        if ca is None or len(cp) != len(ca) or (pat[0] == "enum" and pat[1] != actual[1]) or (pat[0] in ENTRYLIKE and pat[3] != actual[3]):
            return False
        return all(match_ty(x, y, m) for x, y in zip(cp, ca))
    if pat[0] in ("opt", "list", "lock"):
        return match_ty(pat[1], actual[1], m)
    if pat[0] == "res":
        return match_ty(pat[1], actual[1], m) and match_ty(pat[2], actual[2], m)
    if pat[0] == "struct":
        return pat[1] == actual[1] and len(pat[2]) == len(actual[2]) and all(match_ty(x, y, m) for x, y in zip(pat[2], actual[2]))
    if pat[0] == "tuple":
        return len(pat[1]) == len(actual[1]) and all(match_ty(x, y, m) for x, y in zip(pat[1], actual[1]))
    return pat == actual


def tvars_primed(t):
    """does the type mention a type variable of a CALLEE that the call has not determined yet (`'T`, see Fn.instance)"""
    return any(v.startswith("'") for v in tvars_of(t))


def tvars_of(t, acc=None):
    acc = [] if acc is None else acc
    if t[0] == "tvar":
        if t[1] not in acc:
            acc.append(t[1])
    elif ty_children(t) is not None:
        for a in ty_children(t):
            tvars_of(a, acc)
    elif t[0] in ("opt", "list", "lock"):
        tvars_of(t[1], acc)
    elif t[0] == "res":
        tvars_of(t[1], acc); tvars_of(t[2], acc)
    elif t[0] == "struct":
        for a in t[2]:
            tvars_of(a, acc)
    elif t[0] == "tuple":
        for a in t[1]:
            tvars_of(a, acc)
    return acc


class Struct:
    def __init__(self, name, generics, tuple_, fields, dropped):
        self.name, self.generics, self.tuple, self.fields, self.dropped = name, generics, tuple_, fields, dropped
        self.defaults = {}        # type parameter -> tokens of its default type argument (`struct AuditTick<Kind, Context = EngineContext>`)

    def field(self, f, targs):
        for n, t in self.fields:
            if n == f:
                return subst(t, dict(zip(self.generics, targs)))
        return None


class Enum:
    def __init__(self, name, variants, dropped, rest=False, generics=()):
        self.name, self.variants, self.dropped = name, variants, dropped   # variants: [(v, shape, [(f, ty)])]
        self.rest = rest      # the dropped variants are represented by the one payload-free constructor `Other_`
        self.generics = list(generics)
        self.from_variants = set()    # one-field variants V(T) with `impl From<T> for Enum` (`#[from]` / `#[derive(From)]`)

    def variant(self, v, ty=None):
        """the variant `v`; for a generic enum its field types are instantiated at the type arguments of `ty`"""
        for x in self.variants:
            if x[0] == v:
                if self.generics and ty is not None and len(ty) == 3:
                    m = dict(zip(self.generics, ty[2]))
                    return (x[0], x[1], [(f, subst(t, m)) for f, t in x[2]])
                return x
        return None

    def ty(self, targs=None):
        if not self.generics:
            return ("enum", self.name)
        return ("enum", self.name, tuple(targs) if targs is not None else tuple(HOLE for _ in self.generics))


class Fn:
    def __init__(self, lean, mode, self_ty, params, ret, tvars=(), externs=()):
        self.lean, self.mode, self.self_ty, self.params, self.ret, self.tvars = lean, mode, self_ty, params, ret, list(tvars)
        self.externs = list(externs)      # names of the `extern` functions it takes as leading explicit parameters
        self.mutparam = None              # index of its ONE `x: &mut T` parameter: the fn returns `T x R` (state passing on x)

    def instance(self, recv_ty, arg_tys, shown):
        """(param types, ret type) with the fn's type variables replaced by what the call site determines"""
        if not self.tvars:
            return [t for _, t in self.params], self.ret
        ren = {v: ("tvar", "'" + v) for v in self.tvars}     # callee variables are distinct from the caller's
        m = {}
        ok = True
        if recv_ty is not None and self.self_ty is not None:
            ok = match_ty(subst(self.self_ty, ren), recv_ty, m)
        for (_, pt), at in zip(self.params, arg_tys):
            if at is not None:
                ok = ok and match_ty(subst(pt, ren), at, m)
        if not ok:
            raise Reject(f"call of `{shown}`: argument types do not fit its generic signature")
        back = {"'" + v: m.get("'" + v, HOLE) for v in self.tvars}
        return [subst(subst(t, ren), back) for _, t in self.params], subst(subst(self.ret, ren), back)


class World:
    def __init__(self):
        self.structs, self.enums, self.fns, self.opaque, self.failed = {}, {}, {}, set(), set()
        self.generic_fns = {}     # (container, name) -> (parsed fn, lean base name, where-text)
        self.instances = {}       # (container, name, type) -> Fn
        self.pending = []         # Lean text of instances generated while compiling the current item
        self.lean_names = set()
        self.externs = {}         # name -> (param types, ret type, Lean function type): untranslated fns = parameters
        self.externs["from_f64"] = ([F64], ("opt", DEC), "F64 → Option Rat")     # built in: `Decimal::from_f64`
        self.traits = {}          # translated traits: name -> {method: ([param types], ret type)}  (`Self` is ("tvar", "Self"))
        self.enums["Ordering"] = Enum("Ordering", [("Less", "unit", []), ("Equal", "unit", []), ("Greater", "unit", [])], [])
        self.lean_names.add("Ordering")     # `std::cmp::Ordering`: defined in PRELUDE
        self.externs["decimal_sqrt"] = ([DEC], ("opt", DEC), "Rat → Option Rat")   # built in: `Decimal::sqrt` (MathematicalOps)
        self.externs["utc_now"] = ([], TIME, "Int")                                 # built in: the one reading of `Utc::now()`
        self.conv_ops = {}        # externs of the form `T_into`: name -> (type parameter, target type); SUPPLIED by every caller
        self.tvar_ops = set()     # externs of the form `T_ord`: PartialOrd methods of a type PARAMETER (not passed on by callers)
        self.ctx = None           # Ctx of the table item being translated (groups / file / container)
        self.cache = {}           # rel -> (raw text, text with comments blanked)
        self.item_file = {}       # translated struct / enum name -> file that declares it
        self.aux_header = []      # header lines of the auxiliary items found while translating the current table item
        self.aux_failed = {}      # (container, name) -> message: lookup found it, translation was rejected
        self.aux_busy = set()     # auxiliary items being translated (recursion guard)
        self.aux_names = set()    # Lean names of definitions that are NOT table items (auxiliary items, generic instances)
        self.aux_key = None       # key under which the most recent `fn` item was registered
        self.attr_groups = {}     # Lean name -> groups in whose simp set (`gen_<group>`) the definition is
        self.aliases = {}         # type aliases `type N<P..> = T;`: name -> ([params], body tokens)
        self.inhabited = {}       # struct / enum name -> does it have a (derived) `Inhabited` instance (ensure_inhabited)
        self.accessors = {}       # (struct, method) -> parsed `&mut`-returning accessor found by lookup | None (user_lens)
        self.opaque_generic = set()   # opaque identifier types whose type arguments are ignored
        self.renames = {}             # Rust struct name -> Lean name it has for the groups of the fourth file (item option `as`)
        self.abstract = set()         # untranslated types of the source that are type PARAMETERS of what mentions them (kind `abstract`)
        self.trait_info = {}          # generic traits / traits with `&mut self` methods (PRELUDE4): name -> TraitInfo
        self.extern_tvars = {}        # extern (trait record parameter) -> the type parameters its Lean type mentions
        self.tvar_op_var = {}         # extern of the form `T_Trait` / `T_ord` -> the type parameter `T` it belongs to

    def rn(self, name):
        """(fourth file) the Lean name a Rust struct is translated under for the groups of the fourth file: a struct that an
        earlier file has in a RESTRICTED form (`Instrument`, keep = underlying) is translated again, in full, under another
        name (item option `as`), and every mention of the Rust name in the groups of the fourth file means that one"""
        if self.ctx is not None and self.ctx.groups[0] in GROUPS4:
            return self.renames.get(name, name)
        return name

    def alias_base(self, name):
        """the struct a type alias stands for (`OrderRequestOpen` -> `OrderEvent`), followed through aliases; else the name"""
        seen = set()
        while name in self.aliases and name not in seen:
            seen.add(name)
            name = base_name(self.aliases[name][1]) or name
        return name

    def source(self, rel):
        if rel not in self.cache:
            path = os.path.join(REPO, rel)
            if not os.path.exists(path):
                raise Reject(f"source file {path} does not exist")
            raw = open(path, encoding="utf-8").read()
            self.cache[rel] = (raw, blank_comments(raw))
        return self.cache[rel]


class TypeResolver:
    """resolves a token list to an internal type"""

    def __init__(self, world, self_ty=None, tvars=(), assoc=None):
        self.w, self.self_ty, self.tvars = world, self_ty, set(tvars)
        self.assoc = assoc or {}      # associated types of the enclosing trait impl: name -> type tokens (`Self::Name`)
        self.proj = {}                # (fourth file) (type parameter T, Name) -> type of `T::Name` | ("toks", tokens): see compile_fn
        self.proj_tvars = []          # the type parameters `T_Name` that stand for unbound associated types, in order of first use

    def resolve(self, toks):
        self.t, self.i = list(toks) + ["<eot>"], 0
        t = self.ty()
        if self.t[self.i] != "<eot>":
            raise Reject(f"type `{' '.join(toks)}`")
        return t

    def skip_plus_bounds(self):
        """`+ Copy + 'a` after `impl Trait` / a `Fn(..)` bound: further bounds say nothing about the value"""
        while self.t[self.i] == "+":
            if self.t[self.i + 1] == "'":
                self.i += 3
            elif self.t[self.i + 1] in ("Copy", "Clone", "Send", "Sync", "Debug", "Sized"):
                self.i += 2
            else:
                raise Reject(f"bound `+ {self.t[self.i + 1]}` in a type")

    def try_resolve(self, toks):
        try:
            return self.resolve(toks)
        except Reject:
            return None

    def ty(self):
        v = self.t[self.i]
        self.i += 1
        if v == "&":
            if self.t[self.i] == "'":
                self.i += 2               # `&'a T`: the lifetime says nothing about the value
            if self.t[self.i] == "mut":
                raise Reject("`&mut` reference type (only `&mut self`)")
            return self.ty()
        if v == "(":
            if self.t[self.i] == ")":
                self.i += 1
                return UNIT
            ts = [self.ty()]
            while self.t[self.i] == ",":
                self.i += 1
                if self.t[self.i] != ")":
                    ts.append(self.ty())
            if self.t[self.i] != ")":
                raise Reject("tuple type")
            self.i += 1
            return ts[0] if len(ts) == 1 else ("tuple", tuple(ts))
        if v == "[" and self.w.ctx is not None and self.w.ctx.groups[0] in GROUPS4:
            t = self.ty()                 # a slice `[T]` (behind `&`): the list of its elements, like `Vec<T>`
            if self.t[self.i] != "]":
                raise Reject("array type `[T; n]`")
            self.i += 1
            return ("list", t)
        if v == "_" and self.w.ctx is not None and self.w.ctx.groups[0] in GROUPS4:
            return HOLE
        if not re.fullmatch(r"[A-Za-z_]\w*", v):
            raise Reject(f"type starting with `{v}`")
        g4 = self.w.ctx is not None and self.w.ctx.groups[0] in GROUPS4
        if g4 and v == "impl" and self.t[self.i] in ("Fn", "FnMut", "FnOnce", "IntoIterator"):
            v = self.t[self.i]
            self.i += 1
        if g4 and v in ("Fn", "FnMut", "FnOnce") and self.t[self.i] == "(":
            # `Fn(&A, B) -> R` (a bound of a type parameter / `impl Fn(..) -> R`): a PURE function value `A → B → R` (PRELUDE4)
            self.i += 1
            args = []
            while self.t[self.i] != ")":
                args.append(self.ty())
                if self.t[self.i] == ",":
                    self.i += 1
                elif self.t[self.i] != ")":
                    raise Reject("type `Fn(..)`")
            self.i += 1
            ret = UNIT
            if self.t[self.i] == "->":
                self.i += 1
                ret = self.ty()
            self.skip_plus_bounds()
            return ("fn", tuple(args), ret)
        if g4 and v == "IntoIterator" and self.t[self.i:self.i + 3] == ["<", "Item", "="]:
            self.i += 3
            item = self.ty()
            if self.t[self.i] != ">":
                raise Reject("type `IntoIterator<..>`")
            self.i += 1
            self.skip_plus_bounds()
            return ("seq", item)              # whatever it is, `.into_iter()` yields these items in order
        if v == "impl" and self.t[self.i:self.i + 4] == ["Iterator", "<", "Item", "="]:
            # `impl Iterator<Item = &T>` (`+ '_`): what `values()` yields, a collection without a meaningful order whose only
            # accepted consumers are `all` / `any` (PRELUDE3: `Rust.Bag`)
            self.i += 4
            item = self.ty()
            if self.t[self.i] != ">":
                raise Reject("type `impl Iterator<..>`")
            self.i += 1
            if self.t[self.i:self.i + 3] == ["+", "'", "_"]:
                self.i += 3
            if self.w.ctx is not None and self.w.ctx.groups[0] in GROUPS4:
                return ("seq", item)      # (fourth file) an ORDERED iterator: the list of its items (hash-ordered values do not fit: `fit`)
            return ("bag", item)
        if v in self.tvars and self.t[self.i] == "::" and (v, self.t[self.i + 1]) in self.proj:
            key = (v, self.t[self.i + 1])
            self.i += 2
            if self.proj[key][0] == "toks":
                toks, self.proj[key] = self.proj[key][1], ("busy",)
                sub = TypeResolver(self.w, self.self_ty, self.tvars)
                sub.proj, sub.proj_tvars = self.proj, self.proj_tvars
                self.proj[key] = sub.resolve(toks)
            if self.proj[key] == ("busy",):
                raise Reject(f"`{key[0]}::{key[1]}` is defined in terms of itself")
            if self.proj[key][0] == "tvar" and self.proj[key][1] == f"{key[0]}_{key[1]}" and self.proj[key][1] not in self.proj_tvars:
                self.proj_tvars.append(self.proj[key][1])
            return self.proj[key]
        if v == "Self" and self.t[self.i] == "::" and self.t[self.i + 1] in self.assoc:
            # `Self::Name` with `type Name = ..;` in the same trait impl
            toks = self.assoc[self.t[self.i + 1]]
            self.i += 2
            return TypeResolver(self.w, self.self_ty, self.tvars).resolve(toks)
        # a path: keep the last segment
        while self.t[self.i] == "::":
            v = self.t[self.i + 1]
            self.i += 2
        v = self.w.rn(v)
        args = []
        if self.t[self.i] == "<":
            self.i += 1
            while self.t[self.i] != ">":
                args.append(self.ty())
                if self.t[self.i] == ",":
                    self.i += 1
                elif self.t[self.i] != ">":
                    raise Reject(f"type arguments of `{v}`")
            self.i += 1
        simple = {"u64": NAT, "usize": NAT, "i64": INT, "Decimal": DEC, "bool": BOOL, "TimeDelta": DELTA, "f64": F64}
        if v in simple and not args:
            return simple[v]
        if v == "String" and not args and self.w.ctx is not None and self.w.ctx.groups[0] in GROUPS34:
            return STR
        if v == "DateTime" and len(args) == 1 and args[0] == ("enum", "Utc"):
            return TIME
        if v == "Utc" and not args:
            return ("enum", "Utc")          # only meaningful as the argument of DateTime
        if v == "Self" and not args:
            if not self.self_ty:
                raise Reject("type `Self` outside an impl")
            return self.self_ty
        if v == "Option" and len(args) == 1:
            return ("opt", args[0])
        if v == "Vec" and len(args) == 1:
            return ("list", args[0])
        if v == "Arc" and len(args) == 1:
            return args[0]                 # shared ownership is transparent: clones aliasing one cell are not modelled
        if v == "RwLock" and len(args) == 1:
            return ("lock", args[0])
        if v in self.w.opaque and (not args or v in self.w.opaque_generic):
            return ("opaque", v)          # type arguments of an opaque identifier type are ignored (option `generic`)
        if g4 and v in ("OneOrMany", "NoneOneOrMany") and len(args) == 1:
            return ("oom" if v == "OneOrMany" else "noom", args[0])       # barter-integration collections: PRELUDE4
        if v in ("HashMap", "FnvHashMap") and len(args) == 2:
            return ("map", args[0], args[1])
        if v in ("IndexMap", "FnvIndexMap") and len(args) == 2:
            return ("imap", args[0], args[1])
        if v in self.w.aliases:
            params, body = self.w.aliases[v]
            if len(args) != len(params):
                raise Reject(f"type alias `{v}` with {len(args)} type arguments (every use must give all {len(params)})")
            inner = TypeResolver(self.w, None, params).resolve(body)
            return subst(inner, dict(zip(params, args)))
        if v == "Result" and len(args) == 2:
            return ("res", args[0], args[1])
        if v in self.tvars and not args:
            return ("tvar", v)
        if v in self.w.abstract and v not in self.tvars:
            # a type of the source that is NOT translated (kind `abstract`): a type PARAMETER of every definition that mentions
            # it; its own type arguments are ignored (its values are only stored and moved)
            return ("tvar", v)
        if v in self.w.structs:
            st = self.w.structs[v]
            if len(args) < len(st.generics) and all(g in st.defaults for g in st.generics[len(args):]):
                # default type arguments (`AuditTick<State>` is `AuditTick<State, EngineContext>`)
                for g in st.generics[len(args):]:
                    args.append(TypeResolver(self.w, None, ()).resolve(st.defaults[g]))
            if len(args) != len(self.w.structs[v].generics):
                raise Reject(f"type `{v}` with {len(args)} type arguments")
            return ("struct", v, tuple(args))
        if v in self.w.enums and not args and not self.w.enums[v].generics:
            return ("enum", v)
        if v in self.w.enums and self.w.enums[v].generics:
            en = self.w.enums[v]
            dfl = getattr(en, "defaults", {})
            if len(args) < len(en.generics) and all(g in dfl for g in en.generics[len(args):]):
                for g in en.generics[len(args):]:
                    args.append(TypeResolver(self.w, None, ()).resolve(dfl[g]))      # default type arguments
            if len(args) != len(self.w.enums[v].generics):
                raise Reject(f"type `{v}` with {len(args)} type arguments")
            return ("enum", v, tuple(args))
        raise Reject(f"type `{v}`" + ("<..>" if args else "") + " (not a translated type)")


class V:
    """a compiled pure expression: Lean text, type; for bool `prop` says whether the text is a Prop"""

    def __init__(self, text, ty, prop=False):
        self.text, self.ty, self.prop = text, ty, prop


class Var:
    def __init__(self, ty, mut, lean, alias=None):
        self.ty, self.mut, self.lean = ty, mut, lean
        self.alias = alias       # (root, fields): the local is the payload of `&mut <root.fields>` (an Option place), see c_let


def atom(s):
    """s, parenthesised unless it already is one token / one parenthesised group"""
    if re.fullmatch(r"[\w.«»]+", s):
        return s
    if s.startswith("(") and s.endswith(")") and "\n" not in s:
        d = 0
        for k, ch in enumerate(s):
            d += ch == "("
            d -= ch == ")"
            if d == 0 and k < len(s) - 1:
                break
        else:
            return s
    return f"({s})"


# ------------------------------------------------------------------------------------------ compiler

# method names with a fixed meaning (cx_mcall / effect): never looked up in the source
BUILTIN_METHODS = set("""clone add abs cmp sqrt num_seconds max is_zero checked_div checked_mul checked_add checked_sub then_some is_some
is_none as_ref is_none_or is_some_and map or unwrap_or replace expect unwrap is_sign_negative take signed_duration_since
num_milliseconds read write push""".split())
TIMEDELTA_MS = {"days": 86400000, "hours": 3600000, "minutes": 60000, "seconds": 1000, "milliseconds": 1}
ARITH = (DEC, INT, NAT, DELTA, INTLIT)
ORDERED = (DEC, INT, NAT, DELTA, TIME, INTLIT)
CMPSYM = {"==": "=", "!=": "≠", "<": "<", "<=": "≤", ">": ">", ">=": "≥"}


class Compiler:
    def __init__(self, world, self_ty, mode, ret, idents, resolver):
        self.w, self.self_ty, self.mode, self.ret = world, self_ty, mode, ret
        self.used = set(idents) | {"self"}
        self.tr = resolver
        self.globs = []          # enums whose variants are in scope through `use Enum::*;`
        self.into_bounds = {}    # type parameter -> target type of its `Into<..>` bound (cx_into)
        self.from_bounds = {}    # type parameter -> source types of its `From<..>` bounds (`T::from(x)`, fourth file)
        self.type_from = []      # (fourth file) `Type<..>: From<U>` of the `where` clause: [(the type, U)]: `Type::from(x)`
        self.bounds = {}         # type parameter -> [(trait, [argument tokens], {associated type: tokens})] (fourth file, compile_fn)
        self.externs = []        # extern functions this definition needs (directly or through a callee), in order

    def fresh(self, base):
        n = 1
        while f"{base}_{n}" in self.used:
            n += 1
        self.used.add(f"{base}_{n}")
        return f"{base}_{n}"

    # ---- small helpers
    def need_extern(self, x):
        if x not in self.externs:
            self.externs.append(x)

    def method_fn(self, sname, mname):
        """the translated method / associated fn `sname::mname`; if it is not translated yet it is looked up in the source
        (aux_translate) and translated on demand.  None if there is no such function."""
        key = (sname, mname)
        if key not in self.w.fns and key not in self.w.failed and key not in self.w.generic_fns and mname not in BUILTIN_METHODS:
            aux_translate(self.w, sname, mname)
        return self.w.fns.get(key)

    def fname(self, fn, conv=None):
        """Lean head of a call of the translated fn: its name followed by the extern functions it is parameterised by"""
        ctx = self.w.ctx
        if ctx is not None and fn.lean in self.w.aux_names and not set(ctx.groups) <= self.w.attr_groups.get(fn.lean, set()):
            # an auxiliary definition generated for another group is used by this group too: it joins its simp set
            new = [g for g in ctx.groups if g not in self.w.attr_groups.get(fn.lean, set())]
            self.w.pending.append("attribute [" + ", ".join("gen_" + g for g in new) + f"] {fn.lean}")
            self.w.attr_groups.setdefault(fn.lean, set()).update(new)
        parts = [fn.lean]
        for x in fn.externs:
            if x in self.w.conv_ops:
                # the conversion `T -> U` of a bound `T: Into<U>`: supplied by the caller, who knows what `T` is (call_convs)
                if not conv or x not in conv:
                    raise Reject(f"call of `{fn.lean}`, whose conversion parameter `{x}` this call does not determine")
                parts.append(conv[x])
                continue
            if conv and x in conv and x.startswith("Ord_") and x not in self.w.tvar_ops:
                parts.append(conv[x])        # the ordering of a type parameter of the callee, at this call's type (ord_convs)
                continue
            if x in self.w.tvar_ops and conv and x in conv:
                self.need_extern(x)          # the caller's own parameter of that name: the callee's type parameter IS the caller's
                parts.append(conv[x])
                continue
            if x in self.w.tvar_ops:
                raise Reject(f"call of `{fn.lean}`, which is parameterised by the ordering of a type parameter (`{x}`)")
            self.need_extern(x)
            parts.append(x)
        return " ".join(parts)

    def call_convs(self, fn, vs, recv_ty=None, expect=None):
        """the conversion functions a call supplies for the callee's `T: Into<U>` / `T: From<U>` bounds: the callee's type
        parameters are what the receiver / the arguments / (fourth file) the expected result type say.  A parameter that
        belongs to a type parameter of the callee (`T_Trait`, `T_ord`) is the caller's own parameter of that name when the
        callee's `T` is instantiated with the caller's type parameter `T` itself (fourth file)."""
        if not any(x in self.w.conv_ops or x in self.w.tvar_op_var for x in fn.externs):
            return None
        m = {}
        if recv_ty is not None and fn.self_ty is not None:
            match_ty(fn.self_ty, recv_ty, m)
        for (_, pt), v in zip(fn.params, vs):
            match_ty(pt, v.ty, m)
        if expect is not None and self.w.ctx is not None and self.w.ctx.groups[0] in GROUPS4:
            match_ty(fn.ret, expect, m)
        out = {}
        for x in fn.externs:
            if x in self.w.conv_ops:
                src, dst = self.w.conv_ops[x]
                for tv in tvars_of(src) + tvars_of(dst):
                    if tv not in m or m[tv] == HOLE:
                        raise Reject(f"call of `{fn.lean}`: the type argument `{tv}` is not determined by the arguments")
                srcS, dstS = subst(src, m), subst(dst, m)
                if any(t == dstS and u == srcS for t, u in self.type_from) or \
                        (dstS[0] == "tvar" and srcS in self.from_bounds.get(dstS[1], [])):
                    # the caller has the very same bound in its own `where` clause: its own conversion parameter is handed on
                    own = x if dstS[0] != "tvar" else f"{dstS[1]}_from"
                    if own in self.w.conv_ops and self.w.conv_ops[own] == (srcS, dstS):
                        self.need_extern(own)
                        out[x] = lean_id(own)
                        continue
                f, _ = self.conversion(srcS, dstS)
                y = self.fresh("x")
                out[x] = f"(fun {y} => {y})" if f is None else f"(fun {y} => {f} {y})"
            elif x in self.w.tvar_op_var and self.w.ctx is not None and self.w.ctx.groups[0] in GROUPS4:
                tv = self.w.tvar_op_var[x]
                # the parameter belongs to the callee's type parameter `tv`, or to an associated type `T_Name..` of its type
                # parameter `T`: handed on when the call instantiates that `T` with the caller's own type parameter `T`
                base = next((b for b in fn.tvars if tv == b or tv.startswith(b + "_")), None)
                if base is not None and m.get(base) == ("tvar", base):
                    out[x] = lean_id(x)
        return out

    @staticmethod
    def val(v):
        return f"(decide {v.text})" if v.ty == BOOL and v.prop else v.text

    @staticmethod
    def prop(v):
        if v.ty != BOOL:
            raise Reject(f"condition of type {ty_rust(v.ty)}")
        return v.text if v.prop else f"({v.text} = true)"

    def fit(self, v, expect, what="value"):
        if expect is None:
            return v
        if v.ty[0] == "pending" and expect[0] == "noom":
            u = unify(v.ty[1], expect[1])
            if u is None:
                raise Reject(f"{what}: collected items of type {ty_rust(v.ty[1])} where {ty_rust(expect)} is required")
            v.text = f"(Rust.NoneOneOrMany.from_iter {atom(v.text)})"
            v.ty = ("noom", u)
            return v
        if v.ty[0] == "pending" and expect[0] in ("list", "map", "imap"):
            if expect[0] == "list":
                u = unify(v.ty[1], expect[1])
                if u is None:
                    raise Reject(f"{what}: collected items of type {ty_rust(v.ty[1])} where {ty_rust(expect)} is required")
                v.ty = ("list", u)
                return v
            u = unify(v.ty[1], ("tuple", (expect[1], expect[2])))
            if u is None:
                raise Reject(f"{what}: collected items of type {ty_rust(v.ty[1])} where {ty_rust(expect)} is required")
            v.text = f"({'Rust.Map' if expect[0] == 'map' else 'Rust.IndexMap'}.collect {atom(v.text)})"
            v.ty = (expect[0], u[1][0], u[1][1])
            return v
        if expect[0] == "seq" and v.ty[0] == "bag":
            raise Reject(f"{what}: an iterator in HASH order where an ordered iterator is required (the order of a `HashMap` is not modelled)")
        u = unify(v.ty, expect)
        if u is None:
            raise Reject(f"{what} of type {ty_rust(v.ty)} where {ty_rust(expect)} is required")
        v.ty = u
        return v

    def bind(self, name, ty, mut, env):
        """new binder: fresh Lean name when the Rust name is already in scope (so that code inlined after a nested
        block can never be captured)"""
        if name in self.w.externs:
            raise Reject(f"local `{name}` shadows the extern function `{name}`")
        lean = lean_id(name) if name not in env and name not in LEAN_CLASH else self.fresh(name)
        env = dict(env)
        env[name] = Var(ty, mut, lean)
        return lean, env

    def struct_of(self, segs):
        name = self.w.rn(segs[-1])
        if name == "Self":
            if not self.self_ty or self.self_ty[0] != "struct":
                raise Reject("`Self` outside an impl of a translated struct")
            return self.w.structs[self.self_ty[1]], self.self_ty[2]
        if name in self.w.aliases and name not in self.w.structs and self.w.ctx is not None and self.w.ctx.groups[0] in GROUPS4:
            # (fourth file) a type alias as the name of a struct literal: the struct it stands for, the type arguments the alias
            # fixes (its own parameters are left to the context)
            params, body = self.w.aliases[name]
            t = TypeResolver(self.w, None, params).resolve(body)
            if t[0] == "struct":
                return self.w.structs[t[1]], tuple(subst(a, {g: HOLE for g in params}) for a in t[2])
        return self.w.structs.get(name), None

    # ---- pure expressions
    def cx(self, e, env, ind, expect=None):
        return self.fit(self.cx0(e, env, ind, expect), expect)

    def cx0(self, e, env, ind, expect):
        k = e[0]
        if k == "lean":
            return V(e[1], e[2])
        if k == "num":
            if not re.fullmatch(r"[\d_]+", e[1]):
                raise Reject(f"numeric literal `{e[1]}` (only integer literals)")
            return V(e[1].replace("_", ""), expect if expect in (NAT, INT) else INTLIT)
        if k == "unit":
            return V("()", UNIT)
        if k == "panic":
            return V("Rust.unreachable", HOLE)
        if k == "format":
            # `format!(template, a, b)`: the list of the formatted values (PRELUDE3: the template text is not modelled)
            parts = []
            for a in e[1]:
                v = self.cx(a, env, ind)
                while v.ty[0] == "struct" and self.w.structs[v.ty[1]].tuple and len(self.w.structs[v.ty[1]].fields) == 1 \
                        and not self.w.structs[v.ty[1]].dropped:
                    # a newtype `struct S(T);`: its text is determined by the text of its one field, which is what is recorded
                    v = self.cx(("field", ("lean", v.text, v.ty), "0"), env, ind)
                if v.ty == INTLIT:
                    raise Reject("`format!` of an integer literal of unknown width")
                kind = {"dec": "dec", "nat": "nat", "int": "int", "time": "int", "delta": "int", "opaque": "id", "idstr": "id"}.get(v.ty[0])
                if kind is None and self.w.ctx is not None and self.w.ctx.groups[0] in GROUPS4:
                    continue          # (fourth file) the text of a message is not modelled: only its scalar arguments are recorded
                if kind is None:
                    raise Reject(f"`format!` argument of type {ty_rust(v.ty)} (only Decimal / integers / times / identifier types)")
                parts.append(f"Rust.FmtArg.{kind} {atom(self.val(v))}")
            return V("(Rust.Str.mk [" + ", ".join(parts) + "])", STR)
        if k == "tuple":
            ex = expect[1] if expect and expect[0] == "tuple" and len(expect[1]) == len(e[1]) else [None] * len(e[1])
            vs = [self.cx(x, env, ind, t) for x, t in zip(e[1], ex)]
            return V("(" + ", ".join(self.val(v) for v in vs) + ")", ("tuple", tuple(v.ty for v in vs)))
        if k == "path":
            return self.cx_path(e[1], env)
        if k == "call":
            return self.cx_call(e[1], e[2], env, ind, expect)
        if k == "structlit":
            return self.cx_structlit(e[1], e[2], env, ind, expect)
        if k == "field":
            return self.cx_field(e, env, ind)
        if k == "mcall":
            return self.cx_mcall(e, env, ind, expect)
        if k == "un":
            op = e[1]
            if op in ("&", "*"):
                return self.cx0(e[2], env, ind, expect)
            v = self.cx(e[2], env, ind)
            if op == "-":
                if v.ty == INTLIT:
                    v.ty = INT
                if v.ty not in (DEC, INT, DELTA):
                    raise Reject(f"unary `-` on {ty_rust(v.ty)}")
                return V(f"(-{atom(v.text)})", v.ty)
            return V(f"(¬{self.prop(v)})", BOOL, True)
        if k == "bin":
            return self.cx_bin(e, env, ind, expect)
        if k == "cast":
            v = self.cx(e[1], env, ind)
            to = e[2][0]
            if to == "i64" and v.ty in (NAT, INTLIT):
                return V(f"(({v.text} : Nat) : Int)", INT)
            if to == "i64" and v.ty == INT or to == "u64" and v.ty == NAT:
                return v
            raise Reject(f"cast `{ty_rust(v.ty)} as {to}`")
        if k == "if":
            if e[3] is None:
                raise Reject("`if` without `else` used as a value")
            c = self.prop(self.cx(e[1], env, ind + 1))
            a = self.pure_block(e[2], env, ind + 1, expect)
            b = self.pure_block(e[3], env, ind + 1, expect or a.ty)
            u = unify(a.ty, b.ty)
            if u is None:
                raise Reject(f"`if` branches of different types {ty_rust(a.ty)} / {ty_rust(b.ty)}")
            pad = "  " * ind
            return V(f"(if {c} then\n{pad}  {self.val(a)}\n{pad}else\n{pad}  {self.val(b)})", u)
        if k == "match" and self.is_optmatch(e):
            return self.c_optmatch(e, env, None, ind, expect)
        if k == "match" and self.is_gmatch(e):
            return self.c_gmatch(e, env, None, ind, expect)
        if k == "match" and self.is_chain(e):
            conds = self.chain_of(e, env, ind)
            pad = "  " * ind
            vals, u = [], expect
            for c, body, env_arm in conds:
                b = self.pure_block(body, env_arm, ind + 1, u)
                u2 = unify(u, b.ty) if u else b.ty
                if u2 is None:
                    raise Reject("match arms of different types")
                u = u2
                vals.append((c, self.val(b)))
            text = vals[-1][1]
            for c, b in reversed(vals[:-1]):
                text = f"(if {c} then\n{pad}  {b}\n{pad}else\n{pad}  {text})"
            return V(text, u)
        if k in ("iflet", "match"):
            s = self.cx(e[2] if k == "iflet" else e[1], env, ind + 1)
            arms = self.arms_of(e, s, env)
            pad = "  " * ind
            if arms[0] == "bool":
                a = self.pure_block(arms[1], env, ind + 1, expect)
                b = self.pure_block(arms[2], env, ind + 1, expect or a.ty)
                u = unify(a.ty, b.ty)
                if u is None:
                    raise Reject("match arms of different types")
                return V(f"(if {self.prop(s)} then\n{pad}  {self.val(a)}\n{pad}else\n{pad}  {self.val(b)})", u)
            out, u = [], expect
            for pat, env2, body in arms[1]:
                if body is None:
                    raise Reject("`if let` without `else` used as a value")
                b = self.pure_block(body, env2, ind + 2, u)
                u2 = unify(u, b.ty) if u else b.ty
                if u2 is None:
                    raise Reject("match arms of different types")
                u = u2
                out.append(f"{pad}| {pat} =>\n{pad}    {self.val(b)}")
            return V(f"(match {self.val(s)} with\n" + "\n".join(out) + ")", u)
        if k == "block":
            return self.pure_block(e, env, ind, expect)
        if k == "closure" and expect is not None and expect[0] == "fn" and self.w.ctx is not None and self.w.ctx.groups[0] in GROUPS4:
            return self.cx_closure(e, expect[1], env, ind, expect[2] if not has_hole(expect[2]) and not tvars_primed(expect[2]) else None)
        if k == "closure":
            raise Reject("closure (accepted only as the argument of Option::{map, is_none_or, is_some_and})")
        if k == "mutref":
            raise Reject("`&mut` borrow (accepted only as `let Some(x) = &mut <place> else { .. };`)")
        if k == "try":
            raise Reject("`?` inside a larger expression (only as a whole initialiser / statement / tail)")
        if k == "return":
            raise Reject("`return` inside an expression")
        if k == "assign":
            raise Reject("assignment inside an expression")
        raise Reject(f"expression `{k}`")

    def pure_block(self, b, env, ind, expect):
        """a block used as a value: `let x = <pure>;`* tail"""
        pad = "  " * ind
        lines = []
        for st in b[1]:
            if st[0] != "let" or st[4] is not None or st[1][0] != "pbind":
                raise Reject("statement other than `let x = ..;` inside a block used as a value")
            ann = self.tr.resolve(st[2]) if st[2] else None
            v = self.cx(st[3], env, ind + 1, ann)
            if self.undet(v.ty):
                raise Reject(f"type of `let {st[1][1]}` is not determined")
            lean, env = self.bind(st[1][1], v.ty, st[1][2], env)
            lines.append(f"let {lean} : {ty_lean(v.ty)} := {self.val(v)}")
        if b[2] is None:
            t = V("()", UNIT)
            self.fit(t, expect)
        else:
            t = self.cx(b[2], env, ind + (1 if lines else 0), expect)
        if not lines:
            return t
        return V("(" + f";\n{pad} ".join(lines + [self.val(t)]) + ")", t.ty)

    def cx_path(self, segs, env):
        if len(segs) == 1:
            n = segs[0]
            if n in env:
                return V(env[n].lean, env[n].ty)
            if n in ("true", "false"):
                return V(n, BOOL)
            if n == "None":
                return V("none", ("opt", HOLE))
            if n in self.w.structs and not self.w.structs[n].fields and not self.w.structs[n].dropped and not self.w.structs[n].generics:
                return V(f"{n}.mk", ("struct", n, ()))
            for en in self.globs:
                var = self.w.enums[en].variant(n)
                if var is not None and var[1] == "unit":
                    return V(f"{en}.{n}", ("enum", en))
            raise Reject(f"unknown identifier `{n}`")
        head, last = segs[-2], segs[-1]
        if head == "Decimal":
            if last not in DEC_CONSTS:
                raise Reject(f"constant `Decimal::{last}`")
            return V(DEC_CONSTS[last], DEC)
        if head == "Self" and self.self_ty and self.self_ty[0] == "enum":
            head = self.self_ty[1]
        if head in self.w.enums:
            var = self.w.enums[head].variant(last)
            if var is None:
                raise Reject(f"enum `{head}` has no translated variant `{last}`")
            if var[1] != "unit":
                raise Reject(f"variant `{head}::{last}` used without its payload")
            return V(f"{head}.{last}", self.w.enums[head].ty())
        raise Reject(f"path `{'::'.join(segs)}`")

    def lookup_fn(self, segs):
        name = segs[-1]
        cont = self.w.rn(segs[-2]) if len(segs) > 1 else None
        if cont == "Self":
            cont = self.self_ty[1] if self.self_ty else None
        return (cont, name)

    def resolve_call(self, segs):
        """the translated fn a path call `f(..)` / `m::f(..)` / `Type::f(..)` names (looked up in the source if it is not in the
        item table, like cx_call does); None if it is not a translated fn without type parameters of its own"""
        if len(segs) == 1 and (segs[0] in ("Some", "Ok", "Err", "drop") or segs[0][0].isupper()):
            return None
        if len(segs) >= 2 and (segs[-2] in ("Decimal", "TimeDelta", "Arc", "RwLock", "Utc", "Vec", "HashMap", "FnvHashMap")
                               or segs[-2] in self.w.enums or segs[-2] in self.w.opaque or segs[-2] in self.w.aliases):
            return None
        key = self.lookup_fn(segs)
        if key in self.w.fns:
            return self.w.fns[key]
        if key in self.w.generic_fns or key in self.w.failed or (key[1] in self.w.externs and len(segs) == 1):
            return None
        ctx = self.w.ctx
        sibling = (ctx.container.split()[1], key[1]) if key[0] is None and ctx and ctx.container and ctx.container.startswith("mod ") else None
        if sibling is not None and (sibling in self.w.fns or sibling in self.w.generic_fns):
            return self.w.fns.get(sibling)
        if ctx is None or ctx.groups[0] not in GROUPS34:
            return None          # (the first two files: no `&mut` parameters; nothing is looked up ahead of cx_call)
        try:
            key = aux_translate(self.w, key[0], key[1]) or key
        except Reject:
            return None          # cx_call reports it
        return self.w.fns.get(key)

    def cx_call(self, segs, args, env, ind, expect):
        shown = "::".join(segs)
        if len(segs) >= 2 and segs[-2] in self.w.aliases and self.w.alias_base(segs[-2]) in self.w.enums:
            # `Alias::Variant(..)`: the alias says which enum and (if it has no parameters of its own) at which type arguments
            if expect is None and not self.w.aliases[segs[-2]][0]:
                expect = TypeResolver(self.w, None, ()).resolve([segs[-2]])
            segs = segs[:-2] + [self.w.alias_base(segs[-2]), segs[-1]]
        name = segs[-1]
        if self.w.ctx is not None and self.w.ctx.groups[0] in GROUPS4:
            v = self.cx_vocab_call(segs, args, env, ind, expect)
            if v is not None:
                return v
        if len(segs) == 1 and name in env and env[name].ty[0] == "fn":
            # (fourth file) a parameter / local of function type applied to arguments
            ft = env[name].ty
            if len(args) != len(ft[1]):
                raise Reject(f"call of `{name}` with {len(args)} arguments")
            vs = [self.cx(a, env, ind, t) for a, t in zip(args, ft[1])]
            return V("(" + " ".join([env[name].lean] + ([atom(self.val(v)) for v in vs] or ["()"])) + ")", ft[2])
        opq = name if len(segs) == 1 else segs[-2] if name == "new" else None
        if opq in self.w.opaque and opq not in self.w.opaque_generic and len(args) == 1:
            # `Id(text)` / `Id::new(text)` of an opaque identifier type: the text of an identifier is kept as its number
            a = self.cx(args[0], env, ind)
            if a.ty != IDSTR and a.ty[0] != "opaque":
                raise Reject(f"`{shown}(..)` of a value of type {ty_rust(a.ty)} (only the text of another identifier / `n.to_smolstr()`)")
            return V(a.text, ("opaque", opq))
        if len(segs) >= 2 and name == "from" and len(args) == 1 and any(t[0] in ("struct", "enum") and t[1] == self.w.rn(segs[-2]) for t, _ in self.type_from):
            # `Type::from(x)` with `Type<..>: From<U>` in the `where` clause (which conversion it is depends on a type parameter):
            # the explicit parameter `Type_from : U -> Type ..`, supplied by the caller
            a = self.cx(args[0], env, ind)
            hits = [(t, u) for t, u in self.type_from if t[1] == self.w.rn(segs[-2]) and unify(u, a.ty) is not None]
            if len(hits) != 1:
                raise Reject(f"`{shown}(..)` of a value of type {ty_rust(a.ty)}: {len(hits)} bounds of the `where` clause fit")
            dst, src = hits[0]
            self.fit(a, src)
            x = f"{segs[-2]}_from"
            if x in env:
                raise Reject(f"local `{x}` shadows the conversion parameter `{x}`")
            if x in self.w.conv_ops and self.w.conv_ops[x] != (src, dst):
                raise Reject(f"two different `{segs[-2]}<..>: From<..>` bounds in the translated code (the parameter `{x}` would clash)")
            self.w.externs[x] = ([src], dst, f"{ty_atom(src)} → {ty_lean(dst)}")
            self.w.conv_ops[x] = (src, dst)
            self.need_extern(x)
            return V(f"({x} {atom(self.val(a))})", dst)
        if len(segs) == 2 and name == "from" and segs[0] in self.from_bounds and len(args) == 1:
            # `T::from(x)` on a type PARAMETER with the bound `T: From<U>`: the explicit conversion parameter `T_from : U -> T`,
            # which every translated caller supplies (PRELUDE4)
            T = segs[0]
            a = self.cx(args[0], env, ind)
            hits = [u for u in self.from_bounds[T] if unify(u, a.ty) is not None]
            if len(hits) != 1:
                raise Reject(f"`{shown}(..)` of a value of type {ty_rust(a.ty)}: {len(hits)} of the bounds `{T}: From<..>` fit")
            src = hits[0]
            self.fit(a, src)
            x = f"{T}_from"
            if x in env:
                raise Reject(f"local `{x}` shadows the conversion parameter `{x}`")
            if x in self.w.conv_ops and self.w.conv_ops[x] != (src, ("tvar", T)):
                raise Reject(f"two different `{T}: From<..>` bounds in the translated code (the conversion parameter `{x}` would clash)")
            self.w.externs[x] = ([src], ("tvar", T), f"{ty_atom(src)} → {T}")
            self.w.conv_ops[x] = (src, ("tvar", T))
            self.need_extern(x)
            return V(f"({x} {atom(self.val(a))})", ("tvar", T))
        if len(segs) == 1 and name in ("Some", "Ok", "Err"):
            if len(args) != 1:
                raise Reject(f"`{name}` with {len(args)} arguments")
            ex = None
            if expect and name == "Some" and expect[0] == "opt":
                ex = expect[1]
            if expect and expect[0] == "res":
                ex = expect[1] if name == "Ok" else expect[2] if name == "Err" else ex
            a = self.cx(args[0], env, ind, ex)
            if name == "Some":
                return V(f"(some {atom(self.val(a))})", ("opt", a.ty))
            if name == "Ok":
                return V(f"(Except.ok {atom(self.val(a))})", ("res", a.ty, HOLE))
            return V(f"(Except.error {atom(self.val(a))})", ("res", HOLE, a.ty))
        if segs[-2:] == ["Decimal", "from"]:
            a = self.cx(args[0], env, ind) if len(args) == 1 else None
            if a is not None and a.ty == INT:
                return V(f"(({a.text} : Int) : Rat)", DEC)
            if a is None or a.ty not in (NAT, INTLIT):
                raise Reject("`Decimal::from(..)` of anything but one u64 / i64 value")
            return V(f"(({a.text} : Nat) : Rat)", DEC)
        if len(segs) >= 2 and segs[-2] == "TimeDelta" and segs[-1] in TIMEDELTA_MS:
            if len(args) != 1:
                raise Reject(f"`{shown}` arguments")
            a = self.cx(args[0], env, ind, INT)
            if a.ty == INTLIT:
                a.ty = INT
            if a.ty != INT:
                raise Reject(f"`{shown}` of a value of type {ty_rust(a.ty)}")
            return V(f"({atom(a.text)} * {TIMEDELTA_MS[segs[-1]]})", DELTA)
        if segs[-2:] == ["Arc", "new"] and len(args) == 1:
            return self.cx(args[0], env, ind, expect)
        if segs[-2:] == ["RwLock", "new"] and len(args) == 1:
            a = self.cx(args[0], env, ind, expect[1] if expect and expect[0] == "lock" else None)
            return V(a.text, ("lock", a.ty), a.prop)
        if segs[-2:] == ["Utc", "now"] and not args:
            # the wall clock is an INPUT: the explicit parameter `utc_now` (one reading per function: compile_fn rejects
            # a body that calls it twice; functions that take it are not callable from translated code)
            if "utc_now" in env:
                raise Reject("local `utc_now` shadows the wall-clock parameter")
            self.w.tvar_ops.add("utc_now")
            self.need_extern("utc_now")
            return V("utc_now", TIME)
        if segs[-2:] == ["Decimal", "from_f64"]:
            # rust_decimal's conversion is not modelled: an explicit parameter `from_f64 : F64 -> Option Rat` (PRELUDE2)
            if len(args) != 1:
                raise Reject("`Decimal::from_f64` arguments")
            if "from_f64" in env:
                raise Reject("local `from_f64` shadows the extern function `Decimal::from_f64`")
            a = self.cx(args[0], env, ind, F64)
            self.need_extern("from_f64")
            return V(f"(from_f64 {atom(a.text)})", ("opt", DEC))
        if len(segs) >= 2 and segs[-2] in ("HashMap", "FnvHashMap") and segs[-1] in ("default", "new") and not args:
            return V("Rust.Map.empty", ("map", HOLE, HOLE))
        if segs[-2:] in (["Vec", "new"], ["Vec", "with_capacity"]):
            if segs[-1] == "with_capacity":
                if len(args) != 1:
                    raise Reject("`Vec::with_capacity` arguments")
                self.cx(args[0], env, ind)          # the capacity has no meaning for a list
            elif args:
                raise Reject("`Vec::new` arguments")
            return V("[]", ("list", HOLE))
        # constructors of tuple structs / tuple variants
        st, targs = self.struct_of(segs) if name[0].isupper() else (None, None)
        if st is not None and len(segs) == 1 or (st is not None and segs[-1] == "Self"):
            if not st.tuple:
                raise Reject(f"`{shown}(..)`: `{st.name}` is not a tuple struct")
            if st.dropped:
                raise Reject(f"construction of `{st.name}`, whose fields are only partly translated")
            if len(args) != len(st.fields):
                raise Reject(f"`{shown}(..)` with {len(args)} arguments")
            if not st.generics:
                vs = [self.cx(a, env, ind, t) for a, (_, t) in zip(args, st.fields)]
                return V("(" + " ".join([f"{st.name}.mk"] + [atom(self.val(v)) for v in vs]) + ")", ("struct", st.name, ()))
            # a generic tuple struct: type arguments from `Self` / the expected type, the rest from the arguments
            if targs is None and expect and expect[0] == "struct" and expect[1] == st.name:
                targs = expect[2]
            tmap = {g: a for g, a in zip(st.generics, targs or ()) if not has_hole(a)}
            vs = []
            for a, (f, t) in zip(args, st.fields):
                known = all(x in tmap for x in tvars_of(t))
                v = self.cx(a, env, ind, subst(t, tmap) if known else None)
                if not known and not match_ty(t, v.ty, tmap):
                    raise Reject(f"field `{f}` of `{st.name}` given a value of type {ty_rust(v.ty)}")
                vs.append(v)
            ty = ("struct", st.name, tuple(tmap.get(g, HOLE) for g in st.generics))
            if has_hole(ty):
                raise Reject(f"type arguments of `{st.name}` are not determined by the constructor call")
            return V("(" + " ".join([f"{st.name}.mk"] + [atom(self.val(v)) for v in vs]) + f" : {ty_lean(ty)})", ty)
        if len(segs) >= 2 and (segs[-2] in self.w.enums or segs[-2] == "Self" and self.self_ty and self.self_ty[0] == "enum"):
            en = self.w.enums[segs[-2] if segs[-2] != "Self" else self.self_ty[1]]
            var = en.variant(name)
            if var is None or var[1] != "tuple":
                raise Reject(f"`{shown}(..)`: no translated tuple variant `{name}` of `{en.name}`" + self.dropped_note(en, name))
            if len(args) != len(var[2]):
                raise Reject(f"`{shown}(..)` with {len(args)} arguments")
            vs, ety = self.enum_fields(en, args, var[2], env, ind, expect)
            return V("(" + " ".join([f"{en.name}.{name}"] + [atom(self.val(v)) for v in vs]) + ")", ety)
        key = self.lookup_fn(segs)
        known = lambda k: k in self.w.generic_fns or k in self.w.fns
        if not known(key) and not (key[1] in self.w.externs and len(segs) == 1) and key not in self.w.failed:
            ctx = self.w.ctx
            sibling = (ctx.container.split()[1], key[1]) if key[0] is None and ctx and ctx.container and ctx.container.startswith("mod ") else None
            if sibling is not None and known(sibling):
                key = sibling              # unqualified call of a translated fn of the same `mod`
            else:
                key = aux_translate(self.w, key[0], key[1]) or key
        if key in self.w.generic_fns:
            vs = [self.cx(a, env, ind) for a in args]
            fn = self.instantiate(key, vs, shown)
        elif key in self.w.fns:
            fn = self.w.fns[key]
            if fn.mode != "none":
                raise Reject(f"method `{shown}` called through a path")
            if fn.mutparam is not None:
                raise Reject(f"call of `{shown}`, which has a `&mut` parameter, inside a larger expression (accepted only as a whole "
                             "statement / initialiser / tail / `match` scrutinee)")
            vs, ret = self.call_args(fn, None, args, env, ind, shown, expect)
            return V("(" + " ".join([self.fname(fn, self.call_convs(fn, vs, None, expect))] + [atom(self.val(v)) for v in vs]) + ")", ret)
        elif key[1] in self.w.externs and len(segs) == 1:
            ptys, ret, _ = self.w.externs[name]
            if len(args) != len(ptys):
                raise Reject(f"call of `{shown}` with {len(args)} arguments")
            if name in env:
                raise Reject(f"local `{name}` shadows the extern function `{name}`")
            vs = [self.cx(a, env, ind, t) for a, t in zip(args, ptys)]
            self.need_extern(name)
            return V("(" + " ".join([lean_id(name)] + [atom(self.val(v)) for v in vs]) + ")", ret)
        else:
            raise Reject(f"call of `{shown}`, which is not a translated function" + (" (it was rejected above)" if key in self.w.failed else ""))
        return V("(" + " ".join([self.fname(fn)] + [atom(self.val(v)) for v in vs]) + ")", fn.ret)

    def enum_fields(self, en, exprs, fields, env, ind, expect):
        """compiled payload of a variant constructor and the enum type; the type arguments of a GENERIC enum come from the
        expected type, the rest from the payload (what neither determines stays a hole for the context to fill)"""
        if not en.generics:
            return [self.cx(a, env, ind, t) for a, (_, t) in zip(exprs, fields)], ("enum", en.name)
        tmap = {}
        if expect and expect[0] == "enum" and expect[1] == en.name and len(expect) == 3:
            tmap = {g: a for g, a in zip(en.generics, expect[2]) if not has_hole(a)}
        vs = []
        for a, (f, t) in zip(exprs, fields):
            known = all(x in tmap for x in tvars_of(t))
            v = self.cx(a, env, ind, subst(t, tmap) if known else None)
            if not known and not match_ty(t, v.ty, tmap):
                raise Reject(f"payload of a variant of `{en.name}` given a value of type {ty_rust(v.ty)}")
            vs.append(v)
        return vs, ("enum", en.name, tuple(tmap.get(g, HOLE) for g in en.generics))

    def call_args(self, fn, recv_ty, args, env, ind, shown, expect=None):
        """compiled arguments and the result type of a call of a translated fn (type variables of the callee are
        determined from the receiver / arguments / expected result)"""
        if len(args) != len(fn.params):
            raise Reject(f"call of `{shown}` with {len(args)} arguments")
        if not fn.tvars:
            return [self.cx(a, env, ind, t) for a, (_, t) in zip(args, fn.params)], fn.ret
        if any(a[0] == "closure" for a in args) and self.w.ctx is not None and self.w.ctx.groups[0] in GROUPS4:
            # closures among the arguments: the other arguments (and the receiver) say what the callee's type parameters
            # are as far as the closures' PARAMETER types go; each closure's result then determines the rest
            ren = {v: ("tvar", "'" + v) for v in fn.tvars}
            m = {}
            if recv_ty is not None and fn.self_ty is not None and not match_ty(subst(fn.self_ty, ren), recv_ty, m):
                raise Reject(f"call of `{shown}`: the receiver does not fit its generic signature")
            vs = [None] * len(args)
            for j, (a, (_, pt)) in enumerate(zip(args, fn.params)):
                if a[0] != "closure":
                    vs[j] = self.cx(a, env, ind)
                    if not match_ty(subst(pt, ren), vs[j].ty, m):
                        raise Reject(f"call of `{shown}`: argument types do not fit its generic signature")
            for j, (a, (_, pt)) in enumerate(zip(args, fn.params)):
                if a[0] == "closure":
                    want = subst(subst(pt, ren), m)
                    if want[0] != "fn":
                        raise Reject(f"call of `{shown}`: a closure where {ty_rust(want)} is required")
                    vs[j] = self.cx_closure(a, want[1], env, ind, None if tvars_primed(want[2]) or has_hole(want[2]) else want[2])
                    if not match_ty(subst(pt, ren), vs[j].ty, m):
                        raise Reject(f"call of `{shown}`: the closure's result type {ty_rust(vs[j].ty[2])} does not fit its generic signature")
            back = {"'" + v: m.get("'" + v, HOLE) for v in fn.tvars}
            ptys = [subst(subst(t, ren), back) for _, t in fn.params]
            ret = subst(subst(fn.ret, ren), back)
        else:
            vs = [self.cx(a, env, ind) for a in args]
            ptys, ret = fn.instance(recv_ty, [v.ty for v in vs], shown)
        for v, pt in zip(vs, ptys):
            self.fit(v, pt, f"argument of `{shown}`")
        if expect is not None and has_hole(ret) and unify(ret, expect) is not None:
            ret = unify(ret, expect)
        return vs, ret

    def dropped_note(self, en, name):
        return f" (variant `{name}` exists in the source but is outside the translated restriction)" if name in en.dropped else ""

    def instantiate(self, key, vs, shown):
        parsed, base, compile_instance = self.w.generic_fns[key]
        name, gs, mode, params, ret, body = parsed
        if len(gs) != 1 or len(vs) != len(params):
            raise Reject(f"call of generic `{shown}` ({len(gs)} type parameters, {len(vs)} arguments)")
        t = None
        for v in vs:
            t = v.ty if t is None else unify(t, v.ty)
            if t is None:
                raise Reject(f"call of generic `{shown}` with arguments of different types")
        if t not in (DEC, INT, NAT):
            raise Reject(f"call of generic `{shown}` at type {ty_rust(t)} (only Decimal / i64 / u64)")
        for v in vs:
            v.ty = t
        ik = key + (t,)
        if ik not in self.w.instances:
            self.w.instances[ik] = compile_instance(t)
        return self.w.instances[ik]

    def cx_structlit(self, segs, fs, env, ind, expect):
        shown = "::".join(segs)
        given = {}
        for f, x in fs:
            if f in given:
                raise Reject(f"field `{f}` given twice")
            given[f] = x
        st, targs = self.struct_of(segs)
        if st is not None and (len(segs) == 1 or segs == ["Self"]):
            if st.tuple:
                raise Reject(f"`{shown} {{..}}` for a tuple struct")
            if st.dropped:
                raise Reject(f"construction of `{st.name}`, whose fields are only partly translated")
            if set(given) != {f for f, _ in st.fields}:
                raise Reject(f"struct literal of `{st.name}` does not give exactly its fields")
            tmap = {}
            if st.generics:
                if targs is None and expect and expect[0] == "struct" and expect[1] == st.name:
                    targs = expect[2]
                tmap = {g: a for g, a in zip(st.generics, targs or ()) if not has_hole(a)}
            vals, texts = [], []
            for f, t in st.fields:
                known = all(x in tmap for x in tvars_of(t)) or not st.generics
                v = self.cx(given[f], env, ind, subst(t, tmap) if known else None)
                if not known and not match_ty(t, v.ty, tmap):
                    raise Reject(f"field `{f}` of `{st.name}` given a value of type {ty_rust(v.ty)}")
                vals.append(f"{lean_id(f)} := {self.val(v)}")
                texts.append(self.val(v))
            ty = ("struct", st.name, tuple(tmap.get(g, HOLE) for g in st.generics))
            if self.undet(ty) or any(a == HOLE for a in ty[2]):
                raise Reject(f"type arguments of `{st.name}` are not determined by the literal")
            if any("\n" in x for x in texts) and self.w.ctx is not None and self.w.ctx.groups[0] in GROUPS4:
                # a field value that spans lines: Lean's structure-instance syntax is column sensitive, the constructor
                # applied to the fields in declaration order is not
                return V("(" + " ".join([f"{ty_name(st.name)}.mk"] + [atom(x) for x in texts]) + f" : {ty_lean(ty)})", ty)
            return V("{ " + ", ".join(vals) + f" : {ty_lean(ty)} }}", ty)
        if len(segs) >= 2:
            ename = segs[-2] if segs[-2] != "Self" else (self.self_ty[1] if self.self_ty else None)
            if ename in self.w.enums:
                en = self.w.enums[ename]
                var = en.variant(segs[-1])
                if var is None or var[1] != "struct":
                    raise Reject(f"`{shown} {{..}}`: no translated struct variant `{segs[-1]}` of `{ename}`" + self.dropped_note(en, segs[-1]))
                if set(given) != {f for f, _ in var[2]}:
                    raise Reject(f"`{shown} {{..}}` does not give exactly the variant's fields")
                vs, ety = self.enum_fields(en, [given[f] for f, _ in var[2]], var[2], env, ind, expect)
                return V("(" + " ".join([f"{ename}.{segs[-1]}"] + [atom(self.val(v)) for v in vs]) + ")", ety)
        raise Reject(f"struct literal `{shown} {{..}}` of a type that is not translated")

    def cx_field(self, e, env, ind):
        r = self.cx(e[1], env, ind)
        f = e[2]
        if r.ty[0] == "tuple" and f.isdigit() and int(f) < len(r.ty[1]):
            return V(f"{atom(r.text)}.{int(f) + 1}", r.ty[1][int(f)])
        if r.ty[0] == "opaque" and f == "0" and r.ty[1] not in self.w.opaque_generic:
            return V(r.text, IDSTR)          # the text of an identifier (a newtype over `SmolStr`)
        if r.ty[0] in ("occ", "vac") and (f == "key" or (f == "value" and r.ty[0] == "occ")):
            return V(f"{atom(r.text)}.{f}", r.ty[1] if f == "key" else r.ty[2])      # internal: `e.key()` / `e.get()` (PRELUDE3)
        if r.ty[0] != "struct":
            raise Reject(f"field access `.{f}` on a value of type {ty_rust(r.ty)}")
        st = self.w.structs[r.ty[1]]
        if f.isdigit():
            if not st.tuple:
                raise Reject(f"`.{f}` on `{st.name}`, which is not a tuple struct")
            f = "f" + f
        ft = st.field(f, r.ty[2])
        if ft is None:
            if f in st.dropped:
                raise Reject(f"field `{f}` of `{st.name}` is not translated (its type `{st.dropped[f]}` is outside the restriction of this struct)")
            raise Reject(f"struct `{st.name}` has no field `{f}`")
        return V(f"{atom(r.text)}.{lean_id(f)}", ft)

    def cx_mcall(self, e, env, ind, expect):
        _, recv, name, args = e
        r = self.cx(recv, env, ind)
        t = r.ty
        if self.w.ctx is not None and self.w.ctx.groups[0] in GROUPS4 and t[0] in ("oom", "noom"):
            return self.cx_coll_call(e, r, env, ind, expect)
        if self.w.ctx is not None and self.w.ctx.groups[0] in GROUPS4 and t[0] == "bag" and name in ("map", "filter", "filter_map", "cloned", "copied"):
            # an element-wise transformation of an UNORDERED collection is unordered: it stays a `Rust.Bag`
            v = self.cx_iter_call(e, V(r.text, ("seq", t[1])), env, ind, ("seq", expect[1]) if expect and expect[0] in ("bag", "seq") else None)
            return V(v.text, ("bag", v.ty[1]))
        if self.w.ctx is not None and self.w.ctx.groups[0] in GROUPS4 and t[0] in ("list", "seq", "imap", "opt"):
            v = self.cx_iter_call(e, r, env, ind, expect)
            if v is not None:
                return v
        if t[0] in MAPLIKE or t[0] in ENTRYLIKE or t[0] == "bag":
            return self.cx_map_call(e, r, env, ind, expect)
        if t[0] in ("struct", "enum") and self.method_fn(t[1], name) is not None:
            fn = self.w.fns[(t[1], name)]
            if fn.mode == "mut":
                raise Reject(f"call of the `&mut self` method `.{name}(..)` inside a larger expression (accepted only as a whole statement / initialiser / tail)")
            if fn.mode not in ("ref", "own", "ownmut"):
                raise Reject(f"`.{name}(..)`: `{t[1]}::{name}` takes no `self`")
            vs, ret = self.call_args(fn, t, args, env, ind, f".{name}(..)", expect)
            return V("(" + " ".join([self.fname(fn, self.call_convs(fn, vs, t, expect)), atom(r.text)] + [atom(self.val(v)) for v in vs]) + ")", ret)
        if t[0] in ("struct", "enum") and (t[1], name) in self.w.failed:
            raise Reject(f"call of `{t[1]}::{name}`, which was rejected above")
        if t[0] == "tvar" and name == "into" and not args:
            return self.cx_into(r, expect)
        if t[0] == "tvar" and not (name == "clone" and not args) and self.trait_method(t, name) is not None:
            call, rt, mode = self.trait_call(t, r.text, name, args, env, ind)
            if mode != "ref":
                raise Reject(f"call of the `&mut self` trait method `.{name}(..)` inside a larger expression (accepted only as a whole "
                             "statement / initialiser / tail on a field path of a mutable variable)")
            return V(f"({call})", rt)
        if t[0] == "tvar" and not (name == "clone" and not args):
            cands = [tn for tn, ms in self.w.traits.items() if name in ms]
            if len(cands) != 1:
                raise Reject(f"method `.{name}(..)` on a value of the type parameter `{t[1]}`: "
                             + ("no translated trait has it" if not cands else "several translated traits have it"))
            ptys, rt = self.w.traits[cands[0]][name]
            if len(args) != len(ptys):
                raise Reject(f"`.{name}(..)` with {len(args)} arguments")
            sub = {"Self": t}
            vs = [self.cx(a, env, ind, subst(pt, sub)) for a, pt in zip(args, ptys)]
            x = f"{t[1]}_{cands[0]}"
            if x in env:
                raise Reject(f"local `{x}` shadows the trait parameter `{x}`")
            self.w.externs[x] = ([], UNIT, f"{cands[0]} {t[1]}")
            self.w.tvar_ops.add(x)
            self.w.tvar_op_var[x] = t[1]
            self.need_extern(x)
            return V("(" + " ".join([f"{x}.{lean_id(name)}", atom(r.text)] + [atom(self.val(v)) for v in vs]) + ")", subst(rt, sub))
        if t[0] == "lock" and name == "read" and not args:
            return V(r.text, t[1])          # the read guard is the value (the lock is transparent)
        if t[0] == "lock" and name == "write" and not args:
            raise Reject("`.write()` other than `let mut guard = <place>.write();` on a field path of `&mut self`")
        if t == TIME and name == "add" and len(args) == 1:
            a = self.cx(args[0], env, ind, DELTA)
            return V(f"({r.text} + {a.text})", TIME)
        if t == INT and name == "abs" and not args:
            return V(f"(if {r.text} < 0 then -{atom(r.text)} else {r.text})", INT)
        if t == DEC and name == "cmp" and len(args) == 1:
            a = self.cx(args[0], env, ind, DEC)
            return V(f"(Decimal.cmp {atom(r.text)} {atom(a.text)})", ("enum", "Ordering"))
        if t == DEC and name == "sqrt" and not args:
            # rust_decimal's MathematicalOps::sqrt is not modelled: the explicit parameter `decimal_sqrt` (PRELUDE2)
            if "decimal_sqrt" in env:
                raise Reject("local `decimal_sqrt` shadows the extern function `Decimal::sqrt`")
            self.need_extern("decimal_sqrt")
            return V(f"(decimal_sqrt {atom(r.text)})", ("opt", DEC))
        if t == DELTA and name == "num_seconds" and not args:
            return V(f"(Int.tdiv {atom(r.text)} 1000)", INT)
        if t == DELTA and name == "max" and len(args) == 1:
            a = self.cx(args[0], env, ind, DELTA)
            return V(f"(if {r.text} ≥ {a.text} then {r.text} else {a.text})", DELTA)
        if name == "clone" and not args:
            return r
        if name == "into" and not args:
            return self.cx_into(r, expect)
        if t == TIME and name == "checked_add_signed" and len(args) == 1:
            a = self.cx(args[0], env, ind, DELTA)      # never `None`: overflow is not modelled (as for `checked_add`)
            return V(f"(some ({r.text} + {a.text}))", ("opt", TIME))
        if t == NAT and name == "to_smolstr" and not args:
            return V(r.text, IDSTR)       # the decimal text of a u64: an injective coding, kept as the number
        if t[0] == "list" and name == "iter" and not args:
            return V(r.text, ("seq", t[1]))
        if t[0] == "seq" and name == "filter" and len(args) == 1:
            c = args[0]
            if c[0] != "closure" or not isinstance(c[1], str) or has_hole(t[1]):
                raise Reject("`.filter(..)` with an argument that is not a closure `|x| ..`")
            x, env2 = self.bind(c[1], t[1], False, env)
            b = self.cx(c[2], env2, ind, BOOL)
            return V(f"(List.filter (fun {x} => {self.val(b)}) {atom(r.text)})", t)
        if t[0] == "seq" and name in ("cloned", "copied") and not args:
            return r
        if t[0] == "seq" and name == "collect" and not args:
            return V(r.text, ("list", t[1]))
        if t == DEC and name == "abs" and not args:
            return V(f"(Decimal.abs {atom(r.text)})", DEC)
        if t == DEC and name == "is_zero" and not args:
            return V(f"({r.text} = 0)", BOOL, True)
        if t == DEC and name == "checked_div" and len(args) == 1:
            a = self.cx(args[0], env, ind, DEC)
            return V(f"(Decimal.checked_div {atom(r.text)} {atom(a.text)})", ("opt", DEC))
        if t == DEC and name in ("checked_mul", "checked_add", "checked_sub") and len(args) == 1:
            a = self.cx(args[0], env, ind, DEC)
            return V(f"(Decimal.{name} {atom(r.text)} {atom(a.text)})", ("opt", DEC))
        if t == BOOL and name == "then_some" and len(args) == 1:
            a = self.cx(args[0], env, ind, expect[1] if expect and expect[0] == "opt" else None)
            return V(f"(if {self.prop(r)} then some {atom(self.val(a))} else none)", ("opt", a.ty))
        if t[0] == "opt" and name in ("is_some", "is_none") and not args:
            return V(f"({r.text} {'≠' if name == 'is_some' else '='} none)", BOOL, True)
        if t[0] == "opt" and name == "as_ref" and not args:
            return r                      # `&Option<T>` -> `Option<&T>`: references are values
        if t[0] == "opt" and name in ("is_none_or", "is_some_and", "map") and len(args) == 1:
            c = args[0]
            if name == "map" and c[0] == "closure" and isinstance(c[1], tuple) and not has_hole(t[1]):
                # `opt.map(|(a, b)| e)` on an Option of a tuple
                pt, env2 = self.cpat(c[1], t[1], env)
                b = self.cx(c[2], env2, ind, expect[1] if expect and expect[0] == "opt" else None)
                return V(f"(match {r.text} with | none => none | some {atom(pt)} => some {atom(self.val(b))})", ("opt", b.ty))
            if c[0] != "closure" or c[1] is None or not isinstance(c[1], str):
                raise Reject(f"`.{name}(..)` with an argument that is not a closure `|x| ..`")
            if has_hole(t[1]):
                raise Reject(f"`.{name}(..)` on an Option of undetermined type")
            x, env2 = self.bind(c[1], t[1], False, env)
            if name == "map":
                b = self.cx(c[2], env2, ind, expect[1] if expect and expect[0] == "opt" else None)
                if self.w.ctx is not None and self.w.ctx.groups[0] in GROUPS4:
                    # (fourth file) the combinator, not a `match`: agreement proofs normalise `find(p).map(f)` / `find_map(..)`
                    return V(f"(Option.map (fun {x} => {self.val(b)}) {atom(r.text)})", ("opt", b.ty))
                return V(f"(match {r.text} with | none => none | some {x} => some {atom(self.val(b))})", ("opt", b.ty))
            b = self.cx(c[2], env2, ind, BOOL)
            dflt = "true" if name == "is_none_or" else "false"
            return V(f"(match {r.text} with | none => {dflt} | some {x} => {atom(self.val(b))})", BOOL)
        if t[0] == "opt" and name == "or" and len(args) == 1:
            a = self.cx(args[0], env, ind, t)
            x = self.fresh("some")
            return V(f"(match {r.text} with | some {x} => some {x} | none => {self.val(a)})", a.ty)
        if t[0] == "opt" and name == "unwrap_or" and len(args) == 1:
            a = self.cx(args[0], env, ind, t[1] if not has_hole(t[1]) else None)
            x = self.fresh("some")
            return V(f"(match {r.text} with | some {x} => {x} | none => {self.val(a)})", a.ty)
        if t[0] == "opt" and name in ("cloned", "copied") and not args:
            return r                      # `Option<&T>` -> `Option<T>`: references are values
        if t[0] == "opt" and name == "filter" and len(args) == 1:
            c = args[0]
            if c[0] != "closure" or not isinstance(c[1], str):
                raise Reject("`.filter(..)` with an argument that is not a closure `|x| ..`")
            if has_hole(t[1]):
                raise Reject("`.filter(..)` on an Option of undetermined type")
            x, env2 = self.bind(c[1], t[1], False, env)
            b = self.cx(c[2], env2, ind, BOOL)
            return V(f"(match {r.text} with | none => none | some {x} => if {self.prop(b)} then some {x} else none)", t)
        if t[0] == "opt" and name == "unwrap_or_else" and len(args) == 1:
            c = args[0]
            if c[0] != "closure" or c[1] is not None:
                raise Reject("`.unwrap_or_else(..)` with an argument that is not a closure `|| ..`")
            a = self.cx(c[2], env, ind, t[1] if not has_hole(t[1]) else None)
            if a.ty == HOLE and not has_hole(t[1]):
                a.ty = t[1]
            if c[2][0] == "panic":         # `|| panic!(..)`
                self.inhabit(a.ty)
            x = self.fresh("some")
            return V(f"(match {r.text} with | some {x} => {x} | none => {self.val(a)})", a.ty)
        if t[0] == "opt" and name in ("ok_or", "ok_or_else") and len(args) == 1:
            c = args[0]
            if name == "ok_or_else":
                if c[0] != "closure" or c[1] is not None:
                    raise Reject("`.ok_or_else(..)` with an argument that is not a closure `|| ..`")
                c = c[2]
            a = self.cx(c, env, ind, expect[2] if expect and expect[0] == "res" else None)
            x = self.fresh("some")
            return V(f"(match {r.text} with | some {x} => Except.ok {x} | none => Except.error {atom(self.val(a))})", ("res", t[1], a.ty))
        if t[0] == "opt" and name == "replace":
            raise Reject("`.replace(..)` inside a larger expression (accepted only as a whole statement on a field of `&mut self`)")
        if t[0] == "opt" and name in ("expect", "unwrap") and not args:
            if has_hole(t[1]):
                raise Reject(f"`.{name}()` on an Option of undetermined type")
            self.inhabit(t[1])
            x = self.fresh("some")
            return V(f"(match {r.text} with | some {x} => {x} | none => Rust.unreachable)", t[1])
        if t[0] == "res" and name in ("expect", "unwrap") and not args and self.w.ctx is not None and self.w.ctx.groups[0] in GROUPS4:
            if has_hole(t[1]):
                raise Reject(f"`.{name}()` on a Result of undetermined type")
            self.inhabit(t[1])
            x = self.fresh("ok")
            return V(f"(match {r.text} with | Except.ok {x} => {x} | Except.error _ => Rust.unreachable)", t[1])
        if t[0] == "res" and name in ("map", "map_err") and len(args) == 1 and self.w.ctx is not None and self.w.ctx.groups[0] in GROUPS4:
            if has_hole(t[1] if name == "map" else t[2]):
                raise Reject(f"`.{name}(..)` on a Result of undetermined type")
            f, b = self.lam(args[0], t[1] if name == "map" else t[2], env, ind, None, f"`.{name}(..)`")
            ok, er = self.fresh("ok"), self.fresh("err")
            if name == "map":
                return V(f"(match {r.text} with | Except.ok {ok} => Except.ok ({f} {ok}) | Except.error {er} => Except.error {er})", ("res", b.ty, t[2]))
            return V(f"(match {r.text} with | Except.ok {ok} => Except.ok {ok} | Except.error {er} => Except.error ({f} {er}))", ("res", t[1], b.ty))
        if t[0] == "res" and name == "ok" and not args and self.w.ctx is not None and self.w.ctx.groups[0] in GROUPS4:
            x = self.fresh("ok")
            return V(f"(match {r.text} with | Except.ok {x} => some {x} | Except.error _ => none)", ("opt", t[1]))
        if t == DEC and name == "is_sign_negative" and not args:
            return V(f"({r.text} < 0)", BOOL, True)
        if t[0] == "opt" and name == "take":
            raise Reject("`.take()` inside a larger expression (accepted only as a whole initialiser / `match` scrutinee on a field of `&mut self`)")
        if t == TIME and name == "signed_duration_since" and len(args) == 1:
            a = self.cx(args[0], env, ind, TIME)
            return V(f"({r.text} - {a.text})", DELTA)
        if t == DELTA and name == "num_milliseconds" and not args:
            return V(r.text, INT)
        raise Reject(f"method call `.{name}(..)` on a value of type {ty_rust(t)}")

    # ---- (fourth file) ITERATORS as lists: PRELUDE4
    def lam(self, c, argty, env, ind, expect=None, what="closure"):
        """a closure `|x| e` / `|(a, b)| e` / `|| e` used as a pure FUNCTION VALUE (or a path `Type::method` / `Enum::Variant` /
        `f` naming a one-argument function): (Lean `fun` text, result V).  The body is compiled as a pure expression, so it
        can neither assign nor call a state-changing method; it may read any variable in scope (PRELUDE4)."""
        if has_hole(argty):
            raise Reject(f"{what} over items of undetermined type")
        if c[0] == "closure":
            if c[1] is None:
                raise Reject(f"{what} without a parameter")
            if isinstance(c[1], str):
                x, env2 = self.bind(c[1], argty, False, env)
                pt = x
            else:
                pt, env2 = self.cpat(c[1], argty, env)
            if c[2][0] == "block" and not self.branch_is_pure(c[2], env2):
                b = self.closure_body(c[2], env2, ind, expect)
            else:
                b = self.cx(c[2], env2, ind + 1, expect)
            return f"(fun {pt} => {self.val(b)})", b
        if c[0] == "path":
            x = self.fresh("x")
            arg = ("lean", x, argty)
            if len(c[1]) >= 2 and argty[0] in ("struct", "enum") and c[1][-2] in (argty[1], "Self") \
                    and self.method_fn(argty[1], c[1][-1]) is not None and self.w.fns[(argty[1], c[1][-1])].mode != "none":
                b = self.cx(("mcall", arg, c[1][-1], []), env, ind, expect)       # a method path `Type::method`
            else:
                b = self.cx(("call", c[1], [arg]), env, ind, expect)               # a function / constructor path
            return f"(fun {x} => {self.val(b)})", b
        raise Reject(f"{what} that is neither a closure `|x| ..` nor a path naming a function")

    def cx_closure(self, c, argtys, env, ind, expect_ret):
        """(fourth file) a closure handed to a parameter of function type `Fn(A, B) -> R`: the Lean function; V of type fn"""
        params = [] if c[1] is None else c[1] if isinstance(c[1], list) else [c[1]]
        if len(params) != len(argtys):
            raise Reject(f"closure with {len(params)} parameters where a function of {len(argtys)} is required")
        env2, pts = env, []
        for q, t in zip(params, argtys):
            if has_hole(t) or tvars_primed(t):
                raise Reject("closure parameter of undetermined type")
            if isinstance(q, str):
                x, env2 = self.bind(q, t, False, env2)
                pts.append(x)
            else:
                pt, env2 = self.cpat(q, t, env2)
                pts.append(pt)
        if c[2][0] == "block" and not self.branch_is_pure(c[2], env2):
            b = self.closure_body(c[2], env2, ind, expect_ret)
        else:
            b = self.cx(c[2], env2, ind + 1, expect_ret)
        head = " ".join(pts) if pts else "(_ : Unit)"
        return V(f"(fun {head} => {self.val(b)})", ("fn", tuple(argtys), b.ty))

    def closure_body(self, blk, env, ind, expect):
        """a closure whose body is a block with early exits (`let x = e?;`, `let .. else { return None; }`, `return ..`): compiled
        like a function body whose result type is the closure's; the enclosing function's state cannot be changed (every
        variable of the enclosing scope is read-only inside)"""
        if expect is None:
            expect = HOLE          # nothing known from the context: the values the body returns say what the result type is
        sub = Compiler(self.w, self.self_ty, "none", expect, self.used, self.tr)
        sub.used = self.used
        sub.globs, sub.into_bounds, sub.from_bounds, sub.bounds, sub.externs = self.globs, self.into_bounds, self.from_bounds, self.bounds, self.externs
        sub.mutparam = None
        env2 = {n: Var(v.ty, False, v.lean) for n, v in env.items()}

        def k(v, _env, ind2):
            # what the context leaves open of the result type (`Option<_>`) is what the returned values say
            sub.fit(v, sub.ret, "value returned by the closure")
            if has_hole(sub.ret) and unify(sub.ret, v.ty) is not None:
                sub.ret = unify(sub.ret, v.ty)
            return "  " * ind2 + sub.val(v)
        text = sub.cs(blk[1], 0, blk[2], env2, k, ind + 2, expect)
        if has_hole(sub.ret):
            raise Reject("closure with early exits (`?` / `return`) whose result type is not determined")
        return V("(\n" + text + ")", sub.ret)

    def cx_vocab_call(self, segs, args, env, ind, expect):
        """(fourth file) path calls with a fixed meaning (PRELUDE4): `Either::Left(it)` / `Either::Right(it)` of iterators,
        `std::iter::empty()` / `once(x)`, the constructors / conversions of barter-integration's `OneOrMany` / `NoneOneOrMany`"""
        head, name = (segs[-2] if len(segs) > 1 else None), segs[-1]
        if head == "Either" and name in ("Left", "Right") and len(args) == 1:
            a = self.cx(args[0], env, ind, expect)
            if a.ty[0] not in ("seq", "bag"):
                raise Reject(f"`Either::{name}(..)` of a value of type {ty_rust(a.ty)} (only of an iterator: the wrapped one)")
            return a
        if segs[-2:] == ["iter", "empty"] and not args:
            return V("[]", ("seq", HOLE))
        if segs[-2:] == ["iter", "once"] and len(args) == 1:
            a = self.cx(args[0], env, ind)
            return V(f"[{self.val(a)}]", ("seq", a.ty))
        if head in ("OneOrMany", "NoneOneOrMany"):
            k = "oom" if head == "OneOrMany" else "noom"
            ns = "Rust." + head
            et = expect[1] if expect and expect[0] == k else None
            if name == "from_iter" and len(args) == 1:
                a = self.cx(args[0], env, ind)
                if a.ty[0] not in ("seq", "list", "pending"):
                    raise Reject(f"`{head}::from_iter(..)` of a value of type {ty_rust(a.ty)}")
                return V(f"({ns}.from_iter {atom(a.text)})", (k, unify(a.ty[1], et) if et and unify(a.ty[1], et) else a.ty[1]))
            if name == "from" and len(args) == 1:
                a = self.cx(args[0], env, ind)
                if a.ty[0] == "list":
                    return V(f"({ns}.from_vec {atom(a.text)})", (k, a.ty[1]))
                if a.ty[0] == "opt" and k == "noom":
                    return V(f"(Rust.NoneOneOrMany.from_option {atom(a.text)})", (k, a.ty[1]))
                if k == "oom":
                    return V(f"(Rust.OneOrMany.One {atom(self.val(a))})", (k, a.ty))
                raise Reject(f"`{head}::from(..)` of a value of type {ty_rust(a.ty)}")
            if name == "default" and not args and k == "noom":
                return V("Rust.NoneOneOrMany.None", (k, et if et else HOLE))
            if name == "One" and len(args) == 1:
                a = self.cx(args[0], env, ind, et)
                return V(f"({ns}.One {atom(self.val(a))})", (k, a.ty))
            if name == "Many" and len(args) == 1:
                a = self.cx(args[0], env, ind, ("list", et) if et else None)
                if a.ty[0] != "list":
                    raise Reject(f"`{head}::Many(..)` of a value of type {ty_rust(a.ty)}")
                return V(f"({ns}.Many {atom(a.text)})", (k, a.ty[1]))
            raise Reject(f"`{head}::{name}(..)` (not in the vocabulary of PRELUDE4)")
        return None

    def cx_coll_call(self, e, r, env, ind, expect):
        """(fourth file) methods of barter-integration's `OneOrMany` / `NoneOneOrMany` (PRELUDE4)"""
        _, recv, name, args = e
        t = r.ty
        ns = "Rust.OneOrMany" if t[0] == "oom" else "Rust.NoneOneOrMany"
        if name == "contains" and len(args) == 1:
            a = self.cx(args[0], env, ind, t[1] if not has_hole(t[1]) else None)
            return V(f"({ns}.contains {atom(r.text)} {atom(self.val(a))})", BOOL)
        if name in ("iter", "into_iter", "as_ref", "into_vec") and not args:
            return V(f"({ns}.to_list {atom(r.text)})", ("seq" if name in ("iter", "into_iter") else "list", t[1]))
        if name == "len" and not args:
            return V(f"(List.length ({ns}.to_list {atom(r.text)}))", NAT)
        if t[0] == "noom" and name in ("is_none", "is_empty") and not args:
            return V(f"(Rust.NoneOneOrMany.is_none {atom(r.text)})", BOOL)
        if t[0] == "noom" and name == "extend" and len(args) == 1:
            a = self.cx(args[0], env, ind)
            if a.ty[0] == "noom":
                at = f"(Rust.NoneOneOrMany.to_list {atom(a.text)})"
            elif a.ty[0] in ("seq", "list"):
                at = a.text
            else:
                raise Reject(f"`.extend(..)` of a value of type {ty_rust(a.ty)}")
            u = unify(a.ty[1], t[1])
            if u is None:
                raise Reject(f"`.extend(..)` of items of type {ty_rust(a.ty[1])} onto {ty_rust(t)}")
            return V(f"(Rust.NoneOneOrMany.extend {atom(r.text)} {atom(at)})", ("noom", u))
        raise Reject(f"method `.{name}(..)` on a value of type {ty_rust(t)} (not in the vocabulary of PRELUDE4)")

    def cx_iter_call(self, e, r, env, ind, expect):
        """(fourth file) the iterator vocabulary of PRELUDE4 on `Vec` / slices / `IndexMap` / iterators (`seq`): V, or None
        if the call is not part of it"""
        _, recv, name, args = e
        t = r.ty
        k = t[0]
        if k == "list" and name in ("iter", "into_iter") and not args:
            return V(r.text, ("seq", t[1]))
        if k == "opt" and name in ("iter", "into_iter") and not args:
            return V(f"(Option.toList {atom(r.text)})", ("seq", t[1]))
        if k == "imap" and name in ("iter", "into_iter") and not args:
            return V(r.text, ("seq", ("tuple", (t[1], t[2]))))
        if k == "imap" and name in ("values", "into_values") and not args:
            return V(f"(Rust.IndexMap.values {atom(r.text)})", ("seq", t[2]))
        if k == "imap" and name in ("keys", "into_keys") and not args:
            return V(f"(Rust.IndexMap.keys {atom(r.text)})", ("seq", t[1]))
        if k == "list" and name == "len" and not args:
            return V(f"(List.length {atom(r.text)})", NAT)
        if k == "list" and name == "is_empty" and not args:
            return V(f"({r.text} = [])", BOOL, True)
        if k in ("list", "seq") and name == "contains" and len(args) == 1 and k == "list":
            a = self.cx(args[0], env, ind, t[1] if not has_hole(t[1]) else None)
            return V(f"(List.elem {atom(self.val(a))} {atom(r.text)})", BOOL)
        if k == "list" and name == "first" and not args:
            return V(f"(List.head? {atom(r.text)})", ("opt", t[1]))
        if k == "list" and name == "last" and not args:
            return V(f"(List.getLast? {atom(r.text)})", ("opt", t[1]))
        if k == "list" and name == "get" and len(args) == 1:
            i = self.cx(args[0], env, ind, NAT)
            if i.ty == INTLIT:
                i.ty = NAT
            if i.ty != NAT:
                raise Reject(f"`.get(..)` with an index of type {ty_rust(i.ty)}")
            return V(f"({r.text}[{self.val(i)}]?)", ("opt", t[1]))
        if k != "seq":
            return None
        T = t[1]
        if name in ("cloned", "copied", "into_iter", "iter", "by_ref", "peekable", "fuse") and not args:
            if name in ("by_ref", "peekable", "fuse", "iter"):
                return None
            return r
        if name == "map" and len(args) == 1:
            f, b = self.lam(args[0], T, env, ind, expect[1] if expect and expect[0] == "seq" else None, "`.map(..)`")
            return V(f"(List.map {f} {atom(r.text)})", ("seq", b.ty))
        if name == "filter" and len(args) == 1:
            f, b = self.lam(args[0], T, env, ind, BOOL, "`.filter(..)`")
            return V(f"(List.filter {f} {atom(r.text)})", t)
        if name == "filter_map" and len(args) == 1:
            ex = ("opt", expect[1] if expect and expect[0] == "seq" else HOLE)
            f, b = self.lam(args[0], T, env, ind, ex, "`.filter_map(..)`")
            if b.ty[0] != "opt":
                raise Reject(f"`.filter_map(..)` with a closure that yields {ty_rust(b.ty)}")
            return V(f"(List.filterMap {f} {atom(r.text)})", ("seq", b.ty[1]))
        if name == "find" and len(args) == 1:
            f, b = self.lam(args[0], T, env, ind, BOOL, "`.find(..)`")
            return V(f"(List.find? {f} {atom(r.text)})", ("opt", T))
        if name == "find_map" and len(args) == 1:
            f, b = self.lam(args[0], T, env, ind, expect if expect and expect[0] == "opt" and not has_hole(expect) else None, "`.find_map(..)`")
            if b.ty[0] != "opt":
                raise Reject(f"`.find_map(..)` with a closure that yields {ty_rust(b.ty)}")
            return V(f"(List.findSome? {f} {atom(r.text)})", b.ty)
        if name == "position" and len(args) == 1:
            f, b = self.lam(args[0], T, env, ind, BOOL, "`.position(..)`")
            return V(f"(Rust.Iter.position {f} {atom(r.text)})", ("opt", NAT))
        if name in ("any", "all") and len(args) == 1:
            f, b = self.lam(args[0], T, env, ind, BOOL, f"`.{name}(..)`")
            return V(f"(List.{name} {atom(r.text)} {f})", BOOL)
        if name == "flat_map" and len(args) == 1:
            f, b = self.lam(args[0], T, env, ind, None, "`.flat_map(..)`")
            if b.ty[0] in ("seq", "list"):
                return V(f"(List.flatten (List.map {f} {atom(r.text)}))", ("seq", b.ty[1]))
            if b.ty[0] == "bag":
                # the items of every group come in HASH order: the whole is unordered (it cannot be handed on as an iterator)
                return V(f"(List.flatten (List.map {f} {atom(r.text)}))", ("bag", b.ty[1]))
            if b.ty[0] == "opt":
                return V(f"(List.filterMap {f} {atom(r.text)})", ("seq", b.ty[1]))
            raise Reject(f"`.flat_map(..)` with a closure that yields {ty_rust(b.ty)} (only an iterator / `Vec` / `Option`)")
        if name == "flatten" and not args:
            if T[0] in ("seq", "list"):
                return V(f"(List.flatten {atom(r.text)})", ("seq", T[1]))
            if T[0] == "opt":
                return V(f"(List.filterMap (fun x => x) {atom(r.text)})", ("seq", T[1]))
            raise Reject(f"`.flatten()` on an iterator over {ty_rust(T)}")
        if name == "chain" and len(args) == 1:
            a = self.cx(args[0], env, ind)
            if a.ty[0] not in ("seq", "list", "opt") or unify(a.ty[1], T) is None:
                raise Reject(f"`.chain(..)` of {ty_rust(a.ty)} onto an iterator over {ty_rust(T)}")
            at = f"(Option.toList {atom(a.text)})" if a.ty[0] == "opt" else a.text
            return V(f"({r.text} ++ {at})", ("seq", unify(a.ty[1], T)))
        if name == "enumerate" and not args:
            return V(f"(Rust.Iter.enumerate {atom(r.text)})", ("seq", ("tuple", (NAT, T))))
        if name == "zip" and len(args) == 1:
            a = self.cx(args[0], env, ind)
            if a.ty[0] not in ("seq", "list"):
                raise Reject(f"`.zip(..)` with {ty_rust(a.ty)}")
            return V(f"(List.zip {atom(r.text)} {atom(a.text)})", ("seq", ("tuple", (T, a.ty[1]))))
        if name == "count" and not args:
            return V(f"(List.length {atom(r.text)})", NAT)
        if name == "partition_result" and not args:
            if T[0] != "res" or has_hole(T):
                raise Reject(f"`.partition_result()` on an iterator over {ty_rust(T)}")
            return V(f"(Rust.Iter.partition_result {atom(r.text)})", ("tuple", (("pending", T[1]), ("pending", T[2]))))
        if name == "fold" and len(args) == 2:
            init = self.cx(args[0], env, ind, expect)
            if has_hole(init.ty):
                raise Reject("`.fold(..)` whose initial value has an undetermined type")
            f = self.cx_closure(args[1], (init.ty, T), env, ind, init.ty)
            return V(f"(List.foldl {f.text} {atom(self.val(init))} {atom(r.text)})", init.ty)
        if name == "next" and not args:
            raise Reject("`.next()` on an iterator (stateful consumption is not in the vocabulary)")
        if name == "collect" and (not args or args[0][0] == "tyarg"):
            tgt = expect
            if args:
                tgt = self.tr.resolve(args[0][1])
                if expect is not None:
                    tgt = unify(tgt, expect) or tgt
            if tgt is None or tgt == HOLE:
                # the target collection is what a LATER use says (`let xs = it.collect(); S { xs, .. }`): the item list, converted
                # where it is used at a collection type (`fit`); Rust infers the one target from that use too
                return V(r.text, ("pending", T))
            if tgt[0] == "list":
                u = unify(tgt[1], T)
                if u is None:
                    raise Reject(f"`.collect()` of items of type {ty_rust(T)} into {ty_rust(tgt)}")
                return V(r.text, ("list", u))
            if tgt[0] in MAPLIKE:
                u = unify(("tuple", (tgt[1], tgt[2])), T)
                if u is None:
                    raise Reject(f"`.collect()` of items of type {ty_rust(T)} into {ty_rust(tgt)}")
                ns = "Rust.Map" if tgt[0] == "map" else "Rust.IndexMap"
                return V(f"({ns}.collect {atom(r.text)})", (tgt[0], u[1][0], u[1][1]))
            if tgt[0] == "seq":
                return r
            if tgt[0] in ("oom", "noom"):
                u = unify(tgt[1], T)
                if u is None:
                    raise Reject(f"`.collect()` of items of type {ty_rust(T)} into {ty_rust(tgt)}")
                return V(f"(Rust.{'OneOrMany' if tgt[0] == 'oom' else 'NoneOneOrMany'}.from_iter {atom(r.text)})", (tgt[0], u))
            raise Reject(f"`.collect()` into {ty_rust(tgt)} (only `Vec`, `IndexMap`, `HashMap`, `NoneOneOrMany`)")
        raise Reject(f"iterator method `.{name}(..)` (not in the vocabulary of PRELUDE4)")

    def ord_convs(self, fn, m):
        """the ordering parameters `Ord_<type with the callee's type parameters>` of a generic callee, each mapped to the
        caller's ordering parameter of that type at the call's type arguments m (`T: Ord` resolves to the `Ord` impl of what `T`
        stands for); None if the callee has none"""
        out = {}
        for x in fn.externs:
            if x.startswith("Ord_") and x in self.w.externs and any(v in m for v in tvars_of(self.w.externs[x][0][0])):
                t = subst(self.w.externs[x][0][0], m)
                if has_hole(t):
                    raise Reject(f"call of `{fn.lean}`: the element type of its ordering parameter `{x}` is not determined")
                out[x] = self.ord_param(t)
        return out or None

    def ord_param(self, t):
        """(fourth file) `a <= b` of the `Ord` impl of the element type of a sorted `Vec`: NOT translated (a `#[derive(Ord)]` /
        hand-written impl), the explicit parameter `Ord_<type> : T → T → Bool` (PRELUDE4)"""
        x = "Ord_" + re.sub(r"\W+", "_", ty_rust(t)).strip("_")
        lty = f"{ty_atom(t)} → {ty_atom(t)} → Bool"
        if x in self.w.externs and self.w.externs[x][2] != lty:
            raise Reject(f"two element types share the ordering parameter name `{x}`")
        self.w.externs[x] = ([t, t], BOOL, lty)
        self.need_extern(x)
        return x

    def trait_method(self, t, name):
        """(fourth file) the TraitInfo whose method `.name(..)` on a value of the type parameter `t` is, or None"""
        if t[0] != "tvar" or self.w.ctx is None or self.w.ctx.groups[0] not in GROUPS4:
            return None
        cands = [ti for ti in self.w.trait_info.values() if name in ti.methods]
        return cands[0] if len(cands) == 1 else None

    def trait_call(self, t, recv_text, name, args, env, ind):
        """(fourth file) `x.name(args)` on a value of the type parameter `T` bound by `T: Trait<A.., Name = Ty>`: the field `name` of
        the explicit parameter `T_Trait : Trait T A.. <associated types>`.  Returns (call text, result type, receiver mode)."""
        info = self.trait_method(t, name)
        md = info.methods[name]
        T = t[1]
        tsub = {"Self": t}
        bound = next((b for b in self.bounds.get(T, []) if b[0] == info.name), None)
        if (info.generics or info.assocs) and bound is None:
            raise Reject(f"`.{name}(..)` on a value of the type parameter `{T}`, which has no bound `{T}: {info.name}<..>` in the `where` "
                         "clause of the function")
        if bound:
            for g, toks in zip(info.generics, bound[1]):
                tsub[g] = toks if isinstance(toks, tuple) else self.tr.resolve(toks)
        for an in info.assocs:
            tsub[an] = self.tr.resolve([T, "::", an])
        x = f"{T}_{info.name}"
        if x in env:
            raise Reject(f"local `{x}` shadows the trait parameter `{x}`")
        lty = " ".join([info.name, T] + [ty_atom(tsub[g]) for g in info.generics + info.assocs])
        if x in self.w.externs and self.w.externs[x][2] != lty:
            raise Reject(f"two different instances `{T}: {info.name}<..>` in the translated code (the trait parameter `{x}` would clash)")
        self.w.externs[x] = ([], UNIT, lty)
        self.w.tvar_ops.add(x)
        self.w.tvar_op_var[x] = T
        self.w.extern_tvars[x] = [T] + [v for g in info.generics + info.assocs for v in tvars_of(tsub[g])]
        self.need_extern(x)
        if len(args) != len(md["ptys"]):
            raise Reject(f"`.{name}(..)` with {len(args)} arguments")
        ren = {g: ("tvar", "'" + g) for g in md["gs"]}
        full = dict(tsub)
        if md["gs"]:
            vs = [self.cx(a, env, ind) for a in args]
            m = {}
            for pt, v in zip(md["ptys"], vs):
                if not match_ty(subst(subst(pt, ren), tsub), v.ty, m):
                    raise Reject(f"`.{name}(..)`: argument of type {ty_rust(v.ty)} does not fit the method's generic signature")
            for g in md["gs"]:
                if m.get("'" + g, HOLE) == HOLE or has_hole(m["'" + g]):
                    raise Reject(f"`.{name}(..)`: the method's type parameter `{g}` is not determined by the arguments")
                full[g] = m["'" + g]
            for pt, v in zip(md["ptys"], vs):
                self.fit(v, subst(pt, full), f"argument of `.{name}(..)`")
        else:
            vs = [self.cx(a, env, ind, subst(pt, tsub)) for a, pt in zip(args, md["ptys"])]
        convs = []
        for g, srcs in md["frm"].items():
            for u in srcs:
                f, _ = self.conversion(subst(u, full), subst(("tvar", g), full))
                y = self.fresh("x")
                convs.append(f"(fun {y} => {y})" if f is None else f"(fun {y} => {f} {y})")
        for g, tgt in md.get("into", {}).items():
            f, _ = self.conversion(subst(("tvar", g), full), subst(tgt, full))
            y = self.fresh("x")
            convs.append(f"(fun {y} => {y})" if f is None else f"(fun {y} => {f} {y})")
        call = " ".join([f"{lean_id(x)}.{lean_id(name)}"] + convs + [atom(recv_text)] + [atom(self.val(v)) for v in vs])
        return call, subst(md["rt"], full), md["mode"]

    def conversion(self, src, dst):
        """`From<src> for dst` as (Lean function text | None for the identity, the target type): the blanket `From<T> for T`, or
        the ONE one-field variant `V(src)` of the enum `dst` that carries `#[from]` / whose enum derives `From`"""
        u = unify(src, dst)
        if u is not None:
            return None, u
        if dst[0] == "enum":
            en = self.w.enums[dst[1]]
            hits = []
            for v in sorted(en.from_variants):
                var = en.variant(v, dst if len(dst) == 3 else None)
                fu = unify(subst(var[2][0][1], {g: HOLE for g in en.generics}) if len(dst) != 3 else var[2][0][1], src)
                if fu is not None:
                    hits.append((v, fu))
            if len(hits) == 1:
                return f"{en.name}.{hits[0][0]}", dst
        raise Reject(f"`.into()` from {ty_rust(src)} into {ty_rust(dst)}: no `From` conversion in the translated vocabulary "
                     "(the identity, or ONE one-field enum variant with `#[from]` / `#[derive(From)]`)")

    def cx_into(self, r, expect):
        t = r.ty
        if t[0] == "tvar":
            # a value of a type parameter `T` with the bound `T: Into<U>`: the explicit conversion parameter `T_into`
            tgt = self.into_bounds.get(t[1])
            if tgt is None:
                raise Reject(f"`.into()` on a value of the type parameter `{t[1]}`, which has no `{t[1]}: Into<..>` bound")
            x = f"{t[1]}_into"
            if x in self.w.conv_ops and self.w.conv_ops[x] != (t, tgt) and self.w.ctx is not None and self.w.ctx.groups[0] in GROUPS4:
                # (fourth file) another fn has a type parameter of the same name with another target: a name of its own
                x += "_" + re.sub(r"\W+", "_", ty_rust(tgt)).strip("_")
            self.w.externs[x] = ([t], tgt, f"{t[1]} → {ty_lean(tgt)}")
            self.w.conv_ops[x] = (t, tgt)
            self.need_extern(x)
            return V(f"({x} {atom(r.text)})", tgt)
        if expect is None or expect == HOLE:
            raise Reject("`.into()` whose target type is not determined by its context")
        f, ty = self.conversion(t, expect)
        return V(r.text if f is None else f"({f} {atom(r.text)})", ty, r.prop if f is None else False)

    def cx_map_call(self, e, r, env, ind, expect):
        """the PURE part of the map vocabulary (PRELUDE3) on `HashMap` / `IndexMap` / entries / `values()`"""
        _, recv, name, args = e
        t = r.ty
        ns = "Rust.Map" if t[0] == "map" else "Rust.IndexMap"
        if t[0] in MAPLIKE and name in ("get", "contains_key") and len(args) == 1:
            kx = self.cx(args[0], env, ind, t[1] if not has_hole(t[1]) else None)
            if name == "get":
                return V(f"({ns}.get {atom(r.text)} {atom(self.val(kx))})", ("opt", t[2]))
            return V(f"((Rust.Map.get {atom(r.text)} {atom(self.val(kx))}).isSome)", BOOL)
        if t[0] in MAPLIKE and name == "len" and not args:
            return V(f"({ns}.len {atom(r.text)})", NAT)
        if t[0] in MAPLIKE and name == "is_empty" and not args:
            return V(f"({ns}.len {atom(r.text)} = 0)", BOOL, True)
        if t[0] == "imap" and name == "get_index" and len(args) == 1:
            i = self.cx(args[0], env, ind, NAT)
            if i.ty == INTLIT:
                i.ty = NAT
            if i.ty != NAT:
                raise Reject(f"`.get_index(..)` with an index of type {ty_rust(i.ty)}")
            return V(f"(Rust.IndexMap.get_index {atom(r.text)} {atom(self.val(i))})", ("opt", ("tuple", (t[1], t[2]))))
        if t[0] in MAPLIKE and name == "values" and not args:
            return V(f"({ns}.values {atom(r.text)})", ("bag", t[2]))
        if t[0] == "bag" and name in ("all", "any") and len(args) == 1:
            if has_hole(t[1]):
                raise Reject(f"`.{name}(..)` on values of undetermined type")
            c = args[0]
            x = self.fresh("x")
            if c[0] == "closure" and isinstance(c[1], str):
                x, env2 = self.bind(c[1], t[1], False, env)
                b = self.cx(c[2], env2, ind, BOOL)
                body = self.val(b)
            elif c[0] == "path" and len(c[1]) >= 2:
                # a method path `Type::method` as the predicate
                b = self.cx(("mcall", ("lean", x, t[1]), c[1][-1], []), env, ind, BOOL)
                if t[1][0] not in ("struct", "enum") or c[1][-2] not in (t[1][1], "Self"):
                    raise Reject(f"`.{name}({'::'.join(c[1])})` on values of type {ty_rust(t[1])}")
                body = self.val(b)
            else:
                raise Reject(f"`.{name}(..)` with an argument that is neither a closure `|x| ..` nor a method path `Type::method`")
            return V(f"(List.{name} {atom(r.text)} (fun {x} => {body}))", BOOL)
        if t[0] == "map" and name == "entry" and len(args) == 1:
            lv = self.lvalue(recv, env)
            if not lv or not env[lv[0]].mut or env[lv[0]].alias:
                raise Reject("`.entry(..)` on something that is not a field path of a mutable variable")
            kx = self.cx(args[0], env, ind, t[1] if not has_hole(t[1]) else None)
            return V(f"(Rust.Map.entry {atom(r.text)} {atom(self.val(kx))})", ("entry", t[1], t[2], (lv[0], tuple(lv[1]))))
        if t[0] == "occ" and name in ("get", "get_mut") and not args:
            return V(f"{atom(r.text)}.value", t[2])
        if t[0] in ("occ", "vac") and name == "key" and not args:
            return V(f"{atom(r.text)}.key", t[1])
        if t[0] in MAPLIKE and name in ("get_mut", "get_index_mut"):
            raise Reject(f"`.{name}(..)` outside the accepted forms (`let Some(x) = m.{name}(k) else {{ .. }};`, `if let Some(x) = m.{name}(k)`, "
                         f"`let x = m.{name}(k).expect(..);`, `m.{name}(k).unwrap().f = e;`: see PRELUDE3)")
        if (t[0] in MAPLIKE and name in ("insert", "remove")) or (t[0] in ("occ", "vac") and name in ("insert", "remove")):
            raise Reject(f"`.{name}(..)` on a map / entry inside a larger expression (accepted only as a whole statement / initialiser / "
                         "`if let` scrutinee on a field path of a mutable variable)")
        if t[0] in MAPLIKE and name in ("iter", "iter_mut", "keys", "into_iter", "drain", "retain", "extend", "values_mut", "into_values", "into_keys"):
            raise Reject(f"`.{name}(..)` on a map: iteration whose order could be observed is not in the vocabulary "
                         "(accepted: `values().all(p)` / `.any(p)`, `for x in m.values_mut() { x.f = e; }`)")
        raise Reject(f"method call `.{name}(..)` on a value of type {ty_rust(t)} (not in the map vocabulary)")

    def arith(self, op, a, b, expect=None):
        u = unify(a.ty, b.ty)
        if u is None or u not in ARITH:
            raise Reject(f"`{op}` on {ty_rust(a.ty)} / {ty_rust(b.ty)}")
        if u == INTLIT and expect in (NAT, INT):
            u = expect
        if op == "%":
            raise Reject("`%` operator")
        if u in (NAT, INTLIT) and op == "/" and re.fullmatch(r"\d+", b.text) and int(b.text) != 0 \
                and self.w.ctx is not None and self.w.ctx.groups[0] in GROUPS34:
            return V(f"({a.text} / {b.text})", NAT)      # u64 division by a non-zero literal: `Nat` division (truncating, no panic)
        if u in (NAT, INTLIT) and op == "-" and self.w.ctx is not None and self.w.ctx.groups[0] in GROUPS4:
            return V(f"(Rust.u64_sub {atom(a.text)} {atom(b.text)})", NAT)      # PRELUDE4: a panic on underflow
        if u in (NAT, INTLIT) and op in ("-", "/"):
            raise Reject(f"`{op}` on u64 values (underflow / truncation is not modelled)")
        if u in (INT, DELTA) and op == "/":
            return V(f"(Int.tdiv {atom(a.text)} {atom(b.text)})", u)
        return V(f"({a.text} {op} {b.text})", u)

    def cx_bin(self, e, env, ind, expect):
        _, op, x, y = e
        if op in ("&&", "||"):
            a, b = self.cx(x, env, ind), self.cx(y, env, ind)
            return V(f"({self.prop(a)} {'∧' if op == '&&' else '∨'} {self.prop(b)})", BOOL, True)
        a = self.cx(x, env, ind)
        b = self.cx(y, env, ind, a.ty if a.ty in (NAT, INT) else None)
        if op in CMPSYM and op not in ("==", "!=") and unify(a.ty, b.ty) is not None and unify(a.ty, b.ty)[0] == "tvar":
            # `PartialOrd::{lt, le, gt, ge}` of a type parameter: the explicit parameter `T_ord : Rust.PartialOrd T`, a
            # record of the four methods (unrelated to each other: an impl may override each of them)
            t = unify(a.ty, b.ty)
            x = f"{t[1]}_ord"
            if x in env:
                raise Reject(f"local `{x}` shadows the ordering parameter `{x}`")
            self.w.externs[x] = ([t, t], BOOL, f"Rust.PartialOrd {t[1]}")
            self.w.tvar_ops.add(x)
            self.w.tvar_op_var[x] = t[1]
            self.need_extern(x)
            return V(f"({x}.{ {'<': 'lt', '<=': 'le', '>': 'gt', '>=': 'ge'}[op] } {atom(a.text)} {atom(b.text)})", BOOL)
        if op in CMPSYM:
            u = unify(a.ty, b.ty)
            ok = u in ORDERED or (op in ("==", "!=") and u is not None and u[0] in ("enum", "tvar", "opaque"))
            if not ok and op in ("==", "!=") and u is not None and u[0] == "struct" and not has_hole(u) and self.w.ctx is not None \
                    and self.w.ctx.groups[0] in GROUPS4 and "PartialEq" in getattr(self.w.structs[u[1]], "derives", []) \
                    and not self.w.structs[u[1]].dropped:
                ok = True        # `#[derive(PartialEq)]` on a fully translated struct: field-wise equality, Lean's `=` (PRELUDE4)
            if not ok:
                raise Reject(f"comparison `{op}` on {ty_rust(a.ty)} / {ty_rust(b.ty)}")
            if u == INTLIT:
                raise Reject("comparison of two integer literals")
            return V(f"({a.text} {CMPSYM[op]} {b.text})", BOOL, True)
        return self.arith(op, a, b, expect)

    # ---- patterns
    def irrefutable(self, p):
        def is_struct(n):
            if n == "Self":            # `let Self { a, b, .. } = self;` inside an impl of a translated struct
                return bool(self.self_ty) and self.self_ty[0] == "struct"
            return self.w.rn(n) in self.w.structs or self.w.alias_base(n) in self.w.structs
        return p[0] in ("pbind", "pwild") or (p[0] == "ptuple" and all(self.irrefutable(q) for q in p[1])) or \
            (p[0] == "pctor" and len(p[1]) == 1 and is_struct(p[1][0]) and all(self.irrefutable(q) for q in p[2])) or \
            (p[0] == "pstruct" and len(p[1]) == 1 and is_struct(p[1][0]) and all(self.irrefutable(q) for _, q in p[2]))

    def expand_or(self, p):
        """the or-free patterns a pattern with nested or-patterns `(A | B, c)` stands for, in source order: `(A, c)`, `(B, c)`"""
        k = p[0]
        if k == "por":
            return [r for q in p[1] for r in self.expand_or(q)]
        if k == "ptuple":
            outs = [[]]
            for q in p[1]:
                outs = [o + [r] for o in outs for r in self.expand_or(q)]
            return [("ptuple", o) for o in outs]
        if k == "pctor":
            outs = [[]]
            for q in p[2]:
                outs = [o + [r] for o in outs for r in self.expand_or(q)]
            return [("pctor", p[1], o) for o in outs]
        if k == "pstruct":
            outs = [[]]
            for f, q in p[2]:
                outs = [o + [(f, r)] for o in outs for r in self.expand_or(q)]
            return [("pstruct", p[1], o, p[3]) for o in outs]
        return [p]

    def binders_of(self, p):
        return sorted(q[1] for q in self.subpatterns(p) if q[0] == "pbind")

    # ---- usefulness of patterns (Maranget): which Lean alternatives are reachable / whether a `match` is exhaustive
    def ctor_sig(self, ty):
        """the constructors of a type as {name: [field types]}; None for a type with infinitely many values"""
        k = ty[0]
        if ty == BOOL:
            return {"true": [], "false": []}
        if k == "opt":
            return {"none": [], "some": [ty[1]]}
        if k == "res":
            return {"ok": [ty[1]], "error": [ty[2]]}
        if k == "tuple":
            return {"tuple": list(ty[1])}
        if k == "struct":
            st = self.w.structs[ty[1]]
            return {"mk": [st.field(f, ty[2]) for f, _ in st.fields]}
        if k == "enum":
            en = self.w.enums[ty[1]]
            if en.dropped and not en.rest:
                return None
            return {v[0]: [t for _, t in en.variant(v[0], ty)[2]] for v in en.variants}
        if k == "entry":
            return {"Occupied": [("occ",) + ty[1:]], "Vacant": [("vac",) + ty[1:]]}
        return None

    def npat(self, p, ty):
        """normal form of an or-free pattern for the usefulness check: ("w",) | ("c", constructor, [sub-patterns])"""
        k = p[0]
        if k in ("pwild", "pbind"):
            return ("w",)
        if k == "pbool":
            return ("c", p[1], [])
        if k == "ptuple" and not p[1] and ty == UNIT:
            return ("w",)                 # `()`: the one value of the unit type
        if k == "ptuple" and ty[0] == "tuple" and len(ty[1]) == len(p[1]):
            return ("c", "tuple", [self.npat(q, t) for q, t in zip(p[1], ty[1])])
        if k == "pctor" and p[1] == ["Some"] and ty[0] == "opt" and len(p[2]) == 1:
            return ("c", "some", [self.npat(p[2][0], ty[1])])
        if k == "ppath" and p[1] == ["None"] and ty[0] == "opt":
            return ("c", "none", [])
        if k == "pctor" and p[1] in (["Ok"], ["Err"]) and ty[0] == "res" and len(p[2]) == 1:
            return ("c", "ok" if p[1] == ["Ok"] else "error", [self.npat(p[2][0], ty[1] if p[1] == ["Ok"] else ty[2])])
        if k == "pctor" and ty[0] == "entry" and p[1][-1] in ("Occupied", "Vacant") and len(p[2]) == 1:
            return ("c", p[1][-1], [self.npat(p[2][0], self.ctor_sig(ty)[p[1][-1]][0])])
        if k in ("pctor", "pstruct") and ty[0] == "struct":
            st = self.w.structs[ty[1]]
            sub = dict(zip((f for f, _ in st.fields), p[2])) if k == "pctor" else dict(p[2])
            return ("c", "mk", [self.npat(sub[f], st.field(f, ty[2])) if f in sub else ("w",) for f, _ in st.fields])
        if k in ("pctor", "pstruct", "ppath") and ty[0] == "enum":
            en = self.w.enums[ty[1]]
            var = en.variant(p[1][-1], ty)
            if var is None:
                raise Reject(f"pattern `{'::'.join(p[1])}`: no translated variant")
            if k == "ppath":
                return ("c", var[0], [])
            sub = dict(zip((f for f, _ in var[2]), p[2])) if k == "pctor" else dict(p[2])
            return ("c", var[0], [self.npat(sub[f], t) if f in sub else ("w",) for f, t in var[2]])
        raise Reject(f"pattern `{k}` on a value of type {ty_rust(ty)}")

    def useful(self, rows, vec, tys):
        """is there a value matched by the pattern vector `vec` and by none of `rows`?"""
        if not vec:
            return not rows
        head, ty = vec[0], tys[0]
        sig = self.ctor_sig(ty)

        def specialise(c, arity):
            out = []
            for r in rows:
                if r[0][0] == "w":
                    out.append([("w",)] * arity + r[1:])
                elif r[0][1] == c:
                    out.append(list(r[0][2]) + r[1:])
            return out
        if head[0] == "c":
            ftys = sig[head[1]] if sig else []
            return self.useful(specialise(head[1], len(head[2])), list(head[2]) + vec[1:], list(ftys) + tys[1:])
        used = {r[0][1] for r in rows if r[0][0] == "c"}
        if sig is not None and used >= set(sig):
            return any(self.useful(specialise(c, len(ft)), [("w",)] * len(ft) + vec[1:], list(ft) + tys[1:]) for c, ft in sig.items())
        return self.useful([r[1:] for r in rows if r[0][0] == "w"], vec[1:], tys[1:])

    def cpat(self, p, ty, env):
        """(Lean pattern, env extended by the binders)"""
        k = p[0]
        if k == "pwild":
            return "_", env
        if k == "pbind":
            lean, env = self.bind(p[1], ty, p[2], env)
            return lean, env
        if k == "pbool":
            if ty != BOOL:
                raise Reject(f"pattern `{p[1]}` on a value of type {ty_rust(ty)}")
            return p[1], env
        if k == "ptuple" and not p[1] and ty == UNIT:
            return "()", env
        if k == "ptuple":
            if ty[0] != "tuple" or len(ty[1]) != len(p[1]):
                raise Reject(f"tuple pattern on a value of type {ty_rust(ty)}")
            out = []
            for q, t in zip(p[1], ty[1]):
                s, env = self.cpat(q, t, env)
                out.append(s)
            return "(" + ", ".join(out) + ")", env
        if k == "pctor" and p[1] == ["Some"]:
            if ty[0] != "opt" or len(p[2]) != 1:
                raise Reject(f"pattern `Some(..)` on a value of type {ty_rust(ty)}")
            s, env = self.cpat(p[2][0], ty[1], env)
            return f"some {atom(s)}", env
        if k == "ppath" and p[1] == ["None"] and not (ty[0] == "enum" and ty[1] in self.globs and self.w.enums[ty[1]].variant("None")):
            if ty[0] != "opt":
                raise Reject(f"pattern `None` on a value of type {ty_rust(ty)}")
            return "none", env
        if k == "por":
            raise Reject("or-pattern `p | q` in this position")
        if k == "pctor" and p[1] in (["Ok"], ["Err"]):
            if ty[0] != "res" or len(p[2]) != 1:
                raise Reject(f"pattern `{p[1][0]}(..)` on a value of type {ty_rust(ty)}")
            s, env = self.cpat(p[2][0], ty[1] if p[1] == ["Ok"] else ty[2], env)
            return f"Except.{'ok' if p[1] == ['Ok'] else 'error'} {atom(s)}", env
        if k == "pctor" and ty[0] == "entry" and p[1][-1] in ("Occupied", "Vacant") and (len(p[1]) == 1 or p[1][-2] == "Entry"):
            if len(p[2]) != 1:
                raise Reject(f"pattern `Entry::{p[1][-1]}(..)` arity")
            s, env = self.cpat(p[2][0], ("occ" if p[1][-1] == "Occupied" else "vac",) + ty[1:], env)
            return f"Rust.Entry.{p[1][-1]} {atom(s)}", env
        if k in ("pctor", "pstruct") and ty[0] == "struct" and (self.w.rn(p[1][-1]) in (ty[1], "Self") or self.w.alias_base(p[1][-1]) == ty[1]):
            st = self.w.structs[ty[1]]
            if st.dropped:
                raise Reject(f"pattern on `{st.name}`, whose fields are only partly translated")
            if k == "pctor":
                if not st.tuple or len(p[2]) != len(st.fields):
                    raise Reject(f"tuple-struct pattern on `{st.name}`")
                sub = dict(zip((f for f, _ in st.fields), p[2]))
                rest = False
            else:
                sub, rest = dict(p[2]), p[3]
                if len(sub) != len(p[2]) or not set(sub) <= {f for f, _ in st.fields}:
                    raise Reject(f"struct pattern on `{st.name}` names unknown / repeated fields")
                if not rest and len(sub) != len(st.fields):
                    raise Reject(f"struct pattern on `{st.name}` does not name every field (and has no `..`)")
            out = []
            for f, _ in st.fields:
                if f in sub:
                    s, env = self.cpat(sub[f], st.field(f, ty[2]), env)
                    out.append(s)
                else:
                    out.append("_")
            return "⟨" + ", ".join(out) + "⟩", env
        if k == "ppath" and ty[0] == "enum" and len(p[1]) == 1 and ty[1] in self.globs:
            p = ("ppath", [ty[1], p[1][0]])
        if k in ("pctor", "pstruct") and ty[0] == "enum" and len(p[1]) == 1 and ty[1] in self.globs and self.w.enums[ty[1]].variant(p[1][0]) \
                and self.w.ctx is not None and self.w.ctx.groups[0] in GROUPS4:
            p = (k, [ty[1], p[1][0]]) + tuple(p[2:])          # (fourth file) `Variant(x)` of an enum in scope through `use Enum::*;`
        if k in ("pctor", "pstruct", "ppath") and ty[0] == "enum" and len(p[1]) >= 2 and (p[1][-2] in (ty[1], "Self") or self.w.alias_base(p[1][-2]) == ty[1]):
            en = self.w.enums[ty[1]]
            var = en.variant(p[1][-1], ty)
            if var is None:
                raise Reject(f"pattern `{'::'.join(p[1])}`: no translated variant")
            want = {"ppath": "unit", "pctor": "tuple", "pstruct": "struct"}[k]
            if var[1] != want:
                raise Reject(f"pattern `{'::'.join(p[1])}` does not have the variant's shape")
            out = []
            if k == "pctor":
                if len(p[2]) != len(var[2]):
                    raise Reject(f"pattern `{'::'.join(p[1])}(..)` arity")
                for q, (_, t) in zip(p[2], var[2]):
                    s, env = self.cpat(q, t, env)
                    out.append(atom(s))
            elif k == "pstruct":
                sub = dict(p[2])
                if not set(sub) <= {f for f, _ in var[2]} or (not p[3] and len(sub) != len(var[2])):
                    raise Reject(f"pattern `{'::'.join(p[1])} {{..}}` fields")
                for f, t in var[2]:
                    if f in sub:
                        s, env = self.cpat(sub[f], t, env)
                        out.append(atom(s))
                    else:
                        out.append("_")
            return " ".join([f"{en.name}.{var[0]}"] + out), env
        raise Reject(f"pattern `{k}` on a value of type {ty_rust(ty)}")

    def needs_order(self, e):
        """a `match` that needs the ordered reading: guards, or-patterns, a wildcard arm or a tuple scrutinee"""
        return e[1][0] == "tuple" or any(g is not None or len(ps) != 1 or ps[0][0] == "pwild" or len(self.expand_or(ps[0])) != 1
                                          or (ps[0][0] == "pbind" and len(e[2]) > 1)        # `x => ..` as the catch-all arm
                                          for ps, g, _ in e[2])

    def binder_free(self, p):
        """no binder and no constructor with arguments: the patterns the if-chain reading can test"""
        k = p[0]
        if k in ("pbind", "pctor", "pstruct"):
            return False
        if k == "ptuple":
            return all(self.binder_free(q) for q in p[1])
        return True

    def is_ordered(self, e):
        """an ordered `match` WITHOUT guards whose patterns bind variables / take constructors apart: it becomes a Lean
        `match` with the alternatives in source order (Lean, like Rust, takes the first alternative that matches)"""
        return (self.needs_order(e) and all(g is None for _, g, _ in e[2])
                and any(not self.binder_free(p) for ps, _, _ in e[2] for p in ps))

    def is_chain(self, e):
        """an ordered `match` that becomes an if-chain (guards allowed, binder-free patterns only)"""
        return self.needs_order(e) and not self.is_ordered(e) and not self.is_gmatch(e)

    def takes_apart(self, p):
        """does the pattern take a value apart (constructor / struct patterns, binders below the top)?"""
        k = p[0]
        if k in ("pctor", "pstruct"):
            return True
        if k == "ptuple":
            return any(q[0] == "pbind" or self.takes_apart(q) for q in p[1])
        if k == "por":
            return any(self.takes_apart(q) for q in p[1])
        return False

    def is_gmatch(self, e):
        """a `match` WITH guards whose patterns take values apart (and that is not the Option special case c_optmatch):
        compiled by c_gmatch as a Lean `match` with fall-through matches behind the guarded arms"""
        if e[0] != "match" or self.is_optmatch(e):
            return False
        return any(g is not None for _, g, _ in e[2]) and any(self.takes_apart(p) for ps, _, _ in e[2] for p in ps)

    def c_gmatch(self, e, env, k, ind, expect):
        """`match s { p1 if g1 => a1, p2 => a2, .. }`, arms tried in source order:
            let scrut := s
            match scrut with
            | p1 => if g1 then a1 else (match scrut with | p2 => a2 | ..)     -- the SAME match over the arms that follow
            | p2 => a2 | ..
        Alternatives that the ones listed before them (in the same Lean `match`) already cover are left out -- Lean
        rejects redundant alternatives, and a value can reach them only through a fall-through match, which lists them.
        The outer match must be exhaustive; a fall-through match must cover the pattern of its guarded arm and gets a
        final `| _ => Rust.unreachable` (dead by construction) if it does not cover everything else too.
        k None: a pure value (returns V); otherwise a statement / tail whose fall-through continues with k (text)."""
        pad = "  " * ind
        if k is not None:
            lines, s = self.head(e[1], env, ind)
        else:
            lines, s = [], self.cx(e[1], env, ind + 1)
        if has_hole(s.ty):
            raise Reject("`match` with guards on a scrutinee of undetermined type")
        self.total_enums(s.ty)
        scr = self.fresh("scrut")
        lines = lines + [f"{pad}let {scr} : {ty_lean(s.ty)} := {self.val(s)}"]
        arms = [([q for p in pats for q in self.expand_or(p)], guard, body) for pats, guard, body in e[2]]
        state = {"u": expect}

        def body_text(body, env_arm, ind2):
            if k is not None:
                return self.cs(body[1], 0, body[2], env_arm, k, ind2, expect)
            b = self.pure_block(body, env_arm, ind2, state["u"])
            u2 = unify(state["u"], b.ty) if state["u"] else b.ty
            if u2 is None:
                raise Reject("match arms of different types")
            state["u"] = u2
            return "  " * ind2 + self.val(b)

        def emit(j, ind2, region):
            pad2 = "  " * ind2
            rows, out = [], []
            for i in range(j, len(arms)):
                alts, guard, body = arms[i]
                live = []
                for a in alts:
                    n = self.npat(a, s.ty)
                    if self.useful(rows, [n], [s.ty]):
                        live.append(a)
                        rows.append([n])
                if not live:
                    continue
                if len({tuple(self.binders_of(a)) for a in live}) != 1:
                    raise Reject("or-pattern `p | q` whose alternatives bind different variables")
                pts, env_arm = [], env
                for a in live:
                    pt, env_arm = self.cpat(a, s.ty, env)
                    pts.append(pt)
                if guard is None:
                    text = body_text(body, env_arm, ind2 + 2)
                else:
                    g = self.prop(self.cx(guard, env_arm, ind2 + 2))
                    fall = emit(i + 1, ind2 + 3, [self.npat(a, s.ty) for a in live])
                    text = (f"{pad2}  (if {g} then\n" + body_text(body, env_arm, ind2 + 3) + f"\n{pad2}  else\n{fall})")
                out.append(f"{pad2}| {' | '.join(pts)} =>\n{text}")
            for n in region:
                if self.useful(rows, [n], [s.ty]):
                    raise Reject("`match` with guards that is not exhaustive without them" if region == [("w",)] else
                                 "a guarded arm whose pattern the arms after it do not cover")
            if self.useful(rows, [("w",)], [s.ty]):
                out.append(f"{pad2}| _ => Rust.unreachable")     # only values outside the guarded arm's pattern: dead
            if not out:
                raise Reject("`match` without a reachable arm")
            return f"{pad2}(match {scr} with\n" + "\n".join(out) + ")"

        text = "\n".join(lines + [emit(0, ind, [("w",)])])
        if k is not None:
            return text
        return V("(" + text.lstrip() + ")", state["u"])

    def is_optmatch(self, e):
        """a `match` on an Option that neither the if-chain nor the plain Lean `match` reading covers: guards together
        with `Some(..)` patterns (`Some(x) if c => .., Some(_) | None => ..`), or the scrutinee `&mut <place>` (the
        binder of `Some(x)` is then a mutable alias of the payload).  Compiled by c_optmatch as a decision on the
        constructor first and the guards, in source order, second."""
        if e[0] != "match":
            return False
        pats = [p for ps, _, _ in e[2] for p in ps]
        if not all(p[0] == "pwild" or (p[0] == "ppath" and p[1] == ["None"]) or (p[0] == "pctor" and p[1] == ["Some"] and len(p[2]) == 1)
                   for p in pats):
            return False
        if e[1][0] == "mutref":
            return True
        return any(g is not None for _, g, _ in e[2]) and any(p[0] == "pctor" for p in pats)

    def c_optmatch(self, e, env, k, ind, expect):
        """`match <Option> { arms }` with guards / `Some(..)` patterns / or-patterns / `_`, arms tried in source order:
            match s with | none => <the arms that can match None, as an if-chain over their guards>
                         | some v => <the arms that can match Some, as an if-chain over their guards>
        Each chain must end in an unguarded arm (exhaustiveness is not decided by the translator).  k None: the match is
        a pure value (returns V); otherwise a statement / tail whose fall-through continues with k (returns text).
        Scrutinee `&mut <place>` (statement mode): the binder of `Some(x)` is a mutable local aliasing the payload, every
        change of it is written back to the place at once (as for `let Some(x) = &mut <place> else ..`, see c_let)."""
        pad = "  " * ind
        sx, lines, alias = e[1], [], None
        if sx[0] == "mutref":
            if k is not None:
                lv = self.lvalue(sx[1], env)
                if not lv or not env[lv[0]].mut or env[lv[0]].alias:
                    raise Reject("`match &mut <place>` on something that is not a field path of a mutable variable")
                if any(v.alias and v.alias[:2] == (lv[0], list(lv[1])) for v in env.values()):
                    raise Reject("second `&mut` borrow of the same place")
                alias = (lv[0], list(lv[1]), "some")
            s = self.cx(sx[1], env, ind + 1)
        elif k is not None:
            lines, s = self.head(sx, env, ind)
        else:
            s = self.cx(sx, env, ind + 1)
        if s.ty[0] != "opt" or has_hole(s.ty):
            raise Reject(f"`match` with `Some(..)` / `None` patterns on a value of type {ty_rust(s.ty)}")
        none_arms, some_arms = [], []
        for pats, guard, body in e[2]:
            if any(p[0] in ("pwild", "ppath") for p in pats):
                none_arms.append((None, guard, body))
            somes = [p for p in pats if p[0] in ("pwild", "pctor")]
            if somes:
                q = None
                if len(pats) == 1 and pats[0][0] == "pctor":
                    q = pats[0][2][0]
                elif any(p[0] == "pctor" and p[2][0][0] != "pwild" for p in somes):
                    raise Reject("or-pattern `p | q` with binders")
                some_arms.append((q, guard, body))
        payload = self.fresh("some")
        state = {"u": expect}

        def body_text(body, env_arm, ind2):
            if k is not None:
                return self.cs(body[1], 0, body[2], env_arm, k, ind2, expect)
            b = self.pure_block(body, env_arm, ind2, state["u"])
            u2 = unify(state["u"], b.ty) if state["u"] else b.ty
            if u2 is None:
                raise Reject("match arms of different types")
            state["u"] = u2
            return "  " * ind2 + self.val(b)

        def chain(arms, j, ind2, is_some):
            if j == len(arms):
                raise Reject("a `match` on an Option with guards must end in an unguarded arm for `Some(..)` and one for `None` "
                             "(exhaustiveness is not decided by the translator)")
            q, guard, body = arms[j]
            env_arm, pre, close = env, "", ""
            if is_some and q is not None and q[0] not in ("pwild", "pbind") and self.irrefutable(q) and not alias:
                pt, env_arm = self.cpat(q, s.ty[1], env)
                pre, close = "  " * ind2 + f"(match {payload} with\n" + "  " * ind2 + f"| {pt} =>\n", ")"
                ind2 += 1
                q = None
            pad2 = "  " * ind2
            if is_some and q is not None and q[0] != "pwild":
                if not self.irrefutable(q):
                    raise Reject("nested refutable pattern")
                if q[0] == "pbind":
                    lean, env_arm = self.bind(q[1], s.ty[1], bool(alias) or q[2], env)
                    if alias:
                        env_arm[q[1]].alias = alias
                    pre = f"{pad2}let {lean} : {ty_lean(s.ty[1])} := {payload}\n"
                else:
                    if alias:
                        raise Reject("`match &mut <place>` with a pattern other than `Some(x)` / `Some(_)`")
                    pt, env_arm = self.cpat(q, s.ty[1], env)
                    pre, close = f"{pad2}(match {payload} with\n{pad2}| {pt} =>\n", ")"
            if guard is None:
                return pre + body_text(body, env_arm, ind2) + close
            g = self.prop(self.cx(guard, env_arm, ind2 + 1))
            return (pre + f"{pad2}(if {g} then\n" + body_text(body, env_arm, ind2 + 1) + f"\n{pad2}else\n"
                    + chain(arms, j + 1, ind2 + 1, is_some) + ")" + close)

        text = "\n".join(lines + [f"{pad}(match {self.val(s)} with\n{pad}| none =>\n" + chain(none_arms, 0, ind + 1, False)
                                  + f"\n{pad}| some {payload} =>\n" + chain(some_arms, 0, ind + 1, True) + ")"])
        if k is not None:
            return text
        return V(text.lstrip(), state["u"])

    def total_enums(self, ty):
        """an ordered Lean match may only take apart enums whose every value is represented"""
        if ty[0] == "enum":
            en = self.w.enums[ty[1]]
            if en.dropped and not en.rest:
                raise Reject(f"match on `{en.name}`, which is translated only in part (and has no `rest` constructor)")
        elif ty[0] == "opt":
            self.total_enums(ty[1])
        elif ty[0] == "tuple":
            for t in ty[1]:
                self.total_enums(t)

    def ordered_arms(self, e, s, env):
        """[(Lean alternative(s), env, body)] of a guard-free ordered match, in source order"""
        self.total_enums(s.ty)
        out = []
        for pats, _, body in e[2]:
            alts, env2 = [], env
            flat = [q for p in pats for q in self.expand_or(p)]
            if len(flat) > 1 and len({tuple(self.binders_of(q)) for q in flat}) != 1:
                raise Reject("or-pattern `p | q` whose alternatives bind different variables")
            for p in flat:
                pt, env2 = self.cpat(p, s.ty, env)
                alts.append(pt)
            out.append((" | ".join(alts), env2, body))
        return out

    def subpatterns(self, p):
        yield p
        subs = p[1] if p[0] in ("ptuple", "por") else p[2] if p[0] == "pctor" else [q for _, q in p[2]] if p[0] == "pstruct" else []
        for q in subs:
            yield from self.subpatterns(q)

    def pat_cond(self, p, v):
        """the condition under which the binder-free pattern p matches the value v (None = always)"""
        k = p[0]
        if k == "pwild":
            return None
        if k == "ptuple":
            if v.ty[0] != "tuple" or len(v.ty[1]) != len(p[1]):
                raise Reject(f"tuple pattern on a value of type {ty_rust(v.ty)}")
            comps = v.comps if getattr(v, "comps", None) else [V(f"{atom(v.text)}.{i + 1}", t) for i, t in enumerate(v.ty[1])]
            cs = [c for c in (self.pat_cond(q, c) for q, c in zip(p[1], comps)) if c is not None]
            return "(" + " ∧ ".join(cs) + ")" if cs else None
        if k == "pbool":
            return self.prop(v) if p[1] == "true" else f"(¬{self.prop(v)})"
        if k == "ppath" and v.ty[0] == "enum":
            en = self.w.enums[v.ty[1]]
            if not (len(p[1]) >= 2 and p[1][-2] in (en.name, "Self") or len(p[1]) == 1 and en.name in self.globs):
                raise Reject(f"pattern `{'::'.join(p[1])}` on a value of enum `{en.name}`")
            var = en.variant(p[1][-1])
            if var is None or var[1] != "unit":
                raise Reject(f"pattern `{'::'.join(p[1])}`: no translated unit variant")
            return f"({v.text} = {en.name}.{var[0]})"
        if k == "ppath" and p[1] == ["None"] and v.ty[0] == "opt":
            return f"({v.text} = none)"
        raise Reject("a `match` with guards / or-patterns / `_` / a tuple scrutinee accepts only binder-free patterns "
                     "(unit variants, tuples of them, `true`/`false`, `None`, `_`)")

    def chain_of(self, e, env, ind):
        """[(condition | None, body, env of the arm)]: the arms in order; the last one must be unconditional"""
        sx = e[1]
        if self.effect(sx, env) or (sx[0] == "tuple" and any(self.effect(x, env) for x in sx[1])):
            raise Reject("state-changing scrutinee of a `match` with guards / or-patterns")
        s = self.cx(sx, env, ind + 1)
        if sx[0] == "tuple":
            s.comps = [self.cx(x, env, ind + 1) for x in sx[1]]
        out = []
        for pats, guard, body in e[2]:
            env_arm = env
            if len(pats) == 1 and pats[0][0] == "pbind":
                # `x if guard => ..` / `x => ..`: x names the (pure) scrutinee itself
                if has_hole(s.ty):
                    raise Reject("binder arm on a scrutinee of undetermined type")
                if pats[0][1] in self.w.externs:
                    raise Reject(f"binder `{pats[0][1]}` shadows an extern function")
                env_arm = dict(env)
                env_arm[pats[0][1]] = Var(s.ty, False, atom(self.val(s)))
                cs = [None]
            else:
                cs = [self.pat_cond(p, s) for p in pats]
            c = None if any(x is None for x in cs) else (cs[0] if len(cs) == 1 else "(" + " ∨ ".join(cs) + ")")
            if guard is not None:
                g = self.prop(self.cx(guard, env_arm, ind + 1))
                c = g if c is None else f"({c} ∧ {g})"
            out.append((c, body, env_arm))
        if out[-1][0] is not None and e[2][-1][1] is None and not has_hole(s.ty) and self.chain_exhaustive(e, s.ty):
            # no `_` arm, but the UNGUARDED arms cover every value of the scrutinee's type (decided by the usefulness check
            # on binder-free patterns over fully translated enums / bool / Option / tuples of these): a value that reaches
            # the last arm matches no earlier unguarded arm, hence matches the last one -- its test is dropped
            out[-1] = (None, out[-1][1], out[-1][2])
        if out[-1][0] is not None:
            raise Reject("a `match` with guards / or-patterns / a tuple scrutinee must end in an unguarded `_` arm "
                         "or its unguarded binder-free arms must cover the scrutinee's type")
        if any(c is None for c, _, _ in out[:-1]):
            raise Reject("unreachable arms after an unconditional arm")
        return out

    def chain_exhaustive(self, e, ty):
        """do the unguarded arms of the if-chain `match` e (binder-free patterns) cover every value of type ty?"""
        try:
            self.total_enums(ty)
            rows = [[self.npat(q, ty)] for pats, guard, _ in e[2] if guard is None
                    for p in pats if p[0] != "pbind" for q in self.expand_or(p)]
            return not self.useful(rows, [("w",)], [ty])
        except (Reject, KeyError, TypeError):
            return False

    def arms_of(self, e, s, env):
        """checks exhaustiveness (syntactically, strictly) and returns
        ("bool", true block, false block)  or  ("arms", [(lean pattern, env, block | None)])"""
        if e[0] == "iflet":
            _, p, _, a, b = e
            if self.irrefutable(p):
                raise Reject("`if let` with an irrefutable pattern")
            pa, enva = self.cpat(p, s.ty, env)
            if s.ty[0] == "opt" and p[0] == "pctor" and p[1] == ["Some"] and self.irrefutable(p[2][0]):
                return ("arms", [(pa, enva, a), ("none", env, b)])
            if s.ty[0] == "opt" and p[0] == "ppath":
                return ("arms", [("none", env, a), ("some _", env, b)])
            # any other refutable pattern (an enum variant, `Ok(..)`, an entry, nested patterns): the pattern, then `_`
            if has_hole(s.ty) or len(self.expand_or(p)) != 1:
                raise Reject("`if let` with an or-pattern / on a value of undetermined type")
            self.total_enums(s.ty)
            if not self.useful([[self.npat(p, s.ty)]], [("w",)], [s.ty]):
                raise Reject("`if let` with a pattern that always matches")
            return ("arms", [(pa, enva, a), ("_", env, b)])
        if self.is_ordered(e):
            return ("arms", self.ordered_arms(e, s, env))
        arms = e[2]
        for pats, guard, _ in arms:
            if guard is not None:
                raise Reject("match guard `if ..`")
            if len(pats) != 1:
                raise Reject("or-pattern `p | q`")
        pats = [a[0][0] for a in arms]
        if s.ty == BOOL:
            d = {p[1]: a[2] for p, a in zip(pats, arms) if p[0] == "pbool"}
            if len(arms) != 2 or set(d) != {"true", "false"}:
                raise Reject("match on a bool must have exactly the arms `true` and `false`")
            return ("bool", d["true"], d["false"])
        out = []
        if s.ty[0] == "opt":
            kinds = sorted("some" if p[0] == "pctor" and p[1] == ["Some"] and self.irrefutable(p[2][0]) else
                           "none" if p[0] == "ppath" and p[1] == ["None"] else "?" for p in pats)
            if kinds != ["none", "some"]:
                raise Reject("match on an Option must have exactly the arms `Some(<irrefutable>)` and `None`")
        elif s.ty[0] == "res":
            kinds = sorted(p[1][0] if p[0] == "pctor" and p[1] in (["Ok"], ["Err"]) and len(p[2]) == 1 and self.irrefutable(p[2][0]) else "?"
                           for p in pats)
            if kinds != ["Err", "Ok"]:
                raise Reject("match on a Result must have exactly the arms `Ok(<irrefutable>)` and `Err(<irrefutable>)`")
        elif s.ty[0] == "enum":
            en = self.w.enums[s.ty[1]]
            if en.dropped:
                raise Reject(f"match on `{en.name}`, which is translated only in part")
            seen = []
            for p in pats:
                if p[0] not in ("ppath", "pctor", "pstruct") or (len(p[1]) < 2 and en.name not in self.globs):
                    raise Reject(f"match pattern on a value of enum `{en.name}` (only `{en.name}::Variant..`, no wildcard)")
                subs = p[2] if p[0] == "pctor" else [q for _, q in p[2]] if p[0] == "pstruct" else []
                if not all(self.irrefutable(q) for q in subs):
                    raise Reject("nested refutable pattern")
                seen.append(p[1][-1])
            if sorted(seen) != sorted(v[0] for v in en.variants):
                raise Reject(f"match on `{en.name}` does not list every variant exactly once")
        elif len(pats) == 1 and self.irrefutable(pats[0]):
            pass
        else:
            raise Reject(f"match on a value of type {ty_rust(s.ty)}")
        for p, a in zip(pats, arms):
            pt, env2 = self.cpat(p, s.ty, env)
            out.append((pt, env2, a[2]))
        return ("arms", out)

    # ---- statements (state passing).  Every construct is compiled against a continuation `k(v, env, ind)` that
    # produces the Lean term for "what happens after it, given its value v"; the code that follows a branching
    # statement is therefore inlined into every branch that falls through.
    def lvalue(self, e, env):
        """(root variable name, [fields]) of an assignable place, or None"""
        if e[0] == "path" and len(e[1]) == 1 and e[1][0] in env:
            return e[1][0], []
        if e[0] == "field":
            r = self.lvalue(e[1], env)
            if r:
                return r[0], r[1] + [e[2]]
        if e[0] == "un" and e[1] == "*":
            return self.lvalue(e[2], env)
        if e[0] == "mcall" and e[2] == "get_mut" and not e[3]:
            # `entry.get_mut()` on an occupied entry: the entry's current value (written back to the map by `writeback`)
            r = self.lvalue(e[1], env)
            if r:
                try:
                    if self.place(r[0], r[1], env).ty[0] == "occ":
                        return r[0], r[1] + ["value"]
                except Reject:
                    return None
        return None

    def place(self, root, fields, env):
        """(Lean text, type) of root.f.g"""
        v = V(env[root].lean, env[root].ty)
        e = ("lean", v.text, v.ty)
        for f in fields:
            e = ("field", e, f)
        return self.cx(e, env, 0)

    def set_place(self, root, fields, env, new):
        """Lean term for the root with root.f.g replaced by `new`"""
        def go(text, ty, fs):
            if not fs:
                return new
            f = fs[0]
            inner = self.cx(("field", ("lean", text, ty), f), env, 0)
            lf = lean_id("f" + f if f.isdigit() else f)
            return "{ " + text + " with " + lf + " := " + go(inner.text, inner.ty, fs[1:]) + " }"
        return go(env[root].lean, env[root].ty, fields)

    def writeback(self, root, env, pad):
        """after a change of the local `root`: if it is the payload of a `&mut` borrow of an Option place (c_let), the
        place is updated too, so that the two never differ while the borrow is alive"""
        al = env[root].alias
        if not al and env[root].ty[0] == "occ":
            # an occupied entry whose value was changed through `get_mut()` / `insert(v)`: the map it borrows is written
            mroot, mfields = env[root].ty[3]
            if mroot not in env or not env[mroot].mut:
                raise Reject("entry whose map is no longer in scope")
            mp = self.place(mroot, list(mfields), env)
            x = env[root].lean
            new = self.set_place(mroot, list(mfields), env, f"(Rust.Map.insert {atom(mp.text)} {x}.key {x}.value)")
            return [f"{pad}let {env[mroot].lean} : {ty_lean(env[mroot].ty)} := {new}"] + self.writeback(mroot, env, pad)
        if not al:
            return []
        aroot, afields, wrap = al
        if callable(wrap):
            inner = wrap(self.place(aroot, afields, env).text, env[root].lean)      # a map accessor: see mut_lens
        else:
            inner = f"(some {env[root].lean})" if wrap == "some" else env[root].lean
        new = self.set_place(aroot, afields, env, inner)
        return [f"{pad}let {env[aroot].lean} : {ty_lean(env[aroot].ty)} := {new}"]

    def effect(self, e, env):
        """is `e` a state-changing head: a `&mut self` method call on an assignable place / `.take()` on one"""
        if e[0] == "call" and e[1] in (["std", "mem", "replace"], ["mem", "replace"], ["core", "mem", "replace"]) and len(e[2]) == 2 \
                and e[2][0][0] == "mutref":
            # `std::mem::replace(&mut <place>, e)`: the old content of the place is the value, `e` its new content
            lv = self.lvalue(e[2][0][1], env)
            if not lv or not env[lv[0]].mut:
                raise Reject("`mem::replace` whose `&mut` argument is not a field path of a mutable variable")
            return ("mem_replace", lv, self.place(lv[0], lv[1], env))
        if e[0] == "call":
            fn = self.resolve_call(e[1])
            if fn is None or fn.mutparam is None or len(e[2]) != len(fn.params):
                return None
            a = e[2][fn.mutparam]
            a = a[1] if a[0] == "mutref" else a
            lv = self.lvalue(a, env)
            if not lv or not env[lv[0]].mut:
                raise Reject(f"call of `{'::'.join(e[1])}` whose `&mut` argument is not a field path of a mutable variable")
            return ("pcall", lv, self.place(lv[0], lv[1], env), fn)
        if e[0] != "mcall":
            return None
        lv = self.lvalue(e[1], env)
        if lv and not lv[1] and env[lv[0]].ty[0] in ("occ", "vac"):
            # an entry handle (PRELUDE3): `remove()` / `insert(v)` consume or change it and write the map it borrows
            ety = env[lv[0]].ty
            pl = V(env[lv[0]].lean, ety)
            if ety[0] == "occ" and e[2] == "remove" and not e[3]:
                return ("occ_remove", lv, pl)
            if ety[0] == "occ" and e[2] == "insert" and len(e[3]) == 1 and env[lv[0]].mut:
                return ("occ_insert", lv, pl)
            if ety[0] == "vac" and e[2] == "insert" and len(e[3]) == 1:
                return ("vac_insert", lv, pl)
            return None
        if not lv or not env[lv[0]].mut:
            return None
        try:
            pl = self.place(lv[0], lv[1], env)
        except Reject:
            return None
        if pl.ty[0] == "map" and e[2] == "insert" and len(e[3]) == 2:
            return ("map_insert", lv, pl)
        if pl.ty[0] == "map" and e[2] == "remove" and len(e[3]) == 1:
            return ("map_remove", lv, pl)
        if e[2] == "take" and not e[3] and pl.ty[0] == "opt":
            return ("take", lv, pl)
        if e[2] == "push" and len(e[3]) == 1 and pl.ty[0] == "list":
            return ("push", lv, pl)
        if e[2] in ("sort", "dedup") and not e[3] and pl.ty[0] == "list" and self.w.ctx is not None and self.w.ctx.groups[0] in GROUPS4:
            return (e[2], lv, pl)
        if e[2] == "replace" and len(e[3]) == 1 and pl.ty[0] == "opt":
            return ("replace", lv, pl)
        if pl.ty[0] == "tvar" and self.trait_method(pl.ty, e[2]) is not None and self.trait_method(pl.ty, e[2]).methods[e[2]]["mode"] == "mut":
            return ("tcall", lv, pl)      # (fourth file) a `&mut self` method of a bound trait of the type parameter
        if pl.ty[0] == "struct" and self.accessor_of(pl.ty[1], e[2]) is not None:
            return None                   # a `&mut`-returning accessor: not a call, read in place by mut_lens
        if pl.ty[0] == "struct" and self.method_fn(pl.ty[1], e[2]) is not None and self.w.fns[(pl.ty[1], e[2])].mode == "mut":
            return ("call", lv, pl)
        return None

    def head(self, e, env, ind, expect=None):
        """an initialiser / statement / tail / scrutinee: (prefix lines, V).  State-changing heads are written out."""
        pad = "  " * ind
        eff = self.effect(e, env)
        if eff and eff[0] == "pcall":
            _, (root, fields), pl, fn = eff
            shown = "::".join(e[1])
            if fn.mode != "none":
                raise Reject(f"call of `{shown}`, which has a `&mut` parameter and a receiver")
            convs = None
            if fn.tvars:
                # a GENERIC helper `fn f<T: Bound>(x: &mut C<T>, ..)`: its type parameters are what the `&mut` place and the
                # other arguments say (they must be determined completely); the ordering `Ord_T` that a `sort()` inside it
                # takes is the ordering parameter of the type `T` stands for at this call (`ord_convs`)
                if has_hole(pl.ty):
                    raise Reject(f"`&mut` argument of generic `{shown}` of undetermined type")
                ren = {v: ("tvar", "'" + v) for v in fn.tvars}
                m = {}
                if not match_ty(subst(fn.params[fn.mutparam][1], ren), pl.ty, m):
                    raise Reject(f"`&mut` argument of `{shown}` of type {ty_rust(pl.ty)} does not fit its generic signature")
                others = {}
                for j, (a, (_, t)) in enumerate(zip(e[2], fn.params)):
                    if j != fn.mutparam:
                        others[j] = self.cx(a, env, ind)
                        if not match_ty(subst(t, ren), others[j].ty, m):
                            raise Reject(f"call of `{shown}`: argument types do not fit its generic signature")
                back = {"'" + v: m.get("'" + v, HOLE) for v in fn.tvars}
                if any(has_hole(t) for t in back.values()):
                    raise Reject(f"call of generic `{shown}`: its type parameters are not determined by the arguments")
                convs = self.ord_convs(fn, {v: back["'" + v] for v in fn.tvars})
                fn0 = fn
                fn = Fn(fn.lean, fn.mode, fn.self_ty, [(n, subst(subst(t, ren), back)) for n, t in fn.params],
                        subst(subst(fn.ret, ren), back), (), fn.externs)
                fn.mutparam = fn0.mutparam
            vs = []
            for j, (a, (_, t)) in enumerate(zip(e[2], fn.params)):
                if j == fn.mutparam:
                    if unify(pl.ty, t) is None:
                        raise Reject(f"`&mut` argument of `{shown}` of type {ty_rust(pl.ty)} where {ty_rust(t)} is required")
                    vs.append(pl.text)
                else:
                    vs.append(self.val(self.cx(a, env, ind, t)))
            call = " ".join([self.fname(fn, convs)] + [atom(v) for v in vs])
            if fn.ret == UNIT:
                return ([f"{pad}let {env[root].lean} : {ty_lean(env[root].ty)} := {self.set_place(root, fields, env, '(' + call + ')')}"]
                        + self.writeback(root, env, pad)), self.fit(V("()", UNIT), expect)
            c = self.fresh("call")
            lines = [f"{pad}let {c} := {call}",
                     f"{pad}let {env[root].lean} : {ty_lean(env[root].ty)} := {self.set_place(root, fields, env, c + '.1')}"]
            return lines + self.writeback(root, env, pad), self.fit(V(f"{c}.2", fn.ret), expect)
        if eff and eff[0] == "tcall":
            _, (root, fields), pl = eff
            call, rt, _ = self.trait_call(pl.ty, pl.text, e[2], e[3], env, ind)
            if rt == UNIT:
                return ([f"{pad}let {env[root].lean} : {ty_lean(env[root].ty)} := {self.set_place(root, fields, env, '(' + call + ')')}"]
                        + self.writeback(root, env, pad)), self.fit(V("()", UNIT), expect)
            c = self.fresh("call")
            lines = [f"{pad}let {c} := {call}",
                     f"{pad}let {env[root].lean} : {ty_lean(env[root].ty)} := {self.set_place(root, fields, env, c + '.1')}"]
            return lines + self.writeback(root, env, pad), self.fit(V(f"{c}.2", rt), expect)
        if eff and eff[0] in ("occ_remove", "occ_insert", "vac_insert"):
            _, (root, _), pl = eff
            mroot, mfields = pl.ty[3]
            if mroot not in env or not env[mroot].mut:
                raise Reject("entry whose map is no longer in scope")
            mp = self.place(mroot, list(mfields), env)
            x = env[root].lean
            if eff[0] == "occ_remove":
                new = self.set_place(mroot, list(mfields), env, f"(Rust.Map.remove {atom(mp.text)} {x}.key)")
                return ([f"{pad}let {env[mroot].lean} : {ty_lean(env[mroot].ty)} := {new}"] + self.writeback(mroot, env, pad),
                        self.fit(V(f"{x}.value", pl.ty[2]), expect))
            val = self.cx(e[3][0], env, ind, pl.ty[2] if not has_hole(pl.ty[2]) else None)
            if eff[0] == "vac_insert":
                new = self.set_place(mroot, list(mfields), env, f"(Rust.Map.insert {atom(mp.text)} {x}.key {atom(self.val(val))})")
                # the `&mut V` it returns is not a value of the accepted subset: the call must stand alone
                return ([f"{pad}let {env[mroot].lean} : {ty_lean(env[mroot].ty)} := {new}"] + self.writeback(mroot, env, pad),
                        self.fit(V("()", UNIT), expect, "the `&mut V` returned by `VacantEntry::insert` (it must be discarded)"))
            old = self.fresh("old")
            lines = [f"{pad}let {old} : {ty_lean(pl.ty[2])} := {x}.value",
                     f"{pad}let {x} : {ty_lean(pl.ty)} := {{ {x} with value := {self.val(val)} }}"]
            return lines + self.writeback(root, env, pad), self.fit(V(old, pl.ty[2]), expect)
        if eff and eff[0] in ("map_insert", "map_remove"):
            _, (root, fields), pl = eff
            kx = self.cx(e[3][0], env, ind, pl.ty[1] if not has_hole(pl.ty[1]) else None)
            kt = atom(self.val(kx))
            old = self.fresh("old")
            lines = [f"{pad}let {old} : {ty_lean(('opt', pl.ty[2]))} := Rust.Map.get {atom(pl.text)} {kt}"]
            if eff[0] == "map_insert":
                val = self.cx(e[3][1], env, ind, pl.ty[2] if not has_hole(pl.ty[2]) else None)
                new = f"(Rust.Map.insert {atom(pl.text)} {kt} {atom(self.val(val))})"
            else:
                new = f"(Rust.Map.remove {atom(pl.text)} {kt})"
            lines.append(f"{pad}let {env[root].lean} : {ty_lean(env[root].ty)} := {self.set_place(root, fields, env, new)}")
            return lines + self.writeback(root, env, pad), self.fit(V(old, ("opt", pl.ty[2])), expect)
        if eff and eff[0] == "take":
            _, (root, fields), pl = eff
            t = self.fresh("taken")
            lines = [f"{pad}let {t} : {ty_lean(pl.ty)} := {pl.text}",
                     f"{pad}let {env[root].lean} : {ty_lean(env[root].ty)} := {self.set_place(root, fields, env, 'none')}"]
            return lines + self.writeback(root, env, pad), self.fit(V(t, pl.ty), expect)
        if eff and eff[0] == "mem_replace":
            # the new content is computed first (rustc rejects an argument that reads the mutably borrowed place, so the order
            # of the two readings is not observable), then the old content is taken out and the place overwritten
            _, (root, fields), pl = eff
            if has_hole(pl.ty):
                raise Reject("`mem::replace` on a place of undetermined type")
            x = self.cx(e[2][1], env, ind, pl.ty)
            t, nw = self.fresh("_replaced"), self.fresh("_new")
            lines = [f"{pad}let {nw} : {ty_lean(pl.ty)} := {self.val(x)}",
                     f"{pad}let {t} : {ty_lean(pl.ty)} := {pl.text}",
                     f"{pad}let {env[root].lean} : {ty_lean(env[root].ty)} := {self.set_place(root, fields, env, nw)}"]
            return lines + self.writeback(root, env, pad), self.fit(V(t, pl.ty), expect)
        if eff and eff[0] == "replace":
            _, (root, fields), pl = eff
            x = self.cx(e[3][0], env, ind, pl.ty[1] if not has_hole(pl.ty[1]) else None)
            t = self.fresh("_replaced")
            lines = [f"{pad}let {t} : {ty_lean(pl.ty)} := {pl.text}",
                     f"{pad}let {env[root].lean} : {ty_lean(env[root].ty)} := {self.set_place(root, fields, env, '(some ' + atom(self.val(x)) + ')')}"]
            return lines + self.writeback(root, env, pad), self.fit(V(t, pl.ty), expect)
        if eff and eff[0] in ("sort", "dedup"):
            _, (root, fields), pl = eff
            if has_hole(pl.ty[1]):
                raise Reject(f"`.{eff[0]}()` on a `Vec` of undetermined element type")
            if eff[0] == "sort":
                new = f"(List.mergeSort {atom(pl.text)} {self.ord_param(pl.ty[1])})"
            else:
                new = f"(Rust.Vec.dedup {atom(pl.text)})"
            return ([f"{pad}let {env[root].lean} : {ty_lean(env[root].ty)} := {self.set_place(root, fields, env, new)}"]
                    + self.writeback(root, env, pad)), self.fit(V("()", UNIT), expect)
        if eff and eff[0] == "push":
            _, (root, fields), pl = eff
            x = self.cx(e[3][0], env, ind, pl.ty[1] if not has_hole(pl.ty[1]) else None)
            if has_hole(pl.ty[1]) and not fields and not has_hole(x.ty) and self.w.ctx is not None and self.w.ctx.groups[0] in GROUPS4:
                env[root].ty = ("list", x.ty)       # `let mut v = Vec::new();` whose element type the first `push` determines
            new = f"({pl.text} ++ [{self.val(x)}])"
            return ([f"{pad}let {env[root].lean} : {ty_lean(env[root].ty)} := {self.set_place(root, fields, env, new)}"]
                    + self.writeback(root, env, pad)), self.fit(V("()", UNIT), expect)
        if eff:
            _, (root, fields), pl = eff
            fn = self.w.fns[(pl.ty[1], e[2])]
            vs, ret = self.call_args(fn, pl.ty, e[3], env, ind, f".{e[2]}(..)", expect)
            convs = self.call_convs(fn, vs, pl.ty, expect)
            fn = Fn(fn.lean, fn.mode, fn.self_ty, fn.params, ret, (), fn.externs)
            call = " ".join([self.fname(fn, convs), atom(pl.text)] + [atom(self.val(v)) for v in vs])
            if fn.ret == UNIT:
                return ([f"{pad}let {env[root].lean} : {ty_lean(env[root].ty)} := {self.set_place(root, fields, env, '(' + call + ')')}"]
                        + self.writeback(root, env, pad)), self.fit(V("()", UNIT), expect)
            c = self.fresh("call")
            lines = [f"{pad}let {c} := {call}",
                     f"{pad}let {env[root].lean} : {ty_lean(env[root].ty)} := {self.set_place(root, fields, env, c + '.1')}"]
            return lines + self.writeback(root, env, pad), self.fit(V(f"{c}.2", fn.ret), expect)
        if e[0] in ("match", "iflet"):
            si = 2 if e[0] == "iflet" else 1
            if self.effect(e[si], env):
                lines, s = self.head(e[si], env, ind)
                e2 = list(e)
                e2[si] = ("lean", s.text, s.ty)
                return lines, self.cx(tuple(e2), env, ind, expect)
        return [], self.cx(e, env, ind, expect)

    def ret_text(self, text, env):
        if self.mode != "mut" and getattr(self, "mutparam", None) is None:
            return text
        st = env["self" if self.mode == "mut" else self.mutparam].lean
        return st if self.ret == UNIT else f"({st}, {text})"

    def k_ret(self, v, env, ind):
        self.fit(v, self.ret, "returned value")
        if has_hole(v.ty):
            raise Reject("returned value of undetermined type")
        return "  " * ind + self.ret_text(self.val(v), env)

    def try_match(self, v, env, ind, pat, inner):
        """`v?` : match with the early return written out; `inner(ind)` is the text of the continuation"""
        pad = "  " * ind
        if v.ty[0] == "opt":
            if self.ret[0] != "opt":
                raise Reject("`?` on an Option in a function that does not return an Option")
            return (f"{pad}(match {v.text} with\n{pad}| none => {self.ret_text('none', env)}\n{pad}| some {pat} =>\n" + inner(ind + 1) + ")")
        if v.ty[0] == "res":
            if self.ret[0] != "res":
                raise Reject("`?` on a Result in a function that does not return a Result")
            conv = None
            if unify(v.ty[2], self.ret[2]) is None or has_hole(unify(v.ty[2], self.ret[2])):
                if self.w.ctx is None or self.w.ctx.groups[0] not in GROUPS4 or has_hole(v.ty[2]) or has_hole(self.ret[2]):
                    raise Reject(f"`?` converting the error type {ty_rust(v.ty[2])} into {ty_rust(self.ret[2])} (`From` conversions are not translated)")
                conv, _ = self.conversion(v.ty[2], self.ret[2])      # (fourth file) `From` through ONE `#[from]` variant
            er = self.fresh("err")
            erv = f"({conv} {er})" if conv else er
            return (f"{pad}(match {v.text} with\n{pad}| Except.error {er} => {self.ret_text(f'(Except.error {erv})', env)}\n"
                    f"{pad}| Except.ok {pat} =>\n" + inner(ind + 1) + ")")
        raise Reject(f"`?` on a value of type {ty_rust(v.ty)}")

    @staticmethod
    def mentions(e, acc=None):
        """the variable names (single-segment paths) an expression mentions"""
        acc = set() if acc is None else acc
        if isinstance(e, (tuple, list)):
            if len(e) == 2 and e[0] == "path" and isinstance(e[1], list) and len(e[1]) == 1:
                acc.add(e[1][0])
            else:
                for x in e:
                    Compiler.mentions(x, acc)
        return acc

    def hoist(self, e, env=None, top=True):
        """`inner?` below the top of an initialiser / statement / tail, in a position that is always evaluated (method
        receiver and arguments, call arguments, operands other than `&&` `||`, fields, casts, literals), is taken out as
        `let try_n = inner?;` in evaluation order.  Returns ([let statements], rewritten expression); a `?` inside a
        branch, block or closure is left where it is (and rejected by the expression compiler)."""
        lets = []
        seen = set()         # variables read by what has been evaluated so far (fourth file: see `effect_below`)
        eff_ok = env is not None and self.w.ctx is not None and self.w.ctx.groups[0] in GROUPS4

        def is_path(x):
            return (x[0] == "path" and len(x[1]) == 1) or (x[0] == "field" and is_path(x[1]))

        def effect_below(x):
            """(fourth file) a state-changing call (`&mut self` method on a field path of a mutable variable, `push`, `take`, ..)
            BELOW the top of an expression, in a position that is always evaluated: taken out as `let call_n = <call>;` in
            evaluation order -- provided nothing evaluated BEFORE it in the same expression reads the variable it changes
            (then the order of the two cannot matter); what is evaluated after it sees the new state, as in Rust."""
            if not eff_ok or x[0] not in ("mcall", "call"):
                return None
            try:
                eff = self.effect(x, env)
            except Reject:
                return None
            if not eff:
                return None
            root = eff[1][0]
            if root in seen:
                raise Reject(f"state-changing call `.{x[2]}(..)` inside an expression that reads `{root}` before it" if x[0] == "mcall"
                             else "state-changing call inside an expression that reads the changed variable before it")
            name = self.fresh("call")
            lets.append(("let", ("pbind", name, False), None, x, None))
            return ("path", [name])

        def go(x, top, spine=False):
            r = go0(x, top, spine)
            if eff_ok and r is x:
                seen.update(self.mentions(x))
            return r

        def go0(x, top, spine=False):
            k = x[0]
            if not top and k in ("mcall", "call"):
                h = effect_below(x)
                if h is not None:
                    return h
            if k == "try":
                inner = go(x[1], False, spine or top)
                if top:
                    return ("try", inner)
                name = self.fresh("try")
                lets.append(("let", ("pbind", name, False), None, ("try", inner), None))
                return ("path", [name])
            if k == "mcall":
                if x[2] == "take" and not x[3] and spine and not top and is_path(x[1]):
                    # `place.take()` at the head of a method chain (`place.take().filter(..).unwrap_or_else(..)`): it is the
                    # first thing the chain evaluates, so it is taken out as `let taken = place.take();`
                    name = self.fresh("taken")
                    lets.append(("let", ("pbind", name, False), None, x, None))
                    return ("path", [name])
                r = go(x[1], False, spine or top)
                return ("mcall", r, x[2], [a if a[0] == "closure" else go(a, False) for a in x[3]])
            if k == "call":
                return ("call", x[1], [a if a[0] == "closure" else go(a, False) for a in x[2]])
            if k == "field":
                return ("field", go(x[1], False), x[2])
            if k == "un":
                return ("un", x[1], go(x[2], False))
            if k == "cast":
                return ("cast", go(x[1], False), x[2])
            if k == "bin" and x[1] not in ("&&", "||"):
                a = go(x[2], False)
                return ("bin", x[1], a, go(x[3], False))
            if k == "tuple":
                return ("tuple", [go(a, False) for a in x[1]])
            if k == "structlit":
                return ("structlit", x[1], [(f, go(a, False)) for f, a in x[2]])
            return x
        return lets, go(e, top)

    def cs(self, items, i, tail, env, k, ind, expect):
        pad = "  " * ind
        if i == len(items):
            if tail is None:
                return k(V("()", UNIT), env, ind)
            lets, tail2 = self.hoist(tail, env)
            if lets:
                return self.cs(list(items) + lets, i, tail2, env, k, ind, expect)
            return self.ctail(tail, env, k, ind, expect)
        st = items[i]
        if st[0] == "let":
            lets, init2 = self.hoist(st[3], env)
            if lets:
                return self.cs(list(items[:i]) + lets + [("let", st[1], st[2], init2, st[4])] + list(items[i + 1:]), i, tail, env, k, ind, expect)
        elif st[0] == "expr":
            x = st[1]
            lets = []
            if x[0] == "assign":
                lets, r2 = self.hoist(x[3], env)
                x2 = ("assign", x[1], x[2], r2)
            elif x[0] == "return" and x[1] is not None:
                lets, r2 = self.hoist(x[1], env)
                x2 = ("return", r2)
            elif x[0] not in BLOCKLIKE and x[0] not in ("panic", "return"):
                lets, x2 = self.hoist(x, env)
            if lets:
                return self.cs(list(items[:i]) + lets + [("expr", x2)] + list(items[i + 1:]), i, tail, env, k, ind, expect)

        def rest(env2, ind2):
            return self.cs(items, i + 1, tail, env2, k, ind2, expect)

        if st[0] == "let":
            return self.c_let(st, env, ind, rest, items[i + 1:])
        if st[0] == "use":
            en = st[1][-1]
            if en not in self.w.enums or self.w.enums[en].dropped:
                raise Reject(f"`use {'::'.join(st[1])}::*;` of something that is not a (fully) translated enum")
            self.globs.append(en)
            return rest(env, ind)
        e = st[1]
        kind = e[0]
        if kind == "panic":
            return f"{pad}Rust.unreachable"
        if kind == "assert":
            c = self.prop(self.cx(e[1], env, ind + 1))
            return f"{pad}(if {c} then\n" + rest(env, ind + 1) + f"\n{pad}else\n{pad}  {self.panic_text()})"
        if kind == "for":
            if self.w.ctx is not None and self.w.ctx.groups[0] in GROUPS4 and \
                    not (e[2][0] == "mcall" and e[2][2] == "values_mut" and not e[2][3]):
                return self.c_for_fold(e, env, ind, rest)
            return self.c_for(e, env, ind) + "\n" + rest(env, ind)
        if kind == "assign":
            via = self.assign_via_lens(e, env, ind)
            if via is not None:
                # (a block: the borrow ends with the statement, so a later statement may borrow the same place again)
                return self.cs(list(items[:i]) + [("expr", ("block", via, None))] + list(items[i + 1:]), i, tail, env, k, ind, expect)
            line, env2 = self.c_assign(e, env, ind)
            return line + "\n" + rest(env2, ind)
        if kind in BLOCKLIKE:
            def k_unit(v, _env_inner, ind2):
                if unify(v.ty, UNIT) is None:
                    raise Reject(f"value of type {ty_rust(v.ty)} of a statement-position block is discarded")
                return rest(env, ind2)
            return self.c_branchy(e, env, k_unit, ind, UNIT)
        if kind == "return":
            if i != len(items) - 1 or tail is not None:
                raise Reject("statements after `return`")
            return self.c_return(e, env, ind)
        if kind == "try":
            lines, v = self.head(e[1], env, ind)
            return "\n".join(lines + [self.try_match(v, env, ind, "_", lambda ind2: rest(env, ind2))])
        if self.effect(e, env):
            lines, _ = self.head(e, env, ind)
            return "\n".join(lines + [rest(env, ind)])
        if kind == "call" and e[1] == ["drop"] and len(e[2]) == 1 and e[2][0][0] == "path" and len(e[2][0][1]) == 1 and e[2][0][1][0] in env:
            return rest(env, ind)          # `drop(local);` releases a guard / frees a value: no effect on the modelled state
        if kind == "mcall":
            lv = self.lvalue(e[1], env)
            try:
                pl = self.place(lv[0], lv[1], env) if lv else None
            except Reject:
                pl = None
            if pl is not None and pl.ty[0] == "struct" and (pl.ty[1], e[2]) in self.w.failed:
                raise Reject(f"call of `{pl.ty[1]}::{e[2]}`, which was rejected above")
        raise Reject("expression statement `..;` whose value is discarded" + (f" (method `.{e[2]}`)" if kind == "mcall" else ""))

    def c_return(self, e, env, ind):
        if e[1] is None:
            return self.k_ret(V("()", UNIT), env, ind)
        if e[1][0] == "try":
            raise Reject("`return ..?`")
        lines, v = self.head(e[1], env, ind, self.ret)
        return "\n".join(lines + [self.k_ret(v, env, ind)])

    def c_for(self, e, env, ind):
        """`for x in <map place>.values_mut() { x.f = e; .. }` (PRELUDE3): the body, a function of `x` alone, on every value:
        `Rust.Map.map_values (fun x => ..) place`.  The body may only assign fields of `x`; what it assigns may not mention the
        variable the map lives in (the loop holds a `&mut` borrow of it)."""
        _, pat, it, body = e
        pad = "  " * ind
        if pat[0] != "pbind" or pat[2]:
            raise Reject("`for` with a pattern other than a plain variable")
        if not (it[0] == "mcall" and it[2] == "values_mut" and not it[3]):
            raise Reject("`for` loop over anything but `<map>.values_mut()` (iteration whose order could be observed is not in the vocabulary)")
        lv = self.lvalue(it[1], env)
        if not lv or not env[lv[0]].mut or env[lv[0]].alias:
            raise Reject("`.values_mut()` on something that is not a field path of a mutable variable")
        pl = self.place(lv[0], lv[1], env)
        if pl.ty[0] != "map":
            raise Reject(f"`.values_mut()` on a value of type {ty_rust(pl.ty)}")
        inner = {n: v for n, v in env.items() if n != lv[0]}
        x, env2 = self.bind(pat[1], pl.ty[2], True, inner)
        if body[2] is not None and body[2][0] == "assign":
            body = ("block", body[1] + [("expr", body[2])], None)
        lines = []
        for st in body[1]:
            if not (st[0] == "expr" and st[1][0] == "assign" and (self.lvalue(st[1][1], env2) or (None,))[0] == pat[1]):
                raise Reject("statement other than an assignment to a field of the loop variable in a `for` over `values_mut()`")
            line, env2 = self.c_assign(st[1], env2, 0)
            lines.append(line.strip())
        if body[2] is not None or not lines:
            raise Reject("`for` over `values_mut()` whose body is not a sequence of field assignments")
        fn = f"(fun {x} => " + "; ".join(lines + [x]) + ")"
        new = f"(Rust.Map.map_values {fn} {atom(pl.text)})"
        return "\n".join([f"{pad}let {env[lv[0]].lean} : {ty_lean(env[lv[0]].ty)} := {self.set_place(lv[0], lv[1], env, new)}"]
                         + self.writeback(lv[0], env, pad))

    def c_for_fold(self, e, env, ind, rest):
        """(fourth file) `for x in <ordered iterator> { body }`: a LEFT FOLD over the items, in order, whose state is the tuple of
        the mutable variables the body mentions (PRELUDE4): `match List.foldl (fun (v1, v2) x => <body>; (v1, v2)) (v1, v2) items
        with | (v1, v2) => <rest>`.  The body may assign, `push`, call `&mut self` methods, branch; it may not leave the loop
        (`return`, `?`; `break` / `continue` are rejected by the parser)."""
        _, pat, it, body = e
        pad = "  " * ind

        def leaves(x):
            if isinstance(x, (tuple, list)):
                if len(x) >= 1 and x[0] in ("return", "try"):
                    return True
                return any(leaves(y) for y in x)
            return False
        if leaves(body):
            raise Reject("`return` / `?` inside a `for` loop")
        items = self.cx(it, env, ind)
        if items.ty[0] == "noom":
            items = V(f"(Rust.NoneOneOrMany.to_list {atom(items.text)})", ("seq", items.ty[1]))
        if items.ty[0] == "imap":
            items = V(items.text, ("seq", ("tuple", (items.ty[1], items.ty[2]))))
        if items.ty[0] not in ("seq", "list", "pending") or has_hole(items.ty[1]):
            raise Reject(f"`for` over a value of type {ty_rust(items.ty)} (only an ordered iterator / `Vec` / `IndexMap`; the order of a "
                         "`HashMap` is not modelled)")
        names = self.mentions(body)
        muts = [n for n in env if n in names and env[n].mut]
        for n in muts:
            if env[n].alias or env[n].ty[0] in ENTRYLIKE:
                raise Reject(f"`for` loop whose body mentions the borrowed variable `{n}`")
        if not muts:
            raise Reject("`for` loop whose body changes no variable")
        if pat[0] == "pbind":
            x, env2 = self.bind(pat[1], items.ty[1], pat[2], env)
        else:
            if not self.irrefutable(pat):
                raise Reject("refutable `for` pattern")
            x, env2 = self.cpat(pat, items.ty[1], env)

        def k_state(v, env_, ind_):
            if unify(v.ty, UNIT) is None:
                raise Reject(f"value of type {ty_rust(v.ty)} of a `for` body is discarded")
            vals = [env_[n].lean for n in muts]
            return "  " * ind_ + (vals[0] if len(vals) == 1 else "(" + ", ".join(vals) + ")")
        if body[2] is not None and body[2][0] == "assign":
            body = ("block", body[1] + [("expr", body[2])], None)
        text = self.cs(body[1], 0, body[2], env2, k_state, ind + 2, UNIT)
        accs = [env[n].lean for n in muts]
        for n in muts:
            if self.undet(env[n].ty):
                raise Reject(f"type of `{n}` is not determined by the loop")
        acc = accs[0] if len(accs) == 1 else "(" + ", ".join(accs) + ")"
        fold = f"(List.foldl (fun {acc} {atom(x)} =>\n{text}) {acc} {atom(items.text)})"
        if len(accs) == 1:
            return f"{pad}let {accs[0]} : {ty_lean(env[muts[0]].ty)} := {fold}\n" + rest(env, ind)
        return f"{pad}(match {fold} with\n{pad}| {acc} =>\n" + rest(env, ind + 1) + ")"

    def assign_via_lens(self, e, env, ind):
        """`<accessor>(..).f.g = rhs;` where the accessor returns `&mut T` (mut_lens): the two statements
        `let place_n = <accessor>(..);  place_n.f.g = rhs;` (None if the left side is not of that form)"""
        x, fs = e[1], []
        while x[0] == "field":
            fs.append(x[2])
            x = x[1]
        if x[0] == "un" and x[1] == "*":
            x = x[2]
        if x[0] != "mcall" or self.lvalue(e[1], env) is not None:
            return None
        used = set(self.used)
        ml = self.mut_lens(x, env, ind)
        self.used = used
        if ml is None:
            return None
        if not ml["unwrapped"]:
            raise Reject("assignment through an `Option<&mut T>`")
        tmp = self.fresh("place")
        lhs = ("path", [tmp])
        for f in reversed(fs):
            lhs = ("field", lhs, f)
        return [("let", ("pbind", tmp, True), None, x, None), ("expr", ("assign", lhs, e[2], e[3]))]

    def c_assign(self, e, env, ind):
        _, lhs, op, rhs = e
        pad = "  " * ind
        lv = self.lvalue(lhs, env)
        if not lv:
            raise Reject("assignment to something that is not a variable / field path")
        root, fields = lv
        if not env[root].mut:
            raise Reject(f"assignment through `{root}`, which is not mutable here")
        cur = self.place(root, fields, env)
        if op == "=":
            lines, v = self.head(rhs, env, ind, cur.ty)
            if lines:
                raise Reject("state-changing call on the right of an assignment")
            new = self.val(v)
        else:
            v = self.cx(rhs, env, ind, cur.ty if cur.ty in (NAT, INT) else None)
            new = self.arith(op[0], cur, v).text
        return "\n".join([f"{pad}let {env[root].lean} : {ty_lean(env[root].ty)} := {self.set_place(root, fields, env, new)}"]
                         + self.writeback(root, env, pad)), env

    def c_let(self, st, env, ind, rest, following=()):
        _, p, ann, init, els = st
        pad = "  " * ind
        annt = self.tr.resolve(ann) if ann else None
        if init[0] == "try":
            if els is not None:
                raise Reject("`let .. = ..? else`")
            lines, v = self.head(init[1], env, ind)
            inner_ty = v.ty[1] if v.ty[0] in ("opt", "res") else None
            if inner_ty is None:
                raise Reject(f"`?` on a value of type {ty_rust(v.ty)}")
            if annt and unify(annt, inner_ty) is None:
                raise Reject("`let` annotation does not match")
            if not self.irrefutable(p):
                raise Reject("refutable `let` pattern")
            pt, env2 = self.cpat(p, inner_ty, env)
            return "\n".join(lines + [self.try_match(v, env, ind, atom(pt), lambda ind2: rest(env2, ind2))])
        if init[0] == "mcall" and init[2] == "write" and not init[3] and els is None and p[0] == "pbind":
            lv = self.lvalue(init[1], env)
            pl = self.place(lv[0], lv[1], env) if lv and env[lv[0]].mut and not env[lv[0]].alias else None
            if pl is not None and pl.ty[0] == "lock":
                # `let mut guard = <place>.write();`  the write guard of a (transparent) RwLock: a mutable local holding the
                # content, every change of which is written back to the place at once (same reasoning as for `&mut`)
                if any(v.alias and v.alias[:2] == (lv[0], list(lv[1])) for v in env.values()):
                    raise Reject("second write guard / `&mut` borrow of the same place")
                lean, env2 = self.bind(p[1], pl.ty[1], True, env)
                env2[p[1]].alias = (lv[0], list(lv[1]), "id")
                return "\n".join([f"{pad}let {lean} : {ty_lean(pl.ty[1])} := {pl.text}", rest(env2, ind)])
        if init[0] == "mutref":
            # `let Some(x) = &mut <place> else { ..diverges.. };`  x is a mutable local holding the payload; every later
            # change of x is written back to the place at once (`writeback`).  Sound for code rustc accepts: while the
            # borrow x is alive nothing else can read or write the place, and after its last use x is never read again.
            if els is None or not (p[0] == "pctor" and p[1] == ["Some"] and len(p[2]) == 1 and p[2][0][0] == "pbind"):
                raise Reject("`&mut` borrow other than `let Some(x) = &mut <place> else { .. };`")
            lv = self.lvalue(init[1], env)
            if not lv or not env[lv[0]].mut or env[lv[0]].alias:
                raise Reject("`&mut` borrow of something that is not a field path of a mutable variable")
            pl = self.place(lv[0], lv[1], env)
            if pl.ty[0] != "opt" or has_hole(pl.ty):
                raise Reject(f"`let Some(x) = &mut <place>` on a place of type {ty_rust(pl.ty)}")
            if any(v.alias and v.alias[:2] == (lv[0], list(lv[1])) for v in env.values()):
                raise Reject("second `&mut` borrow of the same place")
            lean, env2 = self.bind(p[2][0][1], pl.ty[1], True, env)
            env2[p[2][0][1]].alias = (lv[0], list(lv[1]), "some")

            def k_div2(_v, _env, _ind):
                raise Reject("`let .. else` block that can fall through (it must end in `return`)")
            other = self.cs(els[1], 0, els[2], env, k_div2, ind + 1, UNIT)
            return f"{pad}(match {pl.text} with\n{pad}| none =>\n{other}\n{pad}| some {lean} =>\n" + rest(env2, ind + 1) + ")"
        ml = self.mut_lens(init, env, ind)
        if ml is not None:
            return self.c_let_lens(ml, p, annt, els, env, ind, rest)
        branchy = False
        if init[0] in BLOCKLIKE and els is None and not self.branch_is_pure(init, env):
            used = set(self.used)
            try:                       # the forms the plain reading covers (a state-changing scrutinee only) keep it
                self.head(init, env, ind, annt)
            except Reject:
                branchy = True
            self.used = used
        if branchy:
            # `let <pattern> = match .. { arms that return early / change state .. };`: the rest of the function is the
            # continuation of every arm that yields a value
            if not self.irrefutable(p):
                raise Reject("refutable `let` pattern without `else`")
            # first pass: the types the arms yield, unified (each arm alone may leave type arguments open: `Ok(x)` says
            # nothing about the error type); the second pass fits every arm's value to that common type
            seen = []

            def k_probe(v, _env_inner, _ind2):
                seen.append(v.ty)
                return ""
            used, pend, hdr = set(self.used), list(self.w.pending), list(self.w.aux_header)
            self.c_branchy(init, env, k_probe, ind, annt)
            self.used = used
            self.w.pending[:] = pend + [x for x in self.w.pending if x not in pend]
            self.w.aux_header[:] = hdr + [x for x in self.w.aux_header if x not in hdr]
            common = annt
            for t in seen:
                common = t if common is None else unify(common, t)
                if common is None:
                    raise Reject("the arms of a `let` initialiser yield values of different types")
            annt = common

            def k_bind(v, _env_inner, ind2):
                self.fit(v, annt, "initialiser")
                if self.undet(v.ty):
                    raise Reject("type of a `let` initialiser is not determined")
                pad2 = "  " * ind2
                if p[0] == "pbind":
                    lean, env2 = self.bind(p[1], v.ty, p[2], env)
                    return f"{pad2}let {lean} : {ty_lean(v.ty)} := {self.val(v)}\n" + rest(env2, ind2)
                if p[0] == "pwild":
                    return rest(env, ind2)
                pt, env2 = self.cpat(p, v.ty, env)
                return f"{pad2}(match {self.val(v)} with\n{pad2}| {pt} =>\n" + rest(env2, ind2 + 1) + ")"
            return self.c_branchy(init, env, k_bind, ind, annt)
        lines, v = self.head(init, env, ind, annt)
        if els is not None:
            if self.irrefutable(p):
                raise Reject("`let .. else` with an irrefutable pattern")
            if self.undet(v.ty):
                raise Reject("`let .. else` on a value of undetermined type")
            if len(self.expand_or(p)) != 1:
                raise Reject("`let .. else` with an or-pattern")
            pt, env2 = self.cpat(p, v.ty, env)

            def k_div(_v, _env, _ind):
                raise Reject("`let .. else` block that can fall through (it must end in `return`)")
            other = self.cs(els[1], 0, els[2], env, k_div, ind + 1, UNIT)
            if v.ty[0] == "opt" and p[0] == "pctor" and p[1] == ["Some"] and self.irrefutable(p[2][0]):
                return "\n".join(lines + [f"{pad}(match {v.text} with\n{pad}| none =>\n{other}\n{pad}| {pt} =>\n" + rest(env2, ind + 1) + ")"])
            # any other refutable pattern (an enum variant, `Ok(..)`, an entry, nested patterns): first the pattern, then `_`
            self.total_enums(v.ty)
            if not self.useful([[self.npat(p, v.ty)]], [("w",)], [v.ty]):
                raise Reject("`let .. else` with a pattern that always matches")
            return "\n".join(lines + [f"{pad}(match {self.val(v)} with\n{pad}| {pt} =>\n" + rest(env2, ind + 1) + f"\n{pad}| _ =>\n{other})"])
        if v.ty == ("list", HOLE) and p[0] == "pbind" and following:
            # `let mut xs = Vec::new();` directly followed by `xs.push(e);`: the element type is that of e
            nx = following[0]
            if nx[0] == "expr" and nx[1][0] == "mcall" and nx[1][1] == ("path", [p[1]]) and nx[1][2] == "push" and len(nx[1][3]) == 1:
                v.ty = ("list", self.cx(nx[1][3][0], env, ind).ty)
        if self.undet(v.ty):
            raise Reject("type of a `let` initialiser is not determined" + (" (integer literal: annotate the type)" if v.ty == INTLIT else ""))
        if p[0] == "pbind":
            lean, env2 = self.bind(p[1], v.ty, p[2], env)
            return "\n".join(lines + [f"{pad}let {lean} : {ty_lean(v.ty)} := {self.val(v)}", rest(env2, ind)])
        if p[0] == "pwild":
            return "\n".join(lines + [rest(env, ind)])
        if not self.irrefutable(p):
            raise Reject("refutable `let` pattern without `else`")
        pt, env2 = self.cpat(p, v.ty, env)
        return "\n".join(lines + [f"{pad}(match {v.text} with\n{pad}| {pt} =>\n" + rest(env2, ind + 1) + ")"])

    # ---- `&mut`-returning accessors (PRELUDE3): recognised only where the reference is bound / assigned through at once
    def mut_lens(self, e, env, ind):
        """`e` as an accessor expression of type `Option<&mut T>` (`unwrapped`: `&mut T`, the `None` case panics) over a map
        that is a field path of a mutable variable:
            <place>.get_mut(k)   <place>.get_index_mut(i).map(|(_k, v)| v)   <those>.expect("..") / .unwrap() /
            .unwrap_or_else(|| panic!(..))   <struct place>.acc(args) for a user fn `acc(&mut self, ..) -> &mut T` /
            `-> Option<&mut T>` whose body is ONE such expression over `self` (read with the arguments substituted)
        Returns None (not of that form) or a dict: get (V of type Option T: the current value), root / fields (the map
        place), wrap(place text, x) (the place after writing x back), unwrapped."""
        if e[0] != "mcall":
            return None
        recv, name, args = e[1], e[2], e[3]
        if name in ("expect", "unwrap", "unwrap_or_else"):
            inner = self.mut_lens(recv, env, ind)
            if inner is None:
                return None
            if inner["unwrapped"]:
                raise Reject(f"`.{name}(..)` on a `&mut` reference")
            if name == "unwrap_or_else" and not (len(args) == 1 and args[0][0] == "closure" and args[0][1] is None and args[0][2][0] == "panic"):
                raise Reject("`.unwrap_or_else(..)` on an `Option<&mut T>` with anything but `|| panic!(..)`")
            if name != "unwrap_or_else" and args:
                raise Reject(f"`.{name}(..)` arguments")
            return dict(inner, unwrapped=True)
        if name == "map" and recv[0] == "mcall" and recv[2] == "get_index_mut":
            c = args[0] if len(args) == 1 else None
            if not (c and c[0] == "closure" and isinstance(c[1], tuple) and len(c[1][1]) == 2 and c[1][1][1][0] == "pbind"
                    and c[2] == ("path", [c[1][1][1][1]])):
                raise Reject("`.get_index_mut(i).map(..)` with anything but `|(_key, value)| value`")
            lv = self.lvalue(recv[1], env)
            pl = self.lens_place(lv, env, "get_index_mut")
            if pl.ty[0] != "imap" or len(recv[3]) != 1:
                raise Reject(f"`.get_index_mut(..)` on a value of type {ty_rust(pl.ty)}")
            i = self.cx(recv[3][0], env, ind, NAT)
            if i.ty == INTLIT:
                i.ty = NAT
            if i.ty != NAT:
                raise Reject(f"`.get_index_mut(..)` with an index of type {ty_rust(i.ty)}")
            it = atom(self.val(i))
            pair = self.fresh("kv")
            get = V(f"(match Rust.IndexMap.get_index {atom(pl.text)} {it} with | some {pair} => some {pair}.2 | none => none)", ("opt", pl.ty[2]))
            return {"get": get, "root": lv[0], "fields": list(lv[1]), "unwrapped": False,
                    "wrap": lambda place, x, it=it: f"(Rust.IndexMap.set_index {atom(place)} {it} {x})"}
        if name == "get_mut" and len(args) == 1:
            lv = self.lvalue(recv, env)
            if lv is None:
                return None
            try:
                pl0 = self.place(lv[0], lv[1], env)
            except Reject:
                return None
            if pl0.ty[0] not in MAPLIKE:
                return None
            pl = self.lens_place(lv, env, "get_mut")
            kx = self.cx(args[0], env, ind, pl.ty[1] if not has_hole(pl.ty[1]) else None)
            kt = atom(self.val(kx))
            ns = "Rust.Map" if pl.ty[0] == "map" else "Rust.IndexMap"
            get = V(f"({ns}.get {atom(pl.text)} {kt})", ("opt", pl.ty[2]))
            setter = "insert" if pl.ty[0] == "map" else "set"
            return {"get": get, "root": lv[0], "fields": list(lv[1]), "unwrapped": False,
                    "wrap": lambda place, x, kt=kt, ns=ns, setter=setter: f"({ns}.{setter} {atom(place)} {kt} {x})"}
        if name == "get_index_mut":
            raise Reject("`.get_index_mut(i)` other than `.get_index_mut(i).map(|(_key, value)| value)`")
        return self.user_lens(e, env, ind)

    def lens_place(self, lv, env, what):
        if not lv or not env[lv[0]].mut or env[lv[0]].alias:
            raise Reject(f"`.{what}(..)` on something that is not a field path of a mutable variable")
        if any(v.alias and v.alias[:2] == (lv[0], list(lv[1])) for v in env.values()):
            raise Reject("second `&mut` borrow of the same place")
        return self.place(lv[0], lv[1], env)

    def user_lens(self, e, env, ind):
        """`<struct place>.acc(args)` for a user fn `acc(&mut self, ..) -> &mut T` / `-> Option<&mut T>` of a translated,
        non-generic struct whose body is ONE accessor expression over `self` (mut_lens): read as that expression with the
        arguments (pure) in place of the parameters.  The function is found by lookup like an auxiliary item; its source
        hash goes into the header of the generated file."""
        recv, name, args = e[1], e[2], e[3]
        lv = self.lvalue(recv, env)
        if lv is None or not env[lv[0]].mut:
            return None
        try:
            pl = self.place(lv[0], lv[1], env)
        except Reject:
            return None
        if pl.ty[0] != "struct":
            return None
        acc = self.accessor_of(pl.ty[1], name)
        if acc is None:
            return None
        parsed, gs, where = acc
        line = f"    + `&mut` accessor (read in place at its calls, PRELUDE3): {where}"
        if line not in self.w.aux_header:
            self.w.aux_header.append(line)
        return self.user_lens_body(e, env, ind, lv, pl, parsed, gs)

    def accessor_of(self, sname, name):
        """the parsed source of `sname::name` if it is a `&mut`-returning accessor (`fn name(&mut self, ..) -> &mut T` /
        `-> Option<&mut T>`) found by lookup; None otherwise"""
        key = (sname, name)
        if self.w.ctx is None or name in BUILTIN_METHODS or key in self.w.fns:
            return None
        if key not in self.w.accessors:
            self.w.accessors[key] = None
            cands = lookup_candidates(self.w, sname, name)
            if len(cands) == 1:
                rel, a, b, gs, sty_toks, label, _ = cands[0]
                raw, text = self.w.source(rel)
                try:
                    parsed = Parser(tokenize(text[a:b])).fn()
                except Reject:
                    parsed = None
                if parsed is not None and parsed[2] == "mut" and parsed[4] and (parsed[4][:2] == ["&", "mut"] or parsed[4][:4] == ["Option", "<", "&", "mut"]):
                    sha = hashlib.sha256(raw[a:b].encode()).hexdigest()[:16]
                    line = raw.count("\n", 0, a) + 1
                    self.w.accessors[key] = (parsed, gs, f"{rel} :: {label} :: fn {name}  (line {line})  sha256[:16]={sha}")
        return self.w.accessors[key]

    def user_lens_body(self, e, env, ind, lv, pl, parsed, gs):
        recv, name, args = e[1], e[2], e[3]
        _, fgs, _, params, ret, body = parsed
        if gs or fgs or self.w.structs[pl.ty[1]].generics:
            raise Reject(f"`&mut`-returning accessor `{pl.ty[1]}::{name}` with type parameters")
        if len(args) != len(params):
            raise Reject(f"call of `{pl.ty[1]}::{name}` with {len(args)} arguments")
        if body[1] or body[2] is None:
            raise Reject(f"`&mut`-returning accessor `{pl.ty[1]}::{name}`: its body is not ONE accessor expression (see PRELUDE3)")
        tr = TypeResolver(self.w, pl.ty, ())
        env2 = {"self": Var(pl.ty, True, pl.text)}
        for (pn, _, tt), a in zip(params, args):
            v = self.cx(a, env, ind, tr.resolve(tt))
            if has_hole(v.ty):
                raise Reject(f"argument `{pn}` of `{pl.ty[1]}::{name}` has an undetermined type")
            env2[pn] = Var(v.ty, False, atom(self.val(v)))
        try:
            inner = self.mut_lens(body[2], env2, ind)
        except Reject as ex:
            raise Reject(f"`&mut`-returning accessor `{pl.ty[1]}::{name}`: {ex}")
        if inner is None or inner["root"] != "self":
            raise Reject(f"`&mut`-returning accessor `{pl.ty[1]}::{name}`: its body is not ONE accessor expression over `self` (see PRELUDE3)")
        if inner["unwrapped"] != (ret[:2] == ["&", "mut"]):
            raise Reject(f"`&mut`-returning accessor `{pl.ty[1]}::{name}`: its body does not fit its return type")
        root, fields = lv[0], list(lv[1]) + list(inner["fields"])
        if env[root].alias or any(v.alias and v.alias[:2] == (root, fields) for v in env.values()):
            raise Reject("second `&mut` borrow of the same place")
        return dict(inner, root=root, fields=fields)

    def undet(self, t):
        """is the type of a `let` not determined well enough?  For the first two files: any hole.  For the third: a hole at the
        top or an integer literal of unknown width anywhere; other holes (type arguments Rust infers from a LATER use, e.g.
        the error type of an `Ok(..)`) are written `_` and left to Lean's elaborator, which rejects what it cannot infer."""
        if self.w.ctx is None or self.w.ctx.groups[0] not in GROUPS34:
            return has_hole(t)

        def lit(x):
            if x == INTLIT:
                return True
            cs = ty_children(x)
            if cs is None:
                cs = [x[1]] if x[0] in ("opt", "list", "lock") else [x[1], x[2]] if x[0] == "res" else list(x[2]) if x[0] == "struct" else \
                    list(x[1]) if x[0] == "tuple" else []
            return any(lit(c) for c in cs)
        return t == HOLE or lit(t)

    def inhabit(self, t):
        """a panic as a VALUE of type t (`Rust.unreachable : t`) needs `Inhabited t`: for the groups of the third file the
        instance is derived on demand (the first two files keep their committed form: their types have what they need)"""
        if self.w.ctx is not None and self.w.ctx.groups[0] in GROUPS34 and not ensure_inhabited(self.w, t):
            raise Reject(f"a panic as a value of type {ty_rust(t)}, which cannot be given an `Inhabited` instance")

    def panic_text(self):
        """`Rust.unreachable` standing for the whole result of the function (a panic aborts it): its type must be inhabited"""
        tys = ([self.self_ty] if self.mode == "mut" else []) + ([self.ret] if self.ret != UNIT or self.mode != "mut" else [])
        if getattr(self, "mutparam", None) is not None:
            tys.append(self.tr_env_ty)
        for t in tys:
            if not ensure_inhabited(self.w, t):
                raise Reject(f"a panic in a function whose result type {ty_rust(t)} cannot be given an `Inhabited` instance")
        return "Rust.unreachable"

    def c_let_lens(self, ml, p, annt, els, env, ind, rest):
        """`let Some(x) = <Option<&mut T>> else { .. };` / `let x = <&mut T>;`: x is a mutable local holding the value, every
        change of it is written back to the map at once (writeback)."""
        pad = "  " * ind
        get = ml["get"]
        if annt is not None:
            raise Reject("type annotation on a `let` that binds a `&mut` reference")
        if ml["unwrapped"]:
            if els is not None or p[0] != "pbind":
                raise Reject("a `&mut` reference may only be bound as `let x = ..;`")
            name = p[1]
            other = f"{pad}  {self.panic_text()}"
        else:
            if els is None or not (p[0] == "pctor" and p[1] == ["Some"] and len(p[2]) == 1 and p[2][0][0] == "pbind"):
                raise Reject("an `Option<&mut T>` may only be bound as `let Some(x) = .. else { .. };` / `if let Some(x) = ..`")
            name = p[2][0][1]

            def k_div(_v, _env, _ind):
                raise Reject("`let .. else` block that can fall through (it must end in `return`)")
            other = self.cs(els[1], 0, els[2], env, k_div, ind + 1, UNIT)
        lean, env2 = self.bind(name, get.ty[1], True, env)
        env2[name].alias = (ml["root"], list(ml["fields"]), ml["wrap"])
        return f"{pad}(match {get.text} with\n{pad}| none =>\n{other}\n{pad}| some {lean} =>\n" + rest(env2, ind + 1) + ")"

    def c_branchy(self, e, env, k, ind, expect):
        """if / if let / match / block whose branches may assign, return early and use `?`; every branch that falls
        through continues with k"""
        pad = "  " * ind
        kind = e[0]
        if kind == "block":
            return self.cs(e[1], 0, e[2], env, k, ind, expect)
        if kind == "if":
            c = self.prop(self.cx(e[1], env, ind + 1))
            a = self.cs(e[2][1], 0, e[2][2], env, k, ind + 1, expect)
            b = self.cs(e[3][1], 0, e[3][2], env, k, ind + 1, expect) if e[3] else k(V("()", UNIT), env, ind + 1)
            return f"{pad}(if {c} then\n{a}\n{pad}else\n{b})"
        if kind == "match" and self.is_optmatch(e):
            return self.c_optmatch(e, env, k, ind, expect)
        if kind == "match" and self.is_gmatch(e):
            return self.c_gmatch(e, env, k, ind, expect)
        if kind == "iflet":
            ml = self.mut_lens(e[2], env, ind)
            if ml is not None:
                # `if let Some(x) = <Option<&mut T>> { .. } else { .. }`: x is a mutable alias of the value (c_let_lens)
                q = e[1]
                if ml["unwrapped"] or not (q[0] == "pctor" and q[1] == ["Some"] and len(q[2]) == 1 and q[2][0][0] == "pbind"):
                    raise Reject("an `Option<&mut T>` may only be bound as `let Some(x) = .. else { .. };` / `if let Some(x) = ..`")
                get = ml["get"]
                lean, env2 = self.bind(q[2][0][1], get.ty[1], True, env)
                env2[q[2][0][1]].alias = (ml["root"], list(ml["fields"]), ml["wrap"])
                a = self.cs(e[3][1], 0, e[3][2], env2, k, ind + 1, expect)
                b = self.cs(e[4][1], 0, e[4][2], env, k, ind + 1, expect) if e[4] else k(V("()", UNIT), env, ind + 1)
                return f"{pad}(match {get.text} with\n{pad}| none =>\n{b}\n{pad}| some {lean} =>\n{a})"
        if kind == "match" and self.is_chain(e):
            conds = self.chain_of(e, env, ind)
            def go(j, ind2):
                c, body, env_arm = conds[j]
                pad2 = "  " * ind2
                if c is None:
                    return self.cs(body[1], 0, body[2], env_arm, k, ind2, expect)
                a = self.cs(body[1], 0, body[2], env_arm, k, ind2 + 1, expect)
                return f"{pad2}(if {c} then\n{a}\n{pad2}else\n" + go(j + 1, ind2 + 1) + ")"
            return go(0, ind)
        lines, s = self.head(e[2] if kind == "iflet" else e[1], env, ind)
        arms = self.arms_of(e, s, env)
        if arms[0] == "bool":
            a = self.cs(arms[1][1], 0, arms[1][2], env, k, ind + 1, expect)
            b = self.cs(arms[2][1], 0, arms[2][2], env, k, ind + 1, expect)
            return "\n".join(lines + [f"{pad}(if {self.prop(s)} then\n{a}\n{pad}else\n{b})"])
        out = []
        for pt, env2, body in arms[1]:
            # the continuation of a branch must see the variables of the enclosing scope under their own names:
            # binders introduced by the pattern got fresh names whenever they would shadow one
            t = self.cs(body[1], 0, body[2], env2, k, ind + 1, expect) if body else k(V("()", UNIT), env, ind + 1)
            out.append(f"{pad}| {pt} =>\n{t}")
        return "\n".join(lines + [f"{pad}(match {self.val(s)} with\n" + "\n".join(out) + ")"])

    def ctail(self, e, env, k, ind, expect):
        kind = e[0]
        if kind == "panic":
            return "  " * ind + "Rust.unreachable"
        if kind == "match" and self.w.ctx is not None and self.w.ctx.groups[0] in GROUPS4:
            # (fourth file) a `?` / state-changing call inside the scrutinee of a `match` (always evaluated, first): taken out
            lets, s2 = self.hoist(e[1], env, top=False)
            if lets:
                return self.cs(lets, 0, ("match", s2, e[2]), env, k, ind, expect)
        if kind in BLOCKLIKE:
            if self.branch_is_pure(e, env):
                return k(self.cx(e, env, ind, expect), env, ind)
            return self.c_branchy(e, env, k, ind, expect)
        if kind == "assign":
            via = self.assign_via_lens(e, env, ind)
            if via is not None:
                return self.cs(via, 0, None, env, k, ind, expect)
            line, env2 = self.c_assign(e, env, ind)
            return line + "\n" + k(V("()", UNIT), env2, ind)
        if kind == "return":
            return self.c_return(e, env, ind)
        if kind == "try":
            lines, v = self.head(e[1], env, ind)
            x = self.fresh("ok")
            inner_ty = v.ty[1] if v.ty[0] in ("opt", "res") else HOLE
            return "\n".join(lines + [self.try_match(v, env, ind, x, lambda ind2: k(V(x, inner_ty), env, ind2))])
        lines, v = self.head(e, env, ind, expect)
        return "\n".join(lines + [k(v, env, ind)])

    def branch_is_pure(self, e, env):
        """can the branching expression be written as a plain value (no assignment / return / `?` / state change)"""
        def stmts_pure(b):
            return b is None or (all(st[0] == "let" and st[4] is None and st[1][0] == "pbind" and pure(st[3]) for st in b[1])
                                 and b[2] is not None and pure(b[2]))

        def pure(x):
            k = x[0]
            if k in ("assign", "return", "try"):
                return False
            if self.effect(x, env):
                return False
            if k == "block":
                return stmts_pure(x)
            if k == "if":
                return x[3] is not None and pure(x[1]) and stmts_pure(x[2]) and stmts_pure(x[3])
            if k == "iflet":
                return x[4] is not None and pure(x[2]) and stmts_pure(x[3]) and stmts_pure(x[4])
            if k == "match":
                return pure(x[1]) and all(stmts_pure(a[2]) for a in x[2])
            if k in ("un",):
                return pure(x[2])
            if k == "bin":
                return pure(x[2]) and pure(x[3])
            if k in ("field", "cast"):
                return pure(x[1])
            if k == "mcall":
                return pure(x[1]) and all(pure(a) for a in x[3])
            if k == "call":
                return all(pure(a) for a in x[2])
            if k == "structlit":
                return all(pure(a) for _, a in x[2])
            if k == "tuple":
                return all(pure(a) for a in x[1])
            return True
        return pure(e)


# ------------------------------------------------------------------------------------------ driver

def compile_fn(world, parsed, toks, cname, self_ty, lean_name, tmap=None, tvars=(), assoc=None, where_into=None, pinfo=None):
    """(Lean text of the definition, Fn); tvars = type parameters of the enclosing impl (kept generic)"""
    name, gs, mode, params, ret_toks, body = parsed
    if mode != "none" and (self_ty is None or self_ty[0] not in ("struct", "enum")):
        raise Reject("`self` receiver outside an impl of a translated struct / enum")
    if mode in ("mut", "ownmut") and self_ty[0] == "enum":
        raise Reject("`&mut self` / `mut self` receiver on an enum (only `&self` / `self`)")
    tvars = list(tvars) + [a for a in sorted(world.abstract) if a not in tvars]
    tr = TypeResolver(world, self_ty, tvars, assoc)
    bounds = {}          # (fourth file) type parameter -> [(trait, [argument tokens | types], {associated type: tokens | type})]
    if world.ctx is not None and world.ctx.groups[0] in GROUPS4:
        def split_bound(g, bt, info):
            args, binds = [], {}
            if len(bt) > 1:
                if bt[1] != "<" or bt[-1] != ">":
                    raise Reject(f"bound `{g}: {' '.join(bt)}`")
                d, cur, parts = 0, [], []
                for x in bt[2:-1]:
                    d += x in ("<", "(", "[")
                    d -= x in (">", ")", "]")
                    if x == "," and d == 0:
                        parts.append(cur)
                        cur = []
                    else:
                        cur.append(x)
                if cur:
                    parts.append(cur)
                for part in parts:
                    if len(part) > 2 and part[1] == "=" and part[0] in info.assocs:
                        binds[part[0]] = part[2:]
                    else:
                        args.append(part)
            dfl = getattr(info, "defaults", {})
            if len(args) < len(info.generics) and all(x in dfl for x in info.generics[len(args):]):
                args = args + [dfl[x] for x in info.generics[len(args):]]          # default type arguments of the trait
            if len(args) != len(info.generics):
                raise Reject(f"bound `{g}: {' '.join(bt)}` with {len(args)} type arguments")
            return args, binds

        def add_bound(g, bt, ns=None, depth=0):
            """the bound `g: bt`; ns = (TypeResolver of the trait the bound was declared in, substitution) for the bound of an
            ASSOCIATED type (`type ExecutionTx: Tx<Item = ..>`), whose tokens live in that trait's namespace"""
            if bt[0] not in world.trait_info or depth > 4:
                return
            info = world.trait_info[bt[0]]
            args, binds = split_bound(g, bt, info)
            if ns is not None:
                rs, sub = ns
                args = [subst(rs.resolve(t), sub) for t in args]
                binds = {k2: subst(rs.resolve(t), sub) for k2, t in binds.items()}
            if any(b2[0] == bt[0] for b2 in bounds.get(g, [])):
                raise Reject(f"two bounds `{g}: {bt[0]}<..>`")
            bounds.setdefault(g, []).append((bt[0], args, binds))
            # `g::Name`: what the bound binds it to (`Name = Ty`), else a further type parameter `g_Name` of the definition,
            # which in turn has the bounds the trait declares for that associated type
            for an in info.assocs:
                if (g, an) in tr.proj:
                    raise Reject(f"`{g}::{an}` is an associated type of two bound traits")
                if an in binds:
                    tr.proj[(g, an)] = binds[an] if isinstance(binds[an], tuple) else ("toks", binds[an])
                else:
                    tr.proj[(g, an)] = ("tvar", f"{g}_{an}")
                    tr.tvars.add(f"{g}_{an}")
            for an in info.assocs:
                if an not in binds:
                    sub2 = {"Self": ("tvar", g)}
                    for x, t in zip(info.generics, args):
                        sub2[x] = t if isinstance(t, tuple) else tr.resolve(t)
                    for x in info.assocs:
                        sub2[x] = tr.resolve([g, "::", x]) if x in binds else ("tvar", f"{g}_{x}")
                    rs2 = TypeResolver(world, ("tvar", "Self"), info.generics + info.assocs, {x: [x] for x in info.assocs})
                    for bt2 in getattr(info, "assoc_bound_toks", {}).get(an, []):
                        add_bound(f"{g}_{an}", bt2, (rs2, sub2), depth + 1)

        for g, bs in (getattr(pinfo, "where_bounds", None) or {}).items():
            if g not in tvars:
                continue
            for bt in bs:
                add_bound(g, bt)
        # a type parameter bound by `Fn(..) -> R` / `IntoIterator<Item = X>` stands for the function type / the item list
        for g, bs in (getattr(pinfo, "where_bounds", None) or {}).items():
            if g in tvars and g not in (tmap or {}):
                for bt in bs:
                    if bt[0] in ("Fn", "FnMut", "FnOnce", "IntoIterator"):
                        tmap = dict(tmap or {})
                        tmap[g] = ("toks", bt)
    if tmap:
        base_resolve = tr.ty

        def ty_with_map():
            v = tr.t[tr.i]
            if v in tmap and tr.t[tr.i + 1] not in ("<", "::"):
                tr.i += 1
                if tmap[v][0] == "toks":      # (fourth file) a `Fn(..)` / `IntoIterator<..>` bound: resolved on first use
                    sub = TypeResolver(world, self_ty, tvars, assoc)
                    sub.proj, sub.proj_tvars = tr.proj, tr.proj_tvars
                    tmap[v] = sub.resolve(tmap[v][1])
                return tmap[v]
            return base_resolve()
        tr.ty = ty_with_map
    ptys, mutparam = [], None
    for j, (p, mut, tt) in enumerate(params):
        try:
            if tt[:2] == ["&", "mut"] and world.ctx is not None and world.ctx.groups[0] in GROUPS34:
                # `x: &mut T`: state passing on the parameter, as for `&mut self`: the fn returns the new `x` with its result
                if mutparam is not None or mode in ("mut", "ownmut"):
                    raise Reject("more than one `&mut` parameter / a `&mut` parameter next to `&mut self`")
                mutparam = j
                ptys.append((p, True, tr.resolve(tt[2:])))
            else:
                ptys.append((p, mut, tr.resolve(tt)))
        except Reject as ex:
            raise Reject(f"parameter `{p}`: {ex}")
    if len({p for p, _, _ in ptys}) != len(ptys):
        raise Reject("duplicate parameter name")
    ret = tr.resolve(ret_toks) if ret_toks else UNIT
    idents = {v for k, v in toks if k == "id"}
    vals = [v for _, v in toks]
    if sum(1 for j in range(len(vals) - 2) if vals[j:j + 3] == ["Utc", "::", "now"]) > 1:
        raise Reject("`Utc::now()` is read more than once (the wall clock is ONE explicit parameter per function)")
    c = Compiler(world, self_ty, mode, ret, idents, tr)
    c.bounds = bounds
    c.mutparam = ptys[mutparam][0] if mutparam is not None else None
    c.tr_env_ty = ptys[mutparam][2] if mutparam is not None else None
    for g, wt in (where_into or {}).items():
        if g in tvars:
            tgt = tr.resolve(wt)
            x = f"{g}_into"
            if x in world.conv_ops and world.conv_ops[x] != (("tvar", g), tgt) and not (world.ctx is not None and world.ctx.groups[0] in GROUPS4):
                raise Reject(f"two different `{g}: Into<..>` bounds in the translated code (the conversion parameter `{x}` would clash)")
            c.into_bounds[g] = tgt
    for g, srcs in (getattr(pinfo, "where_from", None) or {}).items():
        if g in tvars and world.ctx is not None and world.ctx.groups[0] in GROUPS4:
            c.from_bounds[g] = [tr.resolve(wt) for wt in srcs]
    if world.ctx is not None and world.ctx.groups[0] in GROUPS4:
        for lhs, src in (getattr(pinfo, "where_type_from", None) or []):
            try:
                c.type_from.append((tr.resolve(lhs), tr.resolve(src)))
            except Reject:
                pass          # a bound on a type outside the translated vocabulary: nothing translated can use it
    env = {}
    if mode != "none":
        env["self"] = Var(self_ty, mode in ("mut", "ownmut"), "self")
    for p, mut, t in ptys:
        if p in LEAN_CLASH:
            raise Reject(f"parameter named `{p}` (clashes with a Lean name the emitter uses)")
        env[p] = Var(t, mut, lean_id(p))
    try:
        text = c.cs(body[1], 0, body[2], env, c.k_ret, 1, ret)
    except Reject as ex:
        if not (ret[0] == "seq" and "HASH order" in str(ex) and ret_toks and ret_toks[0] == "impl"):
            raise
        # `-> impl Iterator<Item = &T>` whose value is the `values()` of a `HashMap`: what the fn returns is a `Rust.Bag`
        ret = ("bag", ret[1])
        c = Compiler(world, self_ty, mode, ret, idents, tr)
        c.bounds, c.mutparam, c.tr_env_ty = bounds, None, None
        text = c.cs(body[1], 0, body[2], env, c.k_ret, 1, ret)
    used = []
    for t in ([self_ty] if mode != "none" else []) + [t for _, _, t in ptys] + [ret]:
        tvars_of(t, used)
    sig = [f"{{{g} : Type}} [DecidableEq {g}]" for g in tvars if g in used]
    for x in c.externs:                     # type parameters only the type of a handed-on trait record mentions
        for g in world.extern_tvars.get(x, []):
            if g not in tr.proj_tvars and not (g in tvars and g in used):
                if g in tvars:
                    used.append(g)
                else:
                    tr.proj_tvars.append(g)
    sig = [f"{{{g} : Type}} [DecidableEq {g}]" for g in tvars if g in used]
    sig += [f"{{{g} : Type}} [DecidableEq {g}]" for g in tr.proj_tvars]        # (fourth file) unbound associated types `T_Name`
    for p, _, _ in ptys:
        if p in world.externs:
            raise Reject(f"parameter `{p}` shadows the extern function `{p}`")
    sig += [f"({lean_id(x)} : {world.externs[x][2]})" for x in c.externs]
    if mode != "none":
        sig.append(f"(self : {ty_lean(self_ty)})")
    sig += [f"({lean_id(p)} : {ty_lean(t)})" for p, _, t in ptys]
    if mode == "mut":
        rt = ty_lean(self_ty) if ret == UNIT else f"{ty_atom(self_ty)} × {ty_lean(ret)}"
    elif mutparam is not None:
        rt = ty_lean(ptys[mutparam][2]) if ret == UNIT else f"{ty_atom(ptys[mutparam][2])} × {ty_lean(ret)}"
    else:
        rt = ty_lean(ret)
    out = f"def {lean_name} " + " ".join(sig) + f" : {rt} :=\n{text}"
    fn = Fn(lean_name, mode, self_ty, [(p, t) for p, _, t in ptys], ret, [g for g in tvars if g in used] + list(tr.proj_tvars), c.externs)
    fn.mutparam = mutparam
    return out, fn


def translate_trait(world, text, raw, name):
    """`trait Name .. { fn m(&self, ..) -> R; .. }` -> a Lean structure `Name (Self : Type)` with one field per method
    whose signature is in the accepted types (the others are dropped and recorded; default bodies are ignored: an
    impl may override them).  A method call on a value of a type PARAMETER is a field of this record."""
    hits = [m for m in re.finditer(r"\btrait\s+%s\b" % re.escape(name), text) if depth_at(text, 0, m.start()) == 0]
    if len(hits) != 1:
        raise Reject(f"expected exactly one top-level `trait {name}`, found {len(hits)}")
    a = hits[0].start()
    j = a
    while j < len(text) and text[j] not in "{;":
        j += 1
    if j >= len(text) or text[j] != "{":
        raise Reject(f"`trait {name}` has no body")
    b = match_brace(text, j) + 1
    sha = hashlib.sha256(raw[a:b].encode()).hexdigest()[:16]
    line = raw.count("\n", 0, a) + 1
    if world.ctx is not None and world.ctx.groups[0] in GROUPS4:
        return translate_trait4(world, text, a, j, b, name), sha, line
    if re.search(r"\btrait\s+%s\s*<" % re.escape(name), text[a:j]):
        raise Reject(f"generic trait `{name}`")
    body = text[j + 1:b - 1]
    methods, dropped = {}, {}
    tr = TypeResolver(world, ("tvar", "Self"), ())
    for m in re.finditer(r"\bfn\s+(\w+)", body):
        if depth_at(body, 0, m.start()) != 0:
            continue
        k = m.start()
        e = k
        while e < len(body) and body[e] not in "{;":
            e += 1
        sig = body[k:e] + " {"
        try:
            n, gs, mode, params, ret_toks, _ = Parser(tokenize(sig)).fn(sig_only=True)
            if gs or mode != "ref":
                raise Reject("generic method / receiver other than `&self`")
            methods[n] = ([tr.resolve(tt) for _, _, tt in params], tr.resolve(ret_toks) if ret_toks else UNIT)
        except Reject as ex:
            dropped[m.group(1)] = str(ex)
    if not methods:
        raise Reject(f"trait `{name}` has no method with a translatable signature")
    if name in world.lean_names:
        raise Reject(f"name clash: `{name}` is generated twice")
    world.lean_names.add(name)
    world.traits[name] = methods
    fields = "".join("  %s : %s\n" % (lean_id(n), " → ".join(["Self"] + [ty_atom(t) for t in pts] + [ty_lean(rt)]))
                     for n, (pts, rt) in methods.items())
    out = f"structure {name} (Self : Type) where\n{fields}".rstrip("\n")
    note = ("-- a trait as the record of its methods: a call `x.m(..)` on a value of a type parameter `T` is `T_%s.m x ..` of an "
            "explicit parameter `T_%s : %s T` (nothing is assumed about the implementation)" % (name, name, name))
    if dropped:
        note += "; not translated: " + ", ".join(f"{n} ({why})" for n, why in dropped.items())
    return note + "\n" + out, sha, line


class TraitInfo:
    """a trait of the fourth file: type parameters, associated types (in declaration order) and, per method, its receiver mode
    (`ref` / `mut`), its own type parameters, their `From` bounds, parameter types and result type -- all in terms of the type
    variables `Self`, the trait's parameters, the names of its associated types and the method's parameters"""

    def __init__(self, name, generics, assocs, methods):
        self.name, self.generics, self.assocs, self.methods = name, generics, assocs, methods


def translate_trait4(world, text, a, j, b, name):
    """(fourth file) `trait Name<P..> { type A; fn m<K>(&self | &mut self, x: X) -> R where P: From<K>; .. }` -> the Lean structure
    `Name (Self : Type) (P.. : Type) (A.. : Type)` with one field per method whose signature is in the accepted types:
        `&self`      m : Self → X → R
        `&mut self`  m : Self → X → Self × R          (state passing; `Self` alone for `R = ()`)
        `<K>`        m : {K : Type} → [DecidableEq K] → (K → P) → ..   (type parameters of the method; one explicit conversion per
                     `P: From<K>` bound of its `where` clause, supplied by the caller)
    Associated types are further type parameters of the record (after the trait's own).  Methods with other receivers /
    untranslatable signatures are dropped and recorded; default bodies are ignored (an impl may override them)."""
    hp = Parser(tokenize(text[a:j] + "{"))
    hp.eat("trait")
    hp.ident()
    gs = hp.generics()
    trait_defaults = dict(hp.generic_defaults)
    body = text[j + 1:b - 1]
    assocs, assoc_bound_toks = [], {}
    for m in re.finditer(r"\btype\s+(\w+)\s*(:[^;]*)?;", body):
        if depth_at(body, 0, m.start()) == 0:
            assocs.append(m.group(1))
            # `type ExecutionTx: Tx<Item = ..>;` -- what is known about the associated type: its own bounds
            bt = [v for _, v in tokenize(m.group(2)[1:])][:-1] if m.group(2) else []
            d, cur, parts = 0, [], []
            for x in bt:
                d += x in ("<", "(", "[")
                d -= x in (">", ")", "]")
                if x == "+" and d == 0:
                    parts.append(cur)
                    cur = []
                else:
                    cur.append(x)
            parts.append(cur)
            assoc_bound_toks[m.group(1)] = [b for b in parts if b]
    if len(set(gs + assocs + ["Self"])) != len(gs) + len(assocs) + 1:
        raise Reject(f"trait `{name}`: a type parameter and an associated type share a name")
    methods, dropped = {}, {}
    for m in re.finditer(r"\bfn\s+(\w+)", body):
        if depth_at(body, 0, m.start()) != 0:
            continue
        k = m.start()
        e = k
        while e < len(body) and body[e] not in "{;":
            e += 1
        sig = body[k:e] + " {"
        try:
            mtoks = tokenize(sig)
            mp = Parser(mtoks)
            n, mgs, mode, params, ret_toks, _ = mp.fn(sig_only=True)
            clash = set(mgs) & set(gs + assocs)
            if clash:
                # a type parameter of the method named like an associated type (`fn send<Item: Into<Self::Item>>`): renamed
                # `<name>T` wherever it is not the `Self::<name>` projection
                mtoks = [(k2, v2 + "T" if k2 == "id" and v2 in clash and not (j >= 2 and mtoks[j - 1][1] == "::" and mtoks[j - 2][1] == "Self")
                          else v2) for j, (k2, v2) in enumerate(mtoks)]
                mp = Parser(mtoks)
                n, mgs, mode, params, ret_toks, _ = mp.fn(sig_only=True)
            if mode not in ("ref", "mut"):
                raise Reject("receiver other than `&self` / `&mut self`")
            if set(mgs) & set(gs + assocs + ["Self"]):
                raise Reject("a type parameter of the method shadows one of the trait")
            tr = TypeResolver(world, ("tvar", "Self"), gs + assocs + mgs, {x: [x] for x in assocs})
            frm = {}
            for g, srcs in mp.where_from.items():
                if g not in gs + assocs + mgs:
                    raise Reject(f"`From` bound on `{g}`")
                frm[g] = [tr.resolve(t) for t in srcs]
            into = {}
            for g, wt in mp.where_into.items():
                if g not in mgs:
                    raise Reject(f"`Into` bound on `{g}`")
                into[g] = tr.resolve(wt)
            methods[n] = dict(mode=mode, gs=list(mgs), frm=frm, into=into, ptys=[tr.resolve(tt) for _, _, tt in params],
                              rt=tr.resolve(ret_toks) if ret_toks else UNIT)
        except Reject as ex:
            dropped[m.group(1)] = str(ex)
    if not methods:
        raise Reject(f"trait `{name}` has no method with a translatable signature" + "".join(f"; {n}: {why}" for n, why in dropped.items()))
    if name in world.lean_names:
        raise Reject(f"name clash: `{name}` is generated twice")
    world.lean_names.add(name)
    world.trait_info[name] = TraitInfo(name, gs, assocs, methods)
    world.trait_info[name].defaults = trait_defaults
    world.trait_info[name].assoc_bound_toks = assoc_bound_toks
    world.traits[name] = {n: (md["ptys"], md["rt"]) for n, md in methods.items()}
    fields = ""
    for n, md in methods.items():
        parts = []
        for g in md["gs"]:
            parts += [f"{{{g} : Type}}", f"[DecidableEq {g}]"]
        for g, srcs in md["frm"].items():
            parts += [f"({ty_lean(u)} → {g})" for u in srcs]
        for g, tgt in md["into"].items():
            parts.append(f"({g} → {ty_lean(tgt)})")
        parts += ["Self"] + [ty_atom(t) for t in md["ptys"]]
        if md["mode"] == "mut":
            parts.append("Self" if md["rt"] == UNIT else f"Self × {ty_lean(md['rt'])}")
        else:
            parts.append(ty_lean(md["rt"]))
        fields += f"  {lean_id(n)} : " + " → ".join(parts) + "\n"
    out = f"structure {name} (Self : Type)" + "".join(f" ({g} : Type)" for g in gs + assocs) + f" where\n{fields}".rstrip("\n")
    note = ("-- a trait as the record of its methods (type parameters: Self, the trait's own, its associated types): a call `x.m(..)` on a "
            "value of a type parameter `T` is `T_%s.m x ..` of an explicit parameter `T_%s : %s T ..` (nothing is assumed about the "
            "implementation); `&mut self` methods return the new `Self` with their result" % (name, name, name))
    if dropped:
        note += "; not translated: " + ", ".join(f"{n} ({why})" for n, why in dropped.items())
    return note + "\n" + out


def translate_alias(world, text, raw, name):
    """`type Name<P = D, ..> = T;` at the top level of the file: expanded at every use (TypeResolver), also as the name of
    a struct pattern / struct literal (World.alias_base); nothing is emitted."""
    hits = [m for m in re.finditer(r"\btype\s+%s\b" % re.escape(name), text) if depth_at(text, 0, m.start()) == 0]
    if len(hits) != 1:
        raise Reject(f"expected exactly one top-level `type {name}`, found {len(hits)}")
    a = hits[0].start()
    b = text.index(";", a) + 1
    sha = hashlib.sha256(raw[a:b].encode()).hexdigest()[:16]
    line = raw.count("\n", 0, a) + 1
    p = Parser(tokenize(text[a:b]))
    p.eat("type")
    p.ident()
    params = p.generics()
    if p.peek() == "where":
        raise Reject(f"type alias `{name}`: where clause")
    p.eat("=")
    body = p.type_tokens({";"})
    p.eat(";")
    if name in world.aliases or name in world.lean_names:
        raise Reject(f"name clash: `{name}` is declared twice")
    TypeResolver(world, None, params).resolve(body)          # must be a translated type
    world.aliases[name] = (params, body)
    shown = name + ("<" + ", ".join(params) + ">" if params else "")
    return (f"-- alias: `type {shown} = {' '.join(body)}` is expanded at every use", sha, line)


def with_attr(world, out):
    """`def ..` -> `@[gen_<group>, ..] def ..`: every generated definition is in the simp set of the group(s) of the table
    item it was generated for, so that agreement proofs can unfold "everything generated for this group" without
    knowing the names of auxiliary definitions"""
    assert out.startswith("def "), out[:40]
    lname = out.split()[1]
    groups = list(world.ctx.groups) if world.ctx else []
    world.attr_groups.setdefault(lname, set()).update(groups)
    return ("@[" + ", ".join("gen_" + g for g in groups) + "] " if groups else "") + out


def translate(world, text, raw, container, kind, name, opts, loc=None):
    """returns (lean text of the item, sha of its source text, line); loc = (start, end, impl generics, impl self type
    tokens, span of the trait impl | None) of an item that was located by aux_translate"""
    if kind == "trait":
        return translate_trait(world, text, raw, name)
    if kind == "alias":
        return translate_alias(world, text, raw, name)
    src_kind = {"opaque": opts.get("item", "struct"), "derive_default": "struct", "derive_new": "struct", "extern": "fn",
                "abstract": opts.get("item", "struct")}.get(kind, kind)
    assoc_span = None
    if loc is not None:
        a, b, igs, sty_toks, assoc_span = loc
    else:
        a, b, igs, sty_toks = find_item(text, container, src_kind, name)
        if kind == "fn" and container and container.startswith("impl") and " for " in container:
            assoc_span = find_container(text, container)[:2]
    attrs = []
    if kind in ("derive_default", "derive_new"):
        a0, attrs = attributes_before(text, a)
        sha = hashlib.sha256(raw[a0:b].encode()).hexdigest()[:16]
    else:
        sha = hashlib.sha256(raw[a:b].encode()).hexdigest()[:16]
    line = raw.count("\n", 0, a) + 1
    toks = tokenize(text[a:b])
    p = Parser(toks)
    self_ty, cname = None, None
    if container:
        if sty_toks is None:
            cname = container.split()[1]
        else:
            try:
                self_ty = TypeResolver(world, None, igs).resolve(sty_toks)
            except Reject as ex:
                raise Reject(f"`{container}`: {ex}")
            if self_ty[0] not in ("struct", "enum"):
                raise Reject(f"`{container}`: impl of {ty_rust(self_ty)}")
            cname = self_ty[1]
    if kind == "abstract":
        if name in world.lean_names or name in world.abstract:
            raise Reject(f"name clash: `{name}` is declared twice")
        world.abstract.add(name)
        return (f"-- abstract: NOT translated; `{name}` (its type arguments ignored) is a type PARAMETER `{{{name} : Type}}` of every "
                "definition below that mentions it: its values are only stored and moved", sha, line)
    if kind == "extern":
        n, gs, mode, params, ret_toks, _ = p.fn(sig_only=True)
        if gs or mode != "none" or container:
            raise Reject("extern function with generics / a receiver / inside a container")
        if n in world.externs or (None, n) in world.fns:
            raise Reject(f"name clash: `{n}` is declared twice")
        tr = TypeResolver(world, None, ())
        ptys = [tr.resolve(tt) for _, _, tt in params]
        ret = tr.resolve(ret_toks) if ret_toks else UNIT
        if not ptys:
            raise Reject("extern function without parameters")
        lty = " → ".join([ty_atom(t) for t in ptys] + [ty_lean(ret)])
        world.externs[n] = (ptys, ret, lty)
        return (f"-- extern: NOT translated (only its signature `{n} : {lty}` is read); the definitions below that call it take it "
                f"as an explicit parameter `({lean_id(n)} : {lty})`", sha, line)
    if kind in ("derive_default", "derive_new"):
        want = "Default" if kind == "derive_default" else "Constructor"
        derived = []
        for at in attrs:
            m = re.fullmatch(r"#\[\s*derive\s*\((.*)\)\s*\]", at, re.S)
            if m:
                derived += [x.strip().split("::")[-1].strip() for x in m.group(1).split(",") if x.strip()]
        if want not in derived:
            raise Reject(f"struct `{name}` has no `#[derive(.. {want} ..)]` attribute")
        st = world.structs.get(name)
        if st is None:
            raise Reject(f"struct `{name}` is not translated (list it before its derive item)")
        if st.dropped:
            raise Reject(f"`{want}` of `{name}`, whose fields are only partly translated")
        sty = ("struct", name, tuple(("tvar", g) for g in st.generics))
        fname = "default" if kind == "derive_default" else "new"
        lname = f"{name}.{lean_id(fname)}"
        if (name, fname) in world.fns or lname in world.lean_names:
            raise Reject(f"name clash: `{lname}` is generated twice")
        tsig = "".join(f"{{{g} : Type}} [DecidableEq {g}] " for g in st.generics)
        if kind == "derive_default":
            if st.generics:
                raise Reject(f"derived `Default` of the generic struct `{name}`")
            vals = [f"{lean_id(f)} := {default_of(world, t)}" for f, t in st.fields]
            body = "{ " + ", ".join(vals) + " }" if vals else f"{name}.mk"
            out = with_attr(world, f"def {lname} : {ty_lean(sty)} :=\n  {body}")
            world.fns[(name, fname)] = Fn(lname, "none", sty, [], sty)
        else:
            for f, _ in st.fields:
                if f in LEAN_CLASH or f in world.externs:
                    raise Reject(f"constructor parameter named `{f}`")
            ps = " ".join(f"({lean_id(f)} : {ty_lean(t)})" for f, t in st.fields)
            body = "{ " + ", ".join(f"{lean_id(f)} := {lean_id(f)}" for f, _ in st.fields) + " }" if st.fields else f"{name}.mk"
            out = with_attr(world, f"def {lname} {tsig}{ps} : {ty_lean(sty)} :=\n  {body}")
            world.fns[(name, fname)] = Fn(lname, "none", sty, list(st.fields), sty, st.generics)
        world.lean_names.add(lname)
        return out, sha, line
    if kind == "opaque":
        if name in world.lean_names:
            raise Reject(f"name clash: `{name}` is generated twice")
        world.lean_names.add(name)
        world.opaque.add(name)
        if opts.get("generic"):
            world.opaque_generic.add(name)
        return (f"-- an identifier type: its values are only stored, cloned and compared; any injective coding would do"
                + (" (its type arguments are ignored)" if opts.get("generic") else "") + f"\nabbrev {name} := Nat", sha, line)
    if kind == "struct":
        n, gs, tup, raw_fields = p.struct()
        if p.kind() != "eof":
            raise Reject(f"`{p.peek()}` after the struct")
        tr = TypeResolver(world, None, gs)
        fields, dropped = [], {}
        only = opts.get("fields_of_type")
        keep, drop = opts.get("keep"), opts.get("drop")
        for f in (keep or []) + (drop or []):
            if f not in [x for x, _ in raw_fields]:
                raise Reject(f"struct `{n}` has no field `{f}`")
        for f, tt in raw_fields:
            t = tr.try_resolve(tt)
            if only:
                if "".join(tt) == only:
                    fields.append((f, t))
                else:
                    dropped[f] = " ".join(tt)
            elif (keep is not None and f not in keep) or (drop is not None and f in drop):
                dropped[f] = " ".join(tt)
            else:
                if t is None:
                    tr.resolve(tt)    # raises with the reason
                fields.append((f, t))
        if not fields and raw_fields:
            raise Reject(f"struct `{n}` has no translated field")
        if opts.get("as"):
            if world.ctx is None or world.ctx.groups[0] not in GROUPS4:
                raise Reject("item option `as` outside the fourth file")
            world.renames[n] = opts["as"]
            world.item_file[opts["as"]] = world.ctx.rel
            n = opts["as"]
        if n in world.lean_names:
            raise Reject(f"name clash: `{n}` is generated twice")
        world.lean_names.add(n)
        world.structs[n] = Struct(n, gs, tup, fields, dropped)
        world.structs[n].defaults = dict(p.generic_defaults)
        world.structs[n].derives = []
        for at in attributes_before(text, a)[1]:
            m = re.fullmatch(r"#\[\s*derive\s*\((.*)\)\s*\]", at, re.S)
            if m:
                world.structs[n].derives += [x.strip().split("::")[-1].strip() for x in m.group(1).split(",") if x.strip()]
        out = f"structure {n}" + "".join(f" ({g} : Type)" for g in gs) + " where\n" \
            + "".join(f"  {lean_id(f)} : {ty_lean(t)}\n" for f, t in fields) + "  deriving DecidableEq, Repr"
        if not fields:
            out = f"inductive {n} where\n  | mk\n  deriving DecidableEq, Repr"
        if dropped:
            out = ("-- restricted to " + (f"the fields of type `{only}`" if only else "the fields " + ", ".join(f for f, _ in fields))
                   + "; not translated (no translated function may read them" + ("" if only else "; translated code cannot construct the struct") + "): "
                   + ", ".join(f"{f} : {t}" for f, t in dropped.items()) + "\n") + out
        return out, sha, line
    if kind == "enum":
        n, raw_variants = p.enum()
        egs = p.enum_generics
        if p.kind() != "eof":
            raise Reject(f"`{p.peek()}` after the enum")
        tr = TypeResolver(world, None, egs)
        keep = opts.get("variants")
        variants, dropped = [], []
        if keep:
            missing = [v for v in keep if v not in [x[0] for x in raw_variants]]
            if missing:
                raise Reject(f"enum `{n}` has no variant `{missing[0]}`")
        for v, shape, fs in raw_variants:
            if keep and v not in keep:
                dropped.append(v)
                continue
            variants.append((v, shape, [(f, tr.resolve(tt)) for f, tt in fs]))
        if n in world.lean_names:
            raise Reject(f"name clash: `{n}` is generated twice")
        rest = bool(opts.get("rest"))
        if rest:
            if not dropped or any(v == "Other_" for v, _, _ in raw_variants):
                raise Reject(f"enum `{n}`: option `rest` needs dropped variants and no variant named `Other_`")
            variants.append(("Other_", "unit", []))
        world.lean_names.add(n)
        world.enums[n] = Enum(n, variants, dropped, rest, egs)
        world.enums[n].defaults = dict(p.enum_defaults)
        derived = []
        for at in attributes_before(text, a)[1]:
            m = re.fullmatch(r"#\[\s*derive\s*\((.*)\)\s*\]", at, re.S)
            if m:
                derived += [x.strip().split("::")[-1].strip() for x in m.group(1).split(",") if x.strip()]
        world.enums[n].from_variants = {v for v, shape, fs in variants if shape == "tuple" and len(fs) == 1
                                        and (v in p.enum_from or "From" in derived)}
        if world.ctx is not None and world.ctx.groups[0] in GROUPS34:       # (the first two files keep their committed form)
            VARIANT_NAMES.update(v for v, _, _ in variants)
        out = f"inductive {n}" + "".join(f" ({g} : Type)" for g in egs) + " where\n" + "".join(
            f"  | {v}" + "".join(f" ({lean_id(f)} : {ty_lean(t)})" for f, t in fs) + "\n" for v, _, fs in variants) + "  deriving DecidableEq, Repr"
        if dropped and rest:
            out = (f"-- restricted to the variant(s) {', '.join(keep)}; the other variants ({', '.join(dropped)}) are represented, without their "
                   f"payload, by the single constructor `Other_` (naming them in the source is rejected; only a `_` arm can reach them)\n") + out
        elif dropped:
            out = (f"-- restricted to the variant(s) {', '.join(keep)}; not translated (constructing or matching them is rejected): "
                   + ", ".join(dropped) + "\n") + out
        return out, sha, line
    parsed = p.fn()
    if world.ctx is not None and world.ctx.groups[0] in GROUPS4 and (container or loc is not None):
        # the `where` clause of the enclosing `impl`: bounds of the impl's type parameters count like the fn's own
        for m in re.finditer(r"\bimpl\b([^{;]*)\{", text):
            if depth_at(text, 0, m.start()) == 0 and m.end() <= a < match_brace(text, m.end() - 1):
                hdr = m.group(1)
                k = re.search(r"\bwhere\b", hdr)
                if k:
                    hp = Parser(tokenize("fn h() " + hdr[k.start():] + " {"))
                    try:
                        hp.fn(sig_only=True)
                    except Reject:
                        break
                    for g, bs in hp.where_bounds.items():
                        for bt in bs:
                            if bt not in p.where_bounds.get(g, []):
                                p.where_bounds.setdefault(g, []).append(bt)
                    for g, srcs in hp.where_from.items():
                        p.where_from.setdefault(g, [])
                        p.where_from[g] += [x for x in srcs if x not in p.where_from[g]]
                    for g, wt in hp.where_into.items():
                        p.where_into.setdefault(g, wt)
                    p.where_type_from += [x for x in hp.where_type_from if x not in p.where_type_from]
                break
    n, gs = parsed[0], parsed[1]
    shadow = [g for g in gs if g in world.structs or g in world.enums or g in world.opaque or g in world.abstract]
    if shadow and world.ctx is not None and world.ctx.groups[0] in GROUPS4:
        # a type parameter of the fn that is named like a translated type (`fn process_with_audit<Event, Engine>`): inside
        # the item EVERY occurrence of that name is the parameter, so it is renamed `<name>T` throughout the item
        if any((k, v + "T") in toks or v + "T" in world.structs for k, v in toks if k == "id" and v in shadow):
            raise Reject(f"type parameter `{shadow[0]}` shadows a translated type and `{shadow[0]}T` is in use as well")
        toks = [(k, v + "T" if k == "id" and v in shadow else v) for k, v in toks]
        p = Parser(toks)
        parsed = p.fn()
        n, gs = parsed[0], parsed[1]
    assoc = {}
    if assoc_span is not None:
        clo, chi = assoc_span
        for m in re.finditer(r"\btype\s+(\w+)\s*=\s*([^;{}]+);", text[clo:chi]):
            if depth_at(text, clo, clo + m.start()) == 0:
                assoc[m.group(1)] = [v for _, v in tokenize(m.group(2))][:-1]
    lname = (cname + "." if cname else "") + lean_id(n)
    if cname in world.structs and any(f == n for f, _ in world.structs[cname].fields):
        lname += "_fn"            # a method named like a field of its struct: Lean has the projection under that name
    key = (cname, n)
    if loc is None and lname in world.aux_names and (key in world.fns or key in world.generic_fns):
        # a table item that an earlier table item calls: it was already generated by lookup
        world.aux_names.discard(lname)
        new = [g for g in world.ctx.groups if g not in world.attr_groups.get(lname, set())]
        if new and key in world.fns:
            world.pending.append("attribute [" + ", ".join("gen_" + g for g in new) + f"] {lname}")
            world.attr_groups[lname].update(new)
        return (f"-- already generated above as `{lname}` (a translated caller listed earlier uses it)", sha, line)
    if key in world.fns or key in world.generic_fns or lname in world.lean_names:
        raise Reject(f"name clash: `{lname}` is generated twice")
    world.lean_names.add(lname)
    world.aux_key = key
    if loc is not None:
        world.aux_names.add(lname)
    clash = [g for g in gs if g in igs or g in world.structs or g in world.enums or g in world.opaque]
    if gs and parsed[2] != "none":
        # type parameters of a METHOD stay parameters (like those of its impl); bounds in `where` only name operators
        if clash:
            raise Reject(f"type parameter `{clash[0]}` of the method shadows another type")
        out, fn = compile_fn(world, parsed, toks, cname, self_ty, lname, None, list(igs) + list(gs), assoc, None, p)
        world.fns[key] = fn
        return with_attr(world, out), sha, line
    if gs:
        # a generic fn without receiver.  First reading: its type parameters stay parameters (they are only stored /
        # copied / compared for equality: e.g. an instrument key).  If the body needs more of `T` (arithmetic), the
        # second reading applies: one type parameter, instantiated at the type of each call's arguments.
        abstract = None
        if not clash:
            try:
                abstract = compile_fn(world, parsed, toks, cname, self_ty, lname, None, list(igs) + list(gs), assoc, p.where_into, p)
            except Reject:
                abstract = None
                if world.ctx is not None and world.ctx.groups[0] in GROUPS4 and (len(gs) != 1 or parsed[3] and parsed[3][0][2][:2] == ["&", "mut"]):
                    raise            # (no second reading for such a fn: report why the first failed)
        if abstract is not None:
            out, fn = abstract
            world.fns[key] = fn
            return with_attr(world, out), sha, line
        suffix = {DEC: "Decimal", INT: "i64", NAT: "u64"}

        def compile_instance(t, parsed=parsed, toks=toks, lname=lname):
            iname = f"{lname}_{suffix[t]}"
            out, fn = compile_fn(world, parsed, toks, cname, self_ty, iname, {gs[0]: t}, igs)
            world.aux_names.add(iname)
            world.pending.append(f"/-- instance of the generic `{lname}` at `{ty_rust(t)}` -/\n{with_attr(world, out)}")
            return fn
        # the body is checked once at Decimal so that a rejected construct is reported here, not at a call site
        compile_fn(world, parsed, toks, cname, self_ty, lname + "_check", {gs[0]: DEC}, igs)
        world.generic_fns[key] = (parsed, lname, compile_instance)
        return (f"-- generic over `{gs[0]}`: instantiated below at the types it is called with", sha, line)
    out, fn = compile_fn(world, parsed, toks, cname, self_ty, lname, None, igs, assoc, None, p)
    world.fns[key] = fn
    return with_attr(world, out), sha, line


def main():
    argv = sys.argv[1:]
    all_groups = GROUPS + GROUPS2 + GROUPS3 + GROUPS4
    required = set(all_groups)
    to_stdout = False
    while argv:
        a = argv.pop(0)
        if a == "--require":
            required = set(argv.pop(0).split(","))
            if not required <= set(all_groups):
                sys.exit(f"rust2lean_sm: unknown group in --require (groups: {', '.join(all_groups)})")
        elif a == "--stdout":
            to_stdout = True
        elif a == "--list":
            for g, f, c, k, n, o in MACHINES:
                print(g, f, (c + " :: " if c else "") + k + " " + n + ("  " + repr(o) if o else ""))
            return 0
        else:
            sys.exit(__doc__)
    world = World()
    # one (sections, header) pair per generated file; an item goes to the file of its FIRST group
    sections, header = {1: [], 2: [], 3: [], 4: []}, {1: [], 2: [], 3: [], 4: []}
    errors, failed_groups = [], set()
    cur = None
    for group, rel, container, kind, name, opts in MACHINES:
        groups = group.split("+")
        fno = 1 if groups[0] in GROUPS else 2 if groups[0] in GROUPS2 else 3 if groups[0] in GROUPS3 else 4
        shown = f"{rel} :: " + (f"{container} :: " if container else "") + f"{kind} {name}"
        world.pending, world.aux_header = [], []
        world.ctx = Ctx(groups, rel, container)
        if kind in ("struct", "enum", "opaque"):
            world.item_file.setdefault(name, rel)
        try:
            raw, text = world.source(rel)
            out, sha, line = translate(world, text, raw, container, kind, name, opts)
        except Reject as e:
            if kind == "fn" and container:
                base = re.sub(r"<.*", "", container.split(" for ")[-1].split()[-1])
                world.failed.add((world.rn(base), name))
            if kind in ("derive_default", "derive_new"):
                world.failed.add((name, "default" if kind == "derive_default" else "new"))
            for g in groups:
                errors.append((g, f"rust2lean_sm: REJECTED {shown}: {e}"))
                failed_groups.add(g)
            header[fno].append(f"  {shown}: NOT TRANSLATED ({e})")
            header[fno] += world.aux_header
            if (groups[0], rel) != cur:
                sections[fno].append(f"\n/-! ## {rel} -/")
                cur = (groups[0], rel)
            for inst in world.pending:       # auxiliary items / instances translated before the rejection stay defined
                sections[fno].append("\n" + inst)
            sections[fno].append(f"\n-- NOT TRANSLATED: {kind} {name}: {e}")
            continue
        if (groups[0], rel) != cur:
            sections[fno].append(f"\n/-! ## {rel} -/")
            cur = (groups[0], rel)
        header[fno].append(f"  {shown}  (line {line})  sha256[:16]={sha}")
        header[fno] += world.aux_header
        where = (container + " :: " if container else "") + f"{kind} {name}"
        for inst in world.pending:
            sections[fno].append("\n" + inst)
        if out.startswith("-- generic") or out.startswith("-- extern") or out.startswith("-- already") or out.startswith("-- alias") \
                or out.startswith("-- abstract"):
            sections[fno].append(f"\n-- `{where}` ({rel}:{line}) {out[3:]}")
        else:
            lead = ""
            while out.startswith("-- "):
                c, out = out.split("\n", 1)
                lead += c + "\n"
            sections[fno].append(f"\n{lead}/-- generated from `{where}` ({rel}:{line}) -/\n{out}")
    text1 = ("/-\nGENERATED FILE -- DO NOT EDIT.  Written by tools/rust2lean_sm.py from the Rust source on every run of\n"
             "`./check` for the properties whose props/Cxx.py names it in PREBUILD; the committed copy is the output for\n"
             "the pinned tree.  State machines: a `&mut self` method is a pure function returning the new state and the\n"
             "result; the meaning of the scalar vocabulary is fixed in the prelude below.  The agreement with the\n"
             "hand-written models is proved in Lemmas/KernelsAgree/{Sequencer,Drawdown,PositionSM,Connectivity}.lean.\n"
             "Every definition carries the simp attribute `gen_<group>` of the group(s) it was generated for (registered in\n"
             "Generated/Attr.lean), auxiliary items found by lookup included, so that `simp only [gen_<group>]` unfolds\n"
             "everything generated for a group whatever the helper functions of the source are called.\n\n"
             "Source items (file :: item, line, hash of the item's source text):\n"
             + "\n".join(header[1]) + "\n-/\nimport BarterModel.Generated.Attr\n"
             "set_option linter.unusedVariables false   -- e.g. the `Ok(x)` binder of a `?` whose value is discarded\n"
             "namespace BarterModel.Generated.Machines\n\n" + PRELUDE + "\n".join(sections[1])
             + "\n\nend BarterModel.Generated.Machines\n")
    text2 = ("import BarterModel.Generated.Machines\n"
             "/-\nGENERATED FILE -- DO NOT EDIT.  Second output file of tools/rust2lean_sm.py (same namespace as, and importing,\n"
             "Generated/Machines.lean, whose prelude and items it uses), rewritten from the Rust source on every run of\n"
             "`./check` for the properties whose props/Cxx.py names a group of this file in PREBUILD; the committed copy is\n"
             "the output for the pinned tree.  The agreement with the hand-written models is proved in\n"
             "Lemmas/KernelsAgree/{" + ",".join(AGREE2) + "}.lean.\n\n"
             "Source items (file :: item, line, hash of the item's source text):\n"
             + "\n".join(header[2]) + "\n-/\nset_option linter.unusedVariables false   -- e.g. `&self` of a method of a unit struct\n"
             "namespace BarterModel.Generated.Machines\n\n" + PRELUDE2 + "\n".join(sections[2])
             + "\n\nend BarterModel.Generated.Machines\n")
    text3 = ("import BarterModel.Generated.Machines2\n"
             "/-\nGENERATED FILE -- DO NOT EDIT.  Third output file of tools/rust2lean_sm.py (same namespace as, and importing,\n"
             "Generated/Machines2.lean): state machines that keep their state in MAP containers (`HashMap` / `FnvHashMap` /\n"
             "`IndexMap`), read through the explicit map vocabulary of the prelude below.  Rewritten from the Rust source on\n"
             "every run of `./check` for the properties whose props/Cxx.py names a group of this file in PREBUILD; the\n"
             "committed copy is the output for the pinned tree.  The agreement with the hand-written models is proved in\n"
             "Lemmas/KernelsAgree/{" + ",".join(AGREE3) + "}.lean.\n\n"
             "Source items (file :: item, line, hash of the item's source text):\n"
             + "\n".join(header[3]) + "\n-/\nset_option linter.unusedVariables false   -- e.g. a binder that only a log macro reads\n"
             "namespace BarterModel.Generated.Machines\n\n" + PRELUDE3 + "\n".join(sections[3])
             + "\n\nend BarterModel.Generated.Machines\n")
    text4 = ("import BarterModel.Generated.Machines3\n"
             "/-\nGENERATED FILE -- DO NOT EDIT.  Fourth output file of tools/rust2lean_sm.py (same namespace as, and importing,\n"
             "Generated/Machines3.lean): code that walks `Vec` / slice / `IndexMap` contents with ITERATOR chains, read through the\n"
             "explicit iterator vocabulary of the prelude below (an iterator is the LIST of the items it will yield).  Rewritten\n"
             "from the Rust source on every run of `./check` for the properties whose props/Cxx.py names a group of this file in\n"
             "PREBUILD; the committed copy is the output for the pinned tree.  The agreement with the hand-written models is\n"
             "proved in Lemmas/KernelsAgree/{" + ",".join(AGREE4) + "}.lean (vocabulary lemmas: IterVocab.lean).\n\n"
             "Source items (file :: item, line, hash of the item's source text):\n"
             + "\n".join(header[4]) + "\n-/\nset_option linter.unusedVariables false   -- e.g. a binder that only a log macro reads\n"
             "namespace BarterModel.Generated.Machines\n\n" + PRELUDE4 + "\n".join(sections[4])
             + "\n\nend BarterModel.Generated.Machines\n")
    if to_stdout:
        sys.stdout.write(text1)
        sys.stdout.write(text2)
        sys.stdout.write(text3)
        sys.stdout.write(text4)
    else:
        for path, text in ((OUT, text1), (OUT2, text2), (OUT3, text3), (OUT4, text4)):
            os.makedirs(os.path.dirname(path), exist_ok=True)
            old = open(path, encoding="utf-8").read() if os.path.exists(path) else None
            if old != text:
                tmp = path + ".tmp%d" % os.getpid()
                with open(tmp, "w", encoding="utf-8") as f:
                    f.write(text)
                os.replace(tmp, path)
    seen = set()
    for g, msg in errors:
        line = msg + ("" if g in required else "   [group not required by this run: definition left out]")
        if (msg, g in required) not in seen:
            print(line, file=sys.stderr)
        seen.add((msg, g in required))
    bad = failed_groups & required
    n_bad = len({m for _, m in errors})
    print(f"rust2lean_sm: {len(MACHINES) - n_bad}/{len(MACHINES)} items translated from {REPO} -> {os.path.relpath(OUT, VERIF)}, "
          f"{os.path.relpath(OUT2, VERIF)}, {os.path.relpath(OUT3, VERIF)}, {os.path.relpath(OUT4, VERIF)}" + (f"; FAILED in required group(s): {', '.join(sorted(bad))}" if bad else ""))
    return 1 if bad else 0


if __name__ == "__main__":
    sys.exit(main())
