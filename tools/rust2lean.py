#!/usr/bin/env python3
"""tools/rust2lean.py -- regenerate Lean definitions of the pure `Decimal` kernels from the CURRENT Rust source.

    python3 tools/rust2lean.py [--require GROUP[,GROUP...]] [--stdout] [--list]

Reads the functions listed in KERNELS *by name* from the files under $VERIF_REPO (default /repo) and
writes  <verif>/lean/BarterModel/Generated/Kernels.lean  (namespace BarterModel.Generated, core Lean
only, `Decimal` |-> `Rat`).  The agreement theorems of lean/BarterModel/Lemmas/KernelsAgree/*.lean state
that these generated definitions equal the hand-written model definitions the property theorems are
about; a change of a kernel in the Rust source therefore breaks a proof obligation directly.

Deliberately small.  The accepted Rust subset is exactly:
  items   `struct S { pub f: Decimal, .. }`, `enum E { A, B, .. }` (unit variants), `fn`
  fn      `pub? fn name<T..>(mut? x: Ty, ..) -> Ty where .. { body }`,  Ty in Decimal | generic T (|-> Rat) |
          a translated struct/enum | Option<Self> / Option<Ty> / Self (inside `impl S`)
  body    `let mut? x (: Ty)? = e;` (also a hoisted test `let b = <bool expr>;`)   `x += e;` (also -= *= /=; only on a `mut` variable, only at the top
          level of the fn body)   `if c { return e; }` (early return, no else)   `return e;`   tail expression
  expr    + - * / unary -, == != < <= > >=, && || !, parentheses, blocks `{ let..; e }`,
          `if c {..} else if .. else {..}`, `match <bool> { true => .., false => .. }`,
          `match x { E::A => .., E::B => .. }` (all variants, no wildcard), `x.field`,
          `.abs()` `.is_zero()` `.checked_div(e)`, postfix `?` (in an Option-valued fn), `None` `Some(e)`,
          `Self { f }` / `Self { f: e }`, `Decimal::ZERO|ONE|TWO|TEN|MAX|MIN`, calls of other translated fns
A call of a function that is NOT in KERNELS is looked up in the source -- the caller's `mod` / `impl`, then the top
level of the caller's file -- and translated on demand, transitively, as an AUXILIARY item of the caller's group (file,
line and source hash in the header; definition emitted before its caller); it is rejected only if it cannot be found
or is outside the subset.  Every generated definition carries the simp attribute `gen_<group>` of its group
(lean/BarterModel/Generated/Attr.lean), so that the agreement proofs unfold "everything generated for this group"
without naming auxiliary definitions.
Everything else is REJECTED: exit status 1 and a message naming the function and the construct.  It never
guesses.  A function of a group that is not `--require`d is then left out of the generated file (its
agreement theorem stops building) and the exit status stays 0; without `--require` every group is required.

Trusted meaning of the `Decimal` vocabulary = the fixed PRELUDE below (rust_decimal rounding / overflow is
not modelled, DESIGN section 3): abs, is_zero, checked_div (None exactly on a zero divisor), MAX = 2^96-1.
"""
import hashlib
import os
import re
import sys

VERIF = os.path.dirname(os.path.dirname(os.path.abspath(__file__)))
REPO = os.environ.get("VERIF_REPO", "/repo")
OUT = os.path.join(VERIF, "lean", "BarterModel", "Generated", "Kernels.lean")

# (group, file, container, kind, name)     container: None = file top level, "mod x" or "impl X"
KERNELS = [
    ("welford", "barter/src/statistic/algorithm.rs", "mod welford_online", "fn", "calculate_mean"),
    ("welford", "barter/src/statistic/algorithm.rs", "mod welford_online", "fn", "calculate_recurrence_relation_m"),
    ("welford", "barter/src/statistic/algorithm.rs", "mod welford_online", "fn", "calculate_sample_variance"),
    ("welford", "barter/src/statistic/algorithm.rs", "mod welford_online", "fn", "calculate_population_variance"),
    ("position", "barter-instrument/src/lib.rs", None, "enum", "Side"),
    ("position", "barter/src/engine/state/position.rs", None, "fn", "calculate_price_entry_average"),
    ("position", "barter/src/engine/state/position.rs", None, "fn", "approximate_remaining_exit_fees"),
    ("position", "barter/src/engine/state/position.rs", None, "fn", "calculate_pnl_unrealised"),
    ("position", "barter/src/engine/state/position.rs", None, "fn", "calculate_pnl_realised"),
    ("book", "barter-data/src/books/mod.rs", None, "struct", "Level"),
    ("book", "barter-data/src/books/mod.rs", None, "fn", "mid_price"),
    ("book", "barter-data/src/books/mod.rs", None, "fn", "volume_weighted_mid_price"),
    ("metric", "barter/src/engine/state/position.rs", None, "fn", "calculate_pnl_return"),
    ("metric", "barter/src/statistic/metric/win_rate.rs", None, "struct", "WinRate"),
    ("metric", "barter/src/statistic/metric/win_rate.rs", "impl WinRate", "fn", "calculate"),
    ("metric", "barter/src/statistic/metric/profit_factor.rs", None, "struct", "ProfitFactor"),
    ("metric", "barter/src/statistic/metric/profit_factor.rs", "impl ProfitFactor", "fn", "calculate"),
]
GROUPS = ["welford", "position", "book", "metric"]

PRELUDE = """\
/-! ## Fixed prelude: the meaning given to the `rust_decimal::Decimal` vocabulary (exact rationals) -/

/-- `Decimal::abs`. -/
def Decimal.abs (x : Rat) : Rat := if x < 0 then -x else x

/-- `Decimal::checked_div`: `None` exactly on a zero divisor (overflow is not modelled). -/
def Decimal.checked_div (x y : Rat) : Option Rat := if y = 0 then none else some (x / y)

/-- `Decimal::MAX` = 2^96 - 1. -/
def Decimal.MAX : Rat := 79228162514264337593543950335

/-- `Decimal::MIN` = -(2^96 - 1). -/
def Decimal.MIN : Rat := -79228162514264337593543950335
"""

DEC_CONSTS = {"ZERO": "0", "ONE": "1", "TWO": "2", "TEN": "10", "MAX": "Decimal.MAX", "MIN": "Decimal.MIN"}

LEAN_RESERVED = set("""at from end fun open in do then else if match with let have show by def theorem example
namespace section structure inductive class instance where deriving import variable universe mutual
abbrev axiom opaque macro syntax notation infix infixl infixr prefix postfix set_option private protected
noncomputable partial unsafe return for unless try catch finally mut calc using export local scoped
attribute Type Sort Prop fun nomatch nofun obtain suffices this""".split())


class Reject(Exception):
    """construct outside the accepted subset"""


# ------------------------------------------------------------------------------------------ source access

def blank_comments(src):
    """replace comments and string/char literals by spaces (offsets and newlines preserved)"""
    out = []
    i, n = 0, len(src)
    while i < n:
        c = src[i]
        if src.startswith("//", i):
            j = src.find("\n", i)
            j = n if j < 0 else j
            out.append(" " * (j - i))
            i = j
        elif src.startswith("/*", i):
            depth, j = 1, i + 2
            while j < n and depth:
                if src.startswith("/*", j):
                    depth += 1
                    j += 2
                elif src.startswith("*/", j):
                    depth -= 1
                    j += 2
                else:
                    j += 1
            out.append("".join(ch if ch == "\n" else " " for ch in src[i:j]))
            i = j
        elif c == '"':
            j = i + 1
            while j < n and src[j] != '"':
                j += 2 if src[j] == "\\" else 1
            j = min(j + 1, n)
            out.append('"' + "".join(ch if ch == "\n" else " " for ch in src[i + 1:j - 1]) + '"')
            i = j
        elif c == "'" and re.match(r"'(\\.[^']*|[^'\\])'", src[i:]):
            m = re.match(r"'(\\.[^']*|[^'\\])'", src[i:])
            out.append("'" + " " * (len(m.group(0)) - 2) + "'")
            i += len(m.group(0))
        else:
            out.append(c)
            i += 1
    return "".join(out)


def match_brace(text, i):
    """text[i] == '{' -> index of the matching '}'"""
    depth = 0
    for j in range(i, len(text)):
        if text[j] == "{":
            depth += 1
        elif text[j] == "}":
            depth -= 1
            if depth == 0:
                return j
    raise Reject("unbalanced braces")


def depth_at(text, lo, pos):
    d = 0
    for ch in text[lo:pos]:
        if ch == "{":
            d += 1
        elif ch == "}":
            d -= 1
    return d


def find_item(text, container, kind, name):
    """returns (start, end) offsets of the item's text: exactly one item `kind name` directly inside the
    container (or at the file's top level)"""
    lo, hi = 0, len(text)
    if container:
        ck, cn = container.split()
        hits = [m for m in re.finditer(r"\b%s\s+%s\s*\{" % (ck, re.escape(cn)), text) if depth_at(text, 0, m.start()) == 0]
        if len(hits) != 1:
            raise Reject(f"expected exactly one top-level `{container} {{`, found {len(hits)}")
        lo = hits[0].end()
        hi = match_brace(text, hits[0].end() - 1)
    hits = [m for m in re.finditer(r"\b%s\s+%s\b" % (kind, re.escape(name)), text[lo:hi]) if depth_at(text, lo, lo + m.start()) == 0]
    if len(hits) != 1:
        where = container or "top level"
        raise Reject(f"expected exactly one `{kind} {name}` at {where}, found {len(hits)}")
    start = lo + hits[0].start()
    j = start
    while j < hi and text[j] not in "{;":
        j += 1
    if j >= hi or text[j] != "{":
        raise Reject(f"`{kind} {name}` has no body")
    return start, match_brace(text, j) + 1


# ------------------------------------------------------------------------------------------ tokens

TOKEN = re.compile(r"""
    (?P<ws>\s+)
  | (?P<num>\d[\d_]*(\.\d+)?)
  | (?P<id>[A-Za-z_][A-Za-z0-9_]*)
  | (?P<op>::|->|=>|==|!=|<=|>=|&&|\|\||\+=|-=|\*=|/=|[-+*/<>=!?.,;:(){}\[\]&|#'"%^@~$])
""", re.X)


def tokenize(s):
    toks, i = [], 0
    while i < len(s):
        m = TOKEN.match(s, i)
        if not m:
            raise Reject(f"character {s[i]!r}")
        if m.lastgroup != "ws":
            toks.append((m.lastgroup, m.group(0)))
        i = m.end()
    toks.append(("eof", "<end>"))
    return toks


# ------------------------------------------------------------------------------------------ types / env

DEC, BOOL = ("dec",), ("bool",)


def ty_str(t):
    return {"dec": "Rat", "bool": "Bool"}.get(t[0]) or (t[1] if t[0] in ("struct", "enum") else f"Option {ty_str_atom(t[1])}")


def ty_str_atom(t):
    s = ty_str(t)
    return f"({s})" if " " in s else s


def lean_id(x):
    return f"«{x}»" if x in LEAN_RESERVED else x


class World:
    def __init__(self):
        self.structs = {}   # name -> [(field, ty)]
        self.enums = {}     # name -> [variant]
        self.fns = {}       # (container_type_or_None, name) -> (lean_name, [param ty], ret ty)
        self.ctx = None     # (group, rel, container, raw, text) of the table item being translated
        self.pending = []   # Lean text of the auxiliary items translated while compiling the current table item
        self.aux_header = []
        self.aux_busy = set()
        self.aux_names = {}  # lean name of an auxiliary item -> set of groups whose simp set it is in


def aux_translate(world, key, shown):
    """LOOKUP of a called function that is not in the item table (typically a private helper extracted by a
    refactoring): searched in the caller's container (`mod x` / `impl X`), then at the top level of the caller's file,
    and translated on demand as an auxiliary item of the caller's group (hash in the header, definition in the
    group's simp set).  True if it was found and translated; False if there is no such function; Reject if it exists
    but is outside the accepted subset."""
    if world.ctx is None:
        return False
    group, rel, container, raw, text = world.ctx
    cname, name = key
    places = []
    if cname is None:
        places = ([container] if container and container.startswith("mod ") else []) + [None]
    elif container and container.startswith("impl ") and container.split()[1] == cname:
        places = [container]
    elif cname in world.structs:
        places = ["impl " + cname]
    for place in places:
        try:
            find_item(text, place, "fn", name)
        except Reject:
            continue
        if (place, name) in world.aux_busy:
            raise Reject(f"recursive call of `{shown}`")
        world.aux_busy.add((place, name))
        try:
            out, sha, line, _ = translate(world, text, raw, place, "fn", name, aux=True)
        except Reject as ex:
            raise Reject(f"call of `{shown}`, which is not in the item table; looked up as {rel} :: "
                         + (place + " :: " if place else "") + f"fn {name}: {ex}")
        finally:
            world.aux_busy.discard((place, name))
        where = (place + " :: " if place else "") + f"fn {name}"
        world.pending.append(f"\n/-- AUXILIARY item (not in the item table: found by lookup from a translated caller), generated from "
                             f"`{where}` ({rel}:{line}) -/\n{out}")
        world.aux_header.append(f"    + auxiliary (by lookup): {rel} :: {where}  (line {line})  sha256[:16]={sha}")
        world.aux_names[world.fns[key][0]] = {group}
        return key in world.fns
    return False


# ------------------------------------------------------------------------------------------ parser + emitter

class P:
    def __init__(self, toks, world, self_ty=None):
        self.t, self.i, self.w, self.self_ty = toks, 0, world, self_ty
        self.generics = set()
        self.ret = None

    # -- token helpers
    def peek(self, k=0):
        return self.t[min(self.i + k, len(self.t) - 1)][1]

    def kind(self, k=0):
        return self.t[min(self.i + k, len(self.t) - 1)][0]

    def next(self):
        v = self.t[self.i][1]
        self.i += 1
        return v

    def eat(self, v):
        if self.peek() != v:
            raise Reject(f"expected `{v}` but found `{self.peek()}`")
        self.i += 1

    def ident(self):
        if self.kind() != "id":
            raise Reject(f"expected an identifier but found `{self.peek()}`")
        return self.next()

    def skip_attrs(self):
        while self.peek() == "#":
            self.next()
            self.eat("[")
            d = 1
            while d:
                v = self.next()
                if v == "[":
                    d += 1
                elif v == "]":
                    d -= 1
                elif v == "<end>":
                    raise Reject("unterminated attribute")

    def skip_vis(self):
        if self.peek() == "pub":
            self.next()
            if self.peek() == "(":
                while self.next() != ")":
                    pass

    # -- types
    def ty(self):
        name = self.ident()
        if name == "Decimal" or name in self.generics:
            return DEC
        if name == "bool":
            return BOOL
        if name == "Self":
            if not self.self_ty:
                raise Reject("type `Self` outside an impl")
            return self.self_ty
        if name == "Option":
            self.eat("<")
            inner = self.ty()
            self.eat(">")
            return ("opt", inner)
        if name in self.w.structs:
            return ("struct", name)
        if name in self.w.enums:
            return ("enum", name)
        raise Reject(f"type `{name}`" + ("<..>" if self.peek() == "<" else ""))

    # -- items
    def struct(self):
        self.eat("struct")
        name = self.ident()
        if self.peek() != "{":
            raise Reject(f"struct `{name}`: only `{{ field: Type, .. }}` structs (found `{self.peek()}`)")
        self.eat("{")
        fields = []
        while self.peek() != "}":
            self.skip_attrs()
            self.skip_vis()
            f = self.ident()
            self.eat(":")
            fields.append((f, self.ty()))
            if self.peek() == ",":
                self.next()
            elif self.peek() != "}":
                raise Reject(f"struct `{name}`: `{self.peek()}` after a field")
        self.eat("}")
        for f, t in fields:
            if t != DEC:
                raise Reject(f"struct `{name}`: field `{f}` is not a Decimal")
        return name, fields

    def enum(self):
        self.eat("enum")
        name = self.ident()
        if self.peek() != "{":
            raise Reject(f"enum `{name}`: generics / where clause")
        self.eat("{")
        variants = []
        while self.peek() != "}":
            self.skip_attrs()
            v = self.ident()
            if self.peek() not in (",", "}"):
                raise Reject(f"enum `{name}`: variant `{v}` is not a unit variant (found `{self.peek()}`)")
            variants.append(v)
            if self.peek() == ",":
                self.next()
        self.eat("}")
        if not variants:
            raise Reject(f"enum `{name}` has no variants")
        return name, variants

    def fn(self):
        """returns (name, [(param, ty)], ret ty, lean body text)"""
        self.eat("fn")
        name = self.ident()
        if self.peek() == "<":
            self.next()
            while self.peek() != ">":
                if self.peek() == "'":
                    raise Reject("lifetime parameter")
                g = self.ident()
                if self.peek() == ":":
                    raise Reject(f"inline bound on generic `{g}` (only a `where` clause is accepted)")
                self.generics.add(g)
                if self.peek() == ",":
                    self.next()
            self.eat(">")
        self.eat("(")
        params, env = [], {}
        while self.peek() != ")":
            mut = False
            if self.peek() in ("&", "self"):
                raise Reject("`self` / reference parameter")
            if self.peek() == "mut":
                self.next()
                mut = True
            p = self.ident()
            self.eat(":")
            if self.peek() == "&":
                raise Reject(f"reference parameter `{p}`")
            t = self.ty()
            if t[0] in ("opt", "bool"):
                raise Reject(f"parameter `{p}` of type {ty_str(t)}")
            if p in env:
                raise Reject(f"duplicate parameter `{p}`")
            params.append((p, t))
            env[p] = (t, mut)
            if self.peek() == ",":
                self.next()
            elif self.peek() != ")":
                raise Reject(f"`{self.peek()}` in the parameter list")
        self.eat(")")
        self.eat("->")
        self.ret = self.ty()
        if self.peek() == "where":
            # bounds of the generic parameters: they only say that T has the Decimal operators; skipped
            while self.peek() not in ("{", "<end>"):
                self.next()
        self.eat("{")
        body = self.block_body(env, top=True, want=self.ret, ind=1)
        self.eat("}")
        if self.kind() != "eof":
            raise Reject(f"`{self.peek()}` after the function body")
        return name, params, self.ret, body

    # -- statements.  Every block is emitted as a Lean term:  let x := e ⏎ ... ⏎ tail
    def block_body(self, env, top, want, ind):
        """parses statements up to (not including) the closing `}`; returns the Lean term of the block.
        `want` is the type the block must have.  In an Option-valued context (`want` = Option) the term is
        propagates `none` when a `let x = ..?;` occurs (the bind is written out as a `match`)."""
        env = dict(env)
        pad = "  " * ind
        lines = []
        while True:
            v = self.peek()
            if v == "let":
                self.next()
                mut = False
                if self.peek() == "mut":
                    self.next()
                    mut = True
                x = self.ident()
                if self.peek() not in (":", "="):
                    raise Reject(f"`let` pattern starting `{x} {self.peek()}` (only `let x = ..;`)")
                ann = None
                if self.peek() == ":":
                    self.next()
                    ann = self.ty()
                self.eat("=")
                e, t, m = self.expr_maybe_monadic(env, ind + 1)
                if self.peek() == "else":
                    raise Reject("`let .. else`")
                self.eat(";")
                if ann and ann != t:
                    raise Reject(f"`let {x}: {ty_str(ann)}` bound to a value of type {ty_str(t)}")
                if m:
                    if not (want and want[0] == "opt"):
                        raise Reject("`?` in a function that does not return an Option")
                    # Option bind, written out:  match e with | none => none | some x => rest
                    rest = self.block_body({**env, x: (t, mut)}, top, want, ind + 1)
                    lines.append(f"{pad}match ({e}) with\n{pad}| none => none\n{pad}| some {lean_id(x)} =>\n{rest}")
                    return "\n".join(lines)
                if t == BOOL:
                    # a hoisted test: bool-typed text is a decidable proposition, the local holds its decision
                    if mut:
                        raise Reject(f"`let mut {x}` bound to a bool")
                    lines.append(f"{pad}let {lean_id(x)} : Bool := decide {e}")
                else:
                    lines.append(f"{pad}let {lean_id(x)} : {ty_str(t)} := {e}")
                env[x] = (t, mut)
            elif self.kind() == "id" and self.peek(1) in ("+=", "-=", "*=", "/="):
                x = self.next()
                op = self.next()[0]
                if not top:
                    raise Reject(f"`{x} {op}= ..` inside a nested block (assignment is only accepted at the top level of the fn body)")
                if x not in env:
                    raise Reject(f"assignment to unknown variable `{x}`")
                t, mut = env[x]
                if not mut:
                    raise Reject(f"`{x} {op}= ..` on a variable that is not `mut`")
                e, te = self.expr(env, ind + 1)
                self.eat(";")
                if t != DEC or te != DEC:
                    raise Reject(f"`{x} {op}= ..` on non-Decimal values")
                # straight-line code: the assignment is a re-binding of the same name
                lines.append(f"{pad}let {lean_id(x)} : Rat := ({lean_id(x)} {op} {e})")
            elif self.kind() == "id" and self.peek(1) == "=" and self.peek() in env:
                raise Reject(f"plain assignment `{self.peek()} = ..`")
            elif v == "return":
                self.next()
                e = self.value(env, want, ind + 1)
                self.eat(";")
                if self.peek() != "}":
                    raise Reject("statements after `return`")
                lines.append(f"{pad}{e}")
                return "\n".join(lines)
            elif v == "if" and self.is_early_return():
                self.next()
                c = self.cond(env, ind + 1)
                self.eat("{")
                self.eat("return")
                e = self.value(env, want, ind + 1)
                self.eat(";")
                self.eat("}")
                if self.peek() == "else":
                    raise Reject("`if .. { return ..; } else ..`")
                rest = self.block_body(env, top, want, ind + 1)
                lines.append(f"{pad}if {c} then {e}\n{pad}else\n{rest}")
                return "\n".join(lines)
            elif v == "if":
                # `if` in statement position is a complete statement; the only accepted one is the block's tail
                lines.append(self.tail_if(env, want, ind))
                if self.peek() != "}":
                    raise Reject("`if` statement that is not the tail of its block (only `if c { return e; }` may be followed by code)")
                return "\n".join(lines)
            elif v in ("for", "while", "loop"):
                raise Reject(f"`{v}` loop")
            elif v == "}":
                raise Reject("block without a tail expression (unit value)")
            else:
                e = self.value(env, want, ind)
                if self.peek() == ";":
                    raise Reject("expression statement `..;` (its value would be discarded)")
                if self.peek() != "}":
                    raise Reject(f"`{self.peek()}` after the tail expression")
                lines.append(f"{pad}{e}")
                return "\n".join(lines)

    def tail_if(self, env, want, ind):
        pad = "  " * ind
        self.eat("if")
        c = self.cond(env, ind + 1)
        self.eat("{")
        a = self.block_body(env, False, want, ind + 1)
        self.eat("}")
        if self.peek() != "else":
            raise Reject("`if` without `else` used as a value")
        self.next()
        if self.peek() == "if":
            b = self.tail_if(env, want, ind + 1)
        else:
            self.eat("{")
            b = self.block_body(env, False, want, ind + 1)
            self.eat("}")
        return f"{pad}if {c} then\n{a}\n{pad}else\n{b}"

    def has_q(self):
        """does the expression up to the next `;` at nesting depth 0 contain a `?`"""
        j, d = self.i, 0
        while j < len(self.t):
            v = self.t[j][1]
            if v in ("(", "[", "{"):
                d += 1
            elif v in (")", "]", "}"):
                d -= 1
                if d < 0:
                    return False
            elif v == ";" and d == 0:
                return False
            elif v == "?":
                return True
            j += 1
        return False

    def is_early_return(self):
        """`if <cond> { return` ... : look ahead for the first `{` at parenthesis depth 0"""
        j, d = self.i + 1, 0
        while j < len(self.t):
            v = self.t[j][1]
            if v in ("(", "["):
                d += 1
            elif v in (")", "]"):
                d -= 1
            elif v == "{" and d == 0:
                return self.t[j + 1][1] == "return"
            elif v == "<end>":
                return False
            j += 1
        return False

    def value(self, env, want, ind):
        """an expression that must have type `want` (`?` is not accepted here, only in `let x = ..?;`)"""
        e, t = self.expr(env, ind)
        if t != want:
            raise Reject(f"value of type {ty_str(t)} where {ty_str(want)} is required")
        return e

    def cond(self, env, ind):
        saved = (getattr(self, "allow_q", False), getattr(self, "no_struct", False))
        e, t = self.expr(env, ind, no_struct=True)
        self.allow_q, self.no_struct = saved
        self.last_q_outermost = False
        if t != BOOL:
            raise Reject(f"condition of type {ty_str(t)}")
        return e

    # -- expressions.  expr() returns (lean text, type); bool-typed text is a decidable Prop.
    def expr_maybe_monadic(self, env, ind):
        """initialiser of a `let`, which may leave the function through `?`.
        returns (text, type, monadic): when monadic, `text : Option type` and a `none` is propagated."""
        if not self.has_q():
            e, t = self.expr(env, ind)
            return e, t, False
        # accepted shapes: `X?` and if/else chains whose branch values are pure or `X?`
        e, t = self.mexpr(env, ind)
        return e, t, True

    def mexpr(self, env, ind):
        """monadic form: returns (text : Option t, t)"""
        pad = "  " * ind
        if self.peek() == "if":
            self.next()
            c = self.cond(env, ind + 1)
            self.eat("{")
            a, ta = self.mblock(env, ind + 1)
            self.eat("}")
            if self.peek() != "else":
                raise Reject("`if` without `else` used as a value")
            self.next()
            if self.peek() == "if":
                b, tb = self.mexpr(env, ind)
            else:
                self.eat("{")
                b, tb = self.mblock(env, ind + 1)
                self.eat("}")
            if ta != tb:
                raise Reject(f"`if` branches of different types {ty_str(ta)} / {ty_str(tb)}")
            return f"if {c} then {a}\n{pad}else {b}", ta
        self.qmarks = 0
        e, t = self.expr(env, ind, allow_q=True)
        if self.qmarks == 0:
            return f"some ({e})", t
        if self.qmarks == 1 and self.last_q_outermost:
            return e, t
        raise Reject("`?` inside a larger expression (only `X?` as a whole value, possibly inside if/else branches)")

    def mblock(self, env, ind):
        if self.peek() in ("let", "return"):
            raise Reject("statements inside an if/else branch that contains `?`")
        e, t = self.mexpr(env, ind)
        if self.peek() != "}":
            raise Reject(f"`{self.peek()}` after a branch value")
        return e, t

    def expr(self, env, ind, allow_q=False, no_struct=False):
        self.allow_q = allow_q
        self.no_struct = no_struct
        self.last_q_outermost = False
        e, t = self.p_or(env, ind)
        return e, t

    def p_or(self, env, ind):
        e, t = self.p_and(env, ind)
        while self.peek() == "||":
            self.next()
            f, tf = self.p_and(env, ind)
            if t != BOOL or tf != BOOL:
                raise Reject("`||` on non-bool operands")
            e, t = f"({e} ∨ {f})", BOOL
            self.last_q_outermost = False
        return e, t

    def p_and(self, env, ind):
        e, t = self.p_cmp(env, ind)
        while self.peek() == "&&":
            self.next()
            f, tf = self.p_cmp(env, ind)
            if t != BOOL or tf != BOOL:
                raise Reject("`&&` on non-bool operands")
            e, t = f"({e} ∧ {f})", BOOL
            self.last_q_outermost = False
        return e, t

    CMP = {"==": "=", "!=": "≠", "<": "<", "<=": "≤", ">": ">", ">=": "≥"}

    def p_cmp(self, env, ind):
        e, t = self.p_add(env, ind)
        if self.peek() in self.CMP:
            op = self.next()
            f, tf = self.p_add(env, ind)
            if self.peek() in self.CMP:
                raise Reject("chained comparison")
            if t != DEC or tf != DEC:
                raise Reject(f"comparison `{op}` on {ty_str(t)} / {ty_str(tf)} (only Decimal values are compared)")
            self.last_q_outermost = False
            return f"({e} {self.CMP[op]} {f})", BOOL
        return e, t

    def p_add(self, env, ind):
        e, t = self.p_mul(env, ind)
        while self.peek() in ("+", "-"):
            op = self.next()
            f, tf = self.p_mul(env, ind)
            if t != DEC or tf != DEC:
                raise Reject(f"`{op}` on {ty_str(t)} / {ty_str(tf)}")
            e = f"({e} {op} {f})"
            self.last_q_outermost = False
        return e, t

    def p_mul(self, env, ind):
        e, t = self.p_unary(env, ind)
        while self.peek() in ("*", "/", "%"):
            op = self.next()
            if op == "%":
                raise Reject("`%` operator")
            f, tf = self.p_unary(env, ind)
            if t != DEC or tf != DEC:
                raise Reject(f"`{op}` on {ty_str(t)} / {ty_str(tf)}")
            e = f"({e} {op} {f})"
            self.last_q_outermost = False
        return e, t

    def p_unary(self, env, ind):
        if self.peek() == "-":
            self.next()
            e, t = self.p_unary(env, ind)
            if t != DEC:
                raise Reject(f"unary `-` on {ty_str(t)}")
            self.last_q_outermost = False
            return f"(-{e})", DEC
        if self.peek() == "!":
            self.next()
            e, t = self.p_unary(env, ind)
            if t != BOOL:
                raise Reject(f"`!` on {ty_str(t)}")
            self.last_q_outermost = False
            return f"(¬{e})", BOOL
        if self.peek() in ("&", "*"):
            raise Reject(f"reference / dereference `{self.peek()}`")
        return self.p_postfix(env, ind)

    def p_postfix(self, env, ind):
        e, t = self.p_primary(env, ind)
        while True:
            v = self.peek()
            if v == ".":
                self.next()
                if self.kind() == "num":
                    raise Reject("tuple field access")
                name = self.ident()
                if self.peek() == "(":
                    self.next()
                    args = []
                    while self.peek() != ")":
                        args.append(self.sub(env, ind))
                        if self.peek() == ",":
                            self.next()
                        elif self.peek() != ")":
                            raise Reject(f"`{self.peek()}` in the argument list of `.{name}(`")
                    self.eat(")")
                    if name == "abs" and t == DEC and not args:
                        e, t = f"(Decimal.abs {e})", DEC
                    elif name == "is_zero" and t == DEC and not args:
                        e, t = f"({e} = 0)", BOOL
                    elif name == "checked_div" and t == DEC and len(args) == 1 and args[0][1] == DEC:
                        e, t = f"(Decimal.checked_div {e} {args[0][0]})", ("opt", DEC)
                    else:
                        raise Reject(f"method call `.{name}(..)` on a value of type {ty_str(t)}")
                    self.last_q_outermost = False
                else:
                    if t[0] != "struct":
                        raise Reject(f"field access `.{name}` on a value of type {ty_str(t)}")
                    ft = dict(self.w.structs[t[1]]).get(name)
                    if ft is None:
                        raise Reject(f"struct `{t[1]}` has no field `{name}`")
                    e, t = f"{e}.{lean_id(name)}", ft
                    self.last_q_outermost = False
            elif v == "?":
                self.next()
                if not self.allow_q:
                    raise Reject("`?` in this position")
                if t[0] != "opt":
                    raise Reject(f"`?` on a value of type {ty_str(t)}")
                self.qmarks += 1
                t = t[1]
                self.last_q_outermost = True
            elif v == "[":
                raise Reject("indexing `[..]`")
            elif v == "as":
                raise Reject("`as` cast")
            else:
                return e, t

    def sub(self, env, ind):
        """nested full expression (call argument, parenthesis): `?` is not accepted inside"""
        aq, ns = self.allow_q, self.no_struct
        self.allow_q, self.no_struct = False, False
        r = self.p_or(env, ind)
        self.allow_q, self.no_struct = aq, ns
        return r

    def p_primary(self, env, ind):
        pad = "  " * ind
        v = self.peek()
        k = self.kind()
        if v == "(":
            self.next()
            if self.peek() == ")":
                raise Reject("unit value `()`")
            e, t = self.sub(env, ind)
            if self.peek() == ",":
                raise Reject("tuple expression")
            self.eat(")")
            return e, t
        if k == "num":
            raise Reject(f"numeric literal `{v}` (only Decimal::ZERO/ONE/TWO/TEN/MAX/MIN)")
        if v == "if":
            self.next()
            c = self.cond(env, ind + 1)
            self.eat("{")
            a, ta = self.branch(env, ind + 1)
            self.eat("}")
            if self.peek() != "else":
                raise Reject("`if` without `else` used as a value")
            self.next()
            if self.peek() == "if":
                b, tb = self.p_primary(env, ind)
                b = f"{pad}{b}"
            else:
                self.eat("{")
                b, tb = self.branch(env, ind + 1)
                self.eat("}")
            if ta != tb:
                raise Reject(f"`if` branches of different types {ty_str(ta)} / {ty_str(tb)}")
            return f"(if {c} then\n{a}\n{pad}else\n{b})", ta
        if v == "match":
            return self.p_match(env, ind)
        if v == "{":
            self.next()
            b, t = self.branch(env, ind + 1)
            self.eat("}")
            return f"(\n{b})", t
        if v in ("loop", "while", "for", "unsafe", "async", "move", "|", "||"):
            raise Reject(f"`{v}` expression")
        if k != "id":
            raise Reject(f"unexpected `{v}`")
        # identifiers / paths
        if v == "None":
            self.next()
            if not (self.ret and self.ret[0] == "opt"):
                raise Reject("`None` in a function that does not return an Option")
            return f"(none : {ty_str(self.ret)})", self.ret
        if v == "Some":
            self.next()
            self.eat("(")
            e, t = self.sub(env, ind)
            self.eat(")")
            return f"(some {e})", ("opt", t)
        if self.peek(1) == "::":
            head = self.next()
            self.next()
            name = self.ident()
            if self.peek() == "::":
                raise Reject(f"path `{head}::{name}::..`")
            if head == "Decimal":
                if self.peek() == "(":
                    raise Reject(f"call `Decimal::{name}(..)`")
                if name not in DEC_CONSTS:
                    raise Reject(f"constant `Decimal::{name}`")
                return DEC_CONSTS[name], DEC
            if head in self.w.enums and self.peek() != "(":
                if name not in self.w.enums[head]:
                    raise Reject(f"enum `{head}` has no variant `{name}`")
                return f"{head}.{name}", ("enum", head)
            return self.call((head if head != "Self" else (self.self_ty or (None, None))[1], name), f"{head}::{name}", env, ind)
        if v == "Self" or (v in self.w.structs and self.peek(1) == "{" and not self.no_struct):
            self.next()
            sname = v
            if v == "Self":
                if not self.self_ty or self.self_ty[0] != "struct":
                    raise Reject("`Self` outside an impl of a translated struct")
                sname = self.self_ty[1]
            if self.peek() != "{":
                raise Reject(f"`{v}` not followed by a struct literal")
            self.eat("{")
            given = {}
            while self.peek() != "}":
                if self.peek() == ".":
                    raise Reject("struct update syntax `..`")
                f = self.ident()
                if self.peek() == ":":
                    self.next()
                    e, t = self.sub(env, ind)
                else:
                    if f not in env:
                        raise Reject(f"struct literal shorthand `{f}`: no such variable")
                    e, t = lean_id(f), env[f][0]
                if f in given:
                    raise Reject(f"field `{f}` given twice")
                given[f] = (e, t)
                if self.peek() == ",":
                    self.next()
                elif self.peek() != "}":
                    raise Reject(f"`{self.peek()}` in a struct literal")
            self.eat("}")
            fields = self.w.structs[sname]
            if set(given) != {f for f, _ in fields}:
                raise Reject(f"struct literal of `{sname}` does not give exactly its fields")
            for f, t in fields:
                if given[f][1] != t:
                    raise Reject(f"field `{f}` of `{sname}` given a value of type {ty_str(given[f][1])}")
            return "{ " + ", ".join(f"{lean_id(f)} := {given[f][0]}" for f, _ in fields) + f" : {sname} }}", ("struct", sname)
        if self.peek(1) == "(":
            name = self.next()
            return self.call((None, name), name, env, ind)
        if self.peek(1) == "!":
            raise Reject(f"macro `{v}!`")
        self.next()
        if v in ("true", "false"):
            raise Reject(f"bool literal `{v}` as a value")
        if v not in env:
            raise Reject(f"unknown identifier `{v}`")
        if env[v][0] == BOOL:
            return f"({lean_id(v)} = true)", BOOL      # a bool local read as the proposition it decides
        return lean_id(v), env[v][0]

    def call(self, key, shown, env, ind):
        self.eat("(")
        args = []
        while self.peek() != ")":
            args.append(self.sub(env, ind))
            if self.peek() == ",":
                self.next()
            elif self.peek() != ")":
                raise Reject(f"`{self.peek()}` in the argument list of `{shown}(`")
        self.eat(")")
        if key not in self.w.fns and not aux_translate(self.w, key, shown):
            raise Reject(f"call of `{shown}`, which is not a translated function (and no such function was found by lookup)")
        lname, ptys, rty = self.w.fns[key]
        if lname in self.w.aux_names and self.w.ctx and self.w.ctx[0] not in self.w.aux_names[lname]:
            # an auxiliary definition generated for another group is used by this group too: it joins its simp set
            self.w.aux_names[lname].add(self.w.ctx[0])
            self.w.pending.append(f"\nattribute [gen_{self.w.ctx[0]}] {lname}")
        if [t for _, t in args] != ptys:
            raise Reject(f"call of `{shown}` with argument types {[ty_str(t) for _, t in args]}")
        return "(" + " ".join([lname] + [a if re.fullmatch(r"[\w.«»]+|\(.*\)", a, re.S) else f"({a})" for a, _ in args]) + ")", rty

    def branch(self, env, ind):
        """contents of `{ .. }` used as a value (lets + tail, no assignment, no return): (text, type)"""
        aq, ns = self.allow_q, self.no_struct
        self.allow_q, self.no_struct = False, False
        env = dict(env)
        pad = "  " * ind
        lines = []
        while self.peek() == "let":
            self.next()
            if self.peek() == "mut":
                raise Reject("`let mut` inside a nested block")
            x = self.ident()
            if self.peek() == ":":
                self.next()
                ann = self.ty()
            else:
                ann = None
            if self.peek() != "=":
                raise Reject(f"`let` pattern starting `{x} {self.peek()}`")
            self.eat("=")
            e, t = self.p_or(env, ind + 1)
            if self.peek() == "?":
                raise Reject("`?` inside a nested block")
            self.eat(";")
            if ann and ann != t:
                raise Reject(f"`let {x}: {ty_str(ann)}` bound to a value of type {ty_str(t)}")
            if t == BOOL:
                lines.append(f"{pad}let {lean_id(x)} : Bool := decide {e}")
            else:
                lines.append(f"{pad}let {lean_id(x)} : {ty_str(t)} := {e}")
            env[x] = (t, False)
        if self.peek() == "return":
            raise Reject("`return` inside a nested block (only `if c { return e; }` at statement level)")
        if self.peek() == "}":
            raise Reject("block without a tail expression (unit value)")
        if self.kind() == "id" and self.peek(1) in ("=", "+=", "-=", "*=", "/="):
            raise Reject(f"assignment to `{self.peek()}` inside a nested block")
        e, t = self.p_or(env, ind)
        if self.peek() == ";":
            raise Reject("expression statement `..;` inside a nested block")
        if self.peek() == "?":
            raise Reject("`?` inside a nested block")
        if self.peek() != "}":
            raise Reject(f"`{self.peek()}` after a block's tail expression")
        lines.append(f"{pad}{e}")
        self.allow_q, self.no_struct = aq, ns
        return "\n".join(lines), t

    def p_match(self, env, ind):
        pad = "  " * ind
        self.eat("match")
        s, ts = self.expr_no_struct(env, ind)
        self.eat("{")
        arms = []
        while self.peek() != "}":
            if self.peek() == "_":
                raise Reject("wildcard `_` match arm")
            if self.kind() != "id":
                raise Reject(f"match pattern starting with `{self.peek()}`")
            pat = self.next()
            if self.peek() == "::":
                self.next()
                pat = (pat, self.ident())
            if self.peek() in ("|", "if", "(", "{", "@"):
                raise Reject(f"match pattern with `{self.peek()}`")
            self.eat("=>")
            if self.peek() == "{":
                self.next()
                e, t = self.branch(env, ind + 2)
                self.eat("}")
            else:
                e, t = self.sub(env, ind + 2)
                e = "  " * (ind + 2) + e
            if self.peek() == ",":
                self.next()
            elif self.peek() != "}":
                raise Reject(f"`{self.peek()}` after a match arm")
            arms.append((pat, e, t))
        self.eat("}")
        if len({t for _, _, t in arms}) != 1:
            raise Reject("match arms of different types")
        t = arms[0][2]
        if ts == BOOL:
            d = {p: e for p, e, _ in arms}
            if len(arms) != 2 or set(d) != {"true", "false"}:
                raise Reject("match on a bool must have exactly the arms `true` and `false`")
            return f"(if {s} then\n{d['true']}\n{pad}else\n{d['false']})", t
        if ts[0] == "enum":
            variants = self.w.enums[ts[1]]
            pats = [p for p, _, _ in arms]
            for p in pats:
                if not (isinstance(p, tuple) and p[0] == ts[1] and p[1] in variants):
                    raise Reject(f"match pattern `{p if isinstance(p, str) else '::'.join(p)}` on a value of enum `{ts[1]}`")
            if sorted(p[1] for p in pats) != sorted(variants):
                raise Reject(f"match on `{ts[1]}` does not list every variant exactly once")
            body = "\n".join(f"{pad}| {ts[1]}.{p[1]} =>\n{e}" for p, e, _ in arms)
            return f"(match {s} with\n{body})", t
        raise Reject(f"match on a value of type {ty_str(ts)}")

    def expr_no_struct(self, env, ind):
        aq, ns = self.allow_q, self.no_struct
        self.allow_q, self.no_struct = False, True
        r = self.p_or(env, ind)
        self.allow_q, self.no_struct = aq, ns
        return r


# ------------------------------------------------------------------------------------------ driver

def translate(world, text, raw, container, kind, name, aux=False):
    """returns (lean text of the item, sha of its source text)"""
    a, b = find_item(text, container, kind, name)
    sha = hashlib.sha256(raw[a:b].encode()).hexdigest()[:16]
    line = raw.count("\n", 0, a) + 1
    toks = tokenize(text[a:b])
    self_ty = None
    cname = None
    if container and container.startswith("impl "):
        cname = container.split()[1]
        if cname not in world.structs:
            raise Reject(f"`{container}`: `{cname}` is not a translated struct")
        self_ty = ("struct", cname)
    p = P(toks, world, self_ty)
    if kind == "struct":
        n, fields = p.struct()
        world.structs[n] = fields
        out = f"structure {n} where\n" + "".join(f"  {lean_id(f)} : {ty_str(t)}\n" for f, t in fields) + "  deriving DecidableEq, Repr"
    elif kind == "enum":
        n, variants = p.enum()
        world.enums[n] = variants
        out = f"inductive {n} where\n" + "".join(f"  | {v}\n" for v in variants) + "  deriving DecidableEq, Repr"
    else:
        n, params, ret, body = p.fn()
        prefix = container.split()[1] + "." if container else ""
        lname = prefix + n
        key = (cname, n)
        if not aux and key in world.fns and lname in world.aux_names:
            # a table item that an earlier table item calls: it was already generated by lookup
            groups = world.aux_names.pop(lname)
            extra = f"attribute [gen_{world.ctx[0]}] {lname}" if world.ctx[0] not in groups else ""
            return (f"-- already generated above as `{lname}` (a translated caller listed earlier uses it)\n{extra}").rstrip(), sha, line, b
        if key in world.fns or any(v[0] == lname for v in world.fns.values()):
            raise Reject(f"name clash: `{lname}` is generated twice")
        world.fns[key] = (lname, [t for _, t in params], ret)
        ps = " ".join(f"({lean_id(x)} : {ty_str(t)})" for x, t in params)
        # every generated definition is in the simp set of its group (Generated/Attr.lean): agreement proofs unfold
        # "everything generated for this group" without knowing the names of auxiliary definitions
        attr = f"@[gen_{world.ctx[0]}] " if world.ctx else ""
        out = f"{attr}def {lname} {ps} : {ty_str(ret)} :=\n{body}"
    return out, sha, line, b


def main():
    argv = sys.argv[1:]
    required = set(GROUPS)
    to_stdout = False
    while argv:
        a = argv.pop(0)
        if a == "--require":
            required = set(argv.pop(0).split(","))
            if not required <= set(GROUPS):
                sys.exit(f"rust2lean: unknown group in --require (groups: {', '.join(GROUPS)})")
        elif a == "--stdout":
            to_stdout = True
        elif a == "--list":
            for g, f, c, k, n in KERNELS:
                print(g, f, (c + " :: " if c else "") + k + " " + n)
            return 0
        else:
            sys.exit(__doc__)
    world = World()
    cache = {}
    sections, header, errors, failed_groups = [], [], [], set()
    cur = None
    for group, rel, container, kind, name in KERNELS:
        shown = f"{rel} :: " + (f"{container} :: " if container else "") + f"{kind} {name}"
        try:
            path = os.path.join(REPO, rel)
            if rel not in cache:
                if not os.path.exists(path):
                    raise Reject(f"source file {path} does not exist")
                raw = open(path, encoding="utf-8").read()
                cache[rel] = (raw, blank_comments(raw))
            raw, text = cache[rel]
            world.ctx = (group, rel, container, raw, text)
            world.pending, world.aux_header = [], []
            out, sha, line, _ = translate(world, text, raw, container, kind, name)
        except Reject as e:
            errors.append((group, f"rust2lean: REJECTED {shown}: {e}"))
            failed_groups.add(group)
            header.append(f"  {shown}: NOT TRANSLATED ({e})")
            header.extend(world.aux_header)
            if (group, rel) != cur:
                sections.append(f"\n/-! ## {rel} -/")
                cur = (group, rel)
            sections.extend(world.pending)     # auxiliary items translated before the rejection stay defined
            sections.append(f"\n-- NOT TRANSLATED: {kind} {name}: {e}")
            continue
        if (group, rel) != cur:
            sections.append(f"\n/-! ## {rel} -/")
            cur = (group, rel)
        header.append(f"  {shown}  (line {line})  sha256[:16]={sha}")
        header.extend(world.aux_header)
        sections.extend(world.pending)
        where = (container + " :: " if container else "") + f"{kind} {name}"
        if out.startswith("-- already"):
            sections.append(f"\n-- `{where}` ({rel}:{line}) {out[3:]}")
        else:
            sections.append(f"\n/-- generated from `{where}` ({rel}:{line}) -/\n{out}")
    text = ("/-\nGENERATED FILE -- DO NOT EDIT.  Written by tools/rust2lean.py from the Rust source on every run of\n"
            "`./check` for the properties whose props/Cxx.py names it in PREBUILD; the committed copy is the output for\n"
            "the pinned tree.  `Decimal` (and a generic `T` instantiated at `Decimal`) is `Rat`; conditions are decidable\n"
            "propositions; `x += e` is a re-binding of `x`.  The agreement with the hand-written models is proved in\n"
            "Lemmas/KernelsAgree/*.lean.  Every definition carries the simp attribute `gen_<group>` of its group\n"
            "(Generated/Attr.lean), auxiliary functions found by lookup included.\n\n"
            "Source items (file :: item, line, hash of the item's source text):\n"
            + "\n".join(header) + "\n-/\nimport BarterModel.Generated.Attr\nnamespace BarterModel.Generated\n\n" + PRELUDE + "\n".join(sections)
            + "\n\nend BarterModel.Generated\n")
    if to_stdout:
        sys.stdout.write(text)
    else:
        os.makedirs(os.path.dirname(OUT), exist_ok=True)
        old = open(OUT, encoding="utf-8").read() if os.path.exists(OUT) else None
        if old != text:
            with open(OUT, "w", encoding="utf-8") as f:
                f.write(text)
    for g, msg in errors:
        print(msg + ("" if g in required else "   [group not required by this run: definition left out]"), file=sys.stderr)
    bad = failed_groups & required
    n_ok = len(KERNELS) - len(errors)
    print(f"rust2lean: {n_ok}/{len(KERNELS)} items translated from {REPO} -> {os.path.relpath(OUT, VERIF)}"
          + (f"; FAILED in required group(s): {', '.join(sorted(bad))}" if bad else ""))
    return 1 if bad else 0


if __name__ == "__main__":
    sys.exit(main())
