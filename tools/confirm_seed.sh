#!/bin/bash
# tools/confirm_seed.sh <seed-dir>   e.g. /tmp/seed/C01a
# Confirms an independently seeded change in a FRESH scratch worktree of /repo HEAD:
#   demo passes without the change; with the change: existing suite passes, demo fails.
set -u
S=$1; ID=$(basename $S)
W=/tmp/seedconf/$ID
T=$S/target
meta=$S/out/meta.json
[ -f "$meta" ] || { echo "no meta.json"; exit 2; }
demo_cmd=$(python3 -c "import json,sys;print(json.load(open('$meta'))['demo_cmd'])")
# run the demo command inside the confirmation worktree instead of the agent's
demo_cmd=$(echo "$demo_cmd" | sed "s|$S/repo|$W/repo|g")
git -C /repo worktree remove --force $W/repo 2>/dev/null; rm -rf $W; mkdir -p $W
git -C /repo worktree add -q --detach $W/repo HEAD || exit 2
cd $W/repo
export CARGO_TARGET_DIR=$T CARGO_PROFILE_DEV_DEBUG=0 CARGO_PROFILE_TEST_DEBUG=0 CARGO_NET_OFFLINE=true
git apply $S/out/demo.diff || { echo "demo.diff does not apply"; exit 2; }
echo "== demo WITHOUT the change (must pass)"
( eval "$demo_cmd" ) > $W/demo_without.log 2>&1; r1=$?
tail -3 $W/demo_without.log
git apply $S/out/patch.diff || { echo "patch.diff does not apply"; exit 2; }
echo "== existing suite WITH the change (must pass)"
cargo nextest run --workspace --no-fail-fast --offline > $W/suite.log 2>&1; r2=$?
grep -E "Summary|FAIL" $W/suite.log | grep -v "SIGTERM" | head -5
echo "== demo WITH the change (must fail)"
( eval "$demo_cmd" ) > $W/demo_with.log 2>&1; r3=$?
tail -3 $W/demo_with.log
# the known-flaky clock test does not count
fails=$(grep -E "^\s+FAIL" $W/suite.log | grep -v "test_historical_clock_time_delta_calculation" | grep -v "seed_" | sort -u | wc -l)
echo "RESULT $ID demo_without_rc=$r1 suite_rc=$r2 suite_other_fails=$fails demo_with_rc=$r3"
cd /; git -C /repo worktree remove --force $W/repo 2>/dev/null; rm -rf $W
[ $r1 -eq 0 ] && [ $fails -eq 0 ] && [ $r3 -ne 0 ]
