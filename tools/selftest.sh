#!/bin/bash
# tools/selftest.sh [ids...]   Runs every seeded change (seeded/<id>/patch.diff against the check of its
# property) and every hand-written mutant (mutants/<PROP>_*.patch) through tools/mutant.sh (scratch copy of
# /repo, never /repo itself) and prints one line per change. Harmless mutants (listed below) must give
# `no-failing-input-found`; all others a VIOLATION with a replay.
cd "$(dirname "$0")/.."
# expected `no-failing-input-found`: harmless ties (first three) and changes that only a model-vs-code break shows because
# the property-level spec is deliberately silent there (Decimal underflow, dirty snapshots, the 0/0 panic of a zero-price fill)
HARMLESS="C01_tie_open C09_balance_tie C12W_binary_lossy_payload C03R_notional_underflow_is_none C06E_upsert_linear_search_first_equal C20E_pnl_return_division_guarded C20E_dom_buy_rebate_clamped C07_cfg_close_drain C11_cfg_mock_exchange_future_replaced"
export VMUT_DIR=${VMUT_DIR:-/tmp/vmut_selftest}
run() { # name patch prop expect
  out=$(tools/mutant.sh "$2" "$3" 2>&1)
  # a concrete violation (a VIOLATION line with a replay of a failing input) wins over an additional
  # `no-failing-input-found` line (e.g. of a sub-check whose model broke where its spec is silent)
  if echo "$out" | grep "^VIOLATION property=" | grep -qv "no-failing-input-found"; then got=violation
  elif echo "$out" | grep -q "^VIOLATION property=.*no-failing-input-found"; then got=no-failing-input-found
  else got=MISSED; fi
  sig=$(echo "$out" | grep -m1 "^# signature=" | cut -c3-90)
  printf "%-28s %-4s expect=%-24s got=%-24s %s\n" "$1" "$3" "$4" "$got" "$sig"
}
for d in seeded/*/; do
  id=$(basename $d); prop=$(python3 -c "import json;print(json.load(open('$d/meta.json'))['property'])")
  [ $# -gt 0 ] && ! echo "$@" | grep -qw "$id" && continue
  run "seeded/$id" "$PWD/$d/patch.diff" "$prop" violation
done
for p in mutants/*.patch; do
  name=$(basename $p .patch); prop=${name%%_*}
  [ $# -gt 0 ] && ! echo "$@" | grep -qw "$name" && continue
  if echo "$HARMLESS" | grep -qw "$name"; then exp=no-failing-input-found; else exp=violation; fi
  run "mutants/$name" "$PWD/$p" "$prop" "$exp"
done
tools/mutant.sh --clean 2>/dev/null
