import BarterModel.Lemmas.Metrics
namespace BarterModel.Props.C16M
open BarterModel.Metrics
theorem ror_calculate_value (m : Rat) (p : Interval) : (RateOfReturn.calculate m p).value = m := rfl
end BarterModel.Props.C16M
