import BarterModel.Lemmas.Metrics
import BarterModel.Lemmas.KernelsAgree.MetricsSM
/-!
# C16M (sub-check of C16) — risk-adjusted return metrics and time-interval scaling

Statements about the model of `SharpeRatio` / `SortinoRatio` / `CalmarRatio` / `RateOfReturn`
(`calculate`, `scale`), the `TimeInterval` implementations and `TearSheetGenerator::generate`
(`Model/Metrics.lean`). Numbers are exact rationals. `Decimal::sqrt` is never assumed to be anything:
every theorem about `scale` is stated for an arbitrary `law : Rat → Rat` (the square root for the
three ratios, the identity for `RateOfReturn`) and names, as a hypothesis about `law` *at the
arguments that occur*, exactly what it needs (`law 1 = 1`, `law (a*b) = law a * law b`, `0 ≤ law a`).

"No saturation" hypotheses (`InRange (v * s)`) say that the product fits a `Decimal`; what happens
otherwise is the subject of the saturation theorems of §4, which include the two ways in which
`scale` does **not** preserve the zero-risk conventions of `calculate` (`Decimal::MIN` turns into
`Decimal::MAX`; `Decimal::MAX` shrinks to a finite number).

§6 speaks about the total model function `sheetOf`; §7 about `sheetChecked`, the function with the
code's panic explicit (zero cost of investment: `sheet_panics_iff`), which is what the drivers run —
"what the code reports" is `sheet_checked_refines`. §8 separates the laws of the ideal root
(`scale_scale`, `scale_round_trip`, `sharpe_scaling_is_iid_consistent`) from what holds for the root
that is computed (error bound, counterexamples). §9 is the Calmar counterpart of
`sheet_sortino_very_bad_is_max`: a history that never shows a profit has "no drawdown", and its Calmar
ratio is reported as `Decimal::MAX`.
-/
namespace BarterModel.Props.C16M
open BarterModel BarterModel.Metrics

/-- A value a `Decimal` can hold. -/
def InRange (v : Rat) : Prop := v.abs ≤ decimalMax

instance (v : Rat) : Decidable (InRange v) := inferInstanceAs (Decidable (v.abs ≤ decimalMax))

/-! ## 1. Time intervals -/

/-- An interval of exactly `k` seconds has `secs = k`. -/
theorem secs_of_whole (i : Interval) (k : Int) (h : i.interval = 1000 * k) : i.secs = (k : Rat) := by
  simp [Interval.secs, h, numSeconds_whole]
/-- `Daily`, `Annual252`, `Annual365` are 1, 252 and 365 days of 86 400 s. -/
theorem named_interval_secs :
    Interval.daily.secs = 86400 ∧ Interval.annual252.secs = 21772800 ∧
    Interval.annual365.secs = 31536000 := by
  refine ⟨?_, ?_, ?_⟩
  · rw [secs_of_whole .daily 86400 (by decide)]; rfl
  · rw [secs_of_whole .annual252 21772800 (by decide)]; rfl
  · rw [secs_of_whole .annual365 31536000 (by decide)]; rfl

/-- A `TimeDelta` of a whole number of seconds is seen exactly … -/
theorem delta_secs_whole (k : Int) : (Interval.delta (1000 * k)).secs = (k : Rat) := by
  simp [Interval.secs, Interval.interval, numSeconds_whole]

/-- … any other one is truncated toward zero: `|secs| ≤ length < |secs| + 1` (length in seconds). -/
theorem secs_truncates (i : Interval) : i.secs.abs ≤ i.length ∧ i.length < i.secs.abs + 1 :=
  secs_abs_le_length i

/-- The names (`TimeInterval::name`); a `TimeDelta` is named by its whole minutes. -/
theorem interval_names (ms : Int) :
    Interval.daily.name = "Daily" ∧ Interval.annual252.name = "Annual(252)" ∧
    Interval.annual365.name = "Annual(365)" ∧
    (Interval.delta ms).name = "Duration " ++ toString (Int.tdiv (Int.tdiv ms 1000) 60) ++ " (minutes)" :=
  ⟨rfl, rfl, rfl, rfl⟩

/-- Number of days in the two annual conventions. -/
theorem periods_daily_annual :
    periods .daily .annual252 = 252 ∧ periods .daily .annual365 = 365 ∧
    periods .annual252 .daily = 1 / 252 ∧ periods .annual365 .daily = 1 / 365 := by
  obtain ⟨h1, h2, h3⟩ := named_interval_secs
  have a1 : Interval.daily.secs.abs = 86400 := by rw [h1]; exact Rat.abs_of_nonneg (by grind)
  have a2 : Interval.annual252.secs.abs = 21772800 := by rw [h2]; exact Rat.abs_of_nonneg (by grind)
  have a3 : Interval.annual365.secs.abs = 31536000 := by rw [h3]; exact Rat.abs_of_nonneg (by grind)
  have n1 : Interval.daily.secs ≠ 0 := by rw [h1]; grind
  have n2 : Interval.annual252.secs ≠ 0 := by rw [h2]; grind
  have n3 : Interval.annual365.secs ≠ 0 := by rw [h3]; grind
  refine ⟨?_, ?_, ?_, ?_⟩
  · rw [periods_eq_div n1, a1, a2]; grind
  · rw [periods_eq_div n1, a1, a3]; grind
  · rw [periods_eq_div n2, a1, a2]; grind
  · rw [periods_eq_div n3, a1, a3]; grind

/-! ## 2. `calculate` -/

/-- Sharpe: `(mean − rf) / σ`, and `Decimal::MAX` when `σ = 0`; the interval is carried along.
(Bookkeeping: `specSharpe` / `specSortino` / `specCalmar` are the same case distinctions as the code,
written on extended values — these three theorems are definitional unfoldings, the content is in the
sign / monotonicity / excess-only theorems below and in what `scale` does to the conventions, §4.) -/
theorem sharpe_calculate_refines (rf m s : Rat) (p : Interval) :
    (SharpeRatio.calculate rf m s p).value = (specSharpe rf m s).toDecimal ∧
    (SharpeRatio.calculate rf m s p).interval = p :=
  ⟨sharpe_value rf m s p, by unfold SharpeRatio.calculate; split <;> rfl⟩

/-- Sortino: `(mean − rf) / downside deviation` with the three documented zero-risk conventions
(`MAX` / `MIN` / `0` for positive / negative / no excess return). -/
theorem sortino_calculate_refines (rf m s : Rat) (p : Interval) :
    (SortinoRatio.calculate rf m s p).value = (specSortino rf m s).toDecimal ∧
    (SortinoRatio.calculate rf m s p).interval = p :=
  ⟨sortino_value rf m s p, by unfold SortinoRatio.calculate; split <;> rfl⟩

/-- Calmar: `(mean − rf) / |max drawdown|` with the same three conventions. -/
theorem calmar_calculate_refines (rf m d : Rat) (p : Interval) :
    (CalmarRatio.calculate rf m d p).value = (specCalmar rf m d).toDecimal ∧
    (CalmarRatio.calculate rf m d p).interval = p :=
  ⟨calmar_value rf m d p, by unfold CalmarRatio.calculate; split <;> rfl⟩

/-- Rate of return: the mean return itself. -/
theorem ror_calculate_refines (m : Rat) (p : Interval) :
    RateOfReturn.calculate m p = ⟨m, p⟩ := rfl

/-- The sign of a negative drawdown is ignored ("absolute value is used"). -/
theorem calmar_abs_drawdown (rf m d : Rat) (p : Interval) :
    CalmarRatio.calculate rf m (-d) p = CalmarRatio.calculate rf m d p := by
  rw [calmar_eq_sortino, calmar_eq_sortino, Rat.abs_neg]

/-- Calmar is Sortino with `|max drawdown|` as the risk; with a non-zero risk all three ratios are
the same function of (risk-free, mean, risk). -/
theorem ratio_metrics_agree (rf m r : Rat) (p : Interval) :
    CalmarRatio.calculate rf m r p = SortinoRatio.calculate rf m r.abs p ∧
    (r ≠ 0 → SharpeRatio.calculate rf m r p = SortinoRatio.calculate rf m r p) := by
  refine ⟨calmar_eq_sortino rf m r p, fun hr => ?_⟩
  simp [SharpeRatio.calculate, SortinoRatio.calculate, hr]

/-- Only the excess return matters: shifting mean and risk-free return together changes nothing. -/
theorem calculate_excess_only (rf m r c : Rat) (p : Interval) :
    SharpeRatio.calculate (rf + c) (m + c) r p = SharpeRatio.calculate rf m r p ∧
    SortinoRatio.calculate (rf + c) (m + c) r p = SortinoRatio.calculate rf m r p ∧
    CalmarRatio.calculate (rf + c) (m + c) r p = CalmarRatio.calculate rf m r p := by
  have e : m + c - (rf + c) = m - rf := by grind
  have l1 : (rf + c < m + c) = (rf < m) := by apply propext; constructor <;> intro h <;> grind
  have l2 : (m + c < rf + c) = (m < rf) := by apply propext; constructor <;> intro h <;> grind
  refine ⟨?_, ?_, ?_⟩
  · simp only [SharpeRatio.calculate, e]
  · simp only [SortinoRatio.calculate, e, l1, l2]
  · simp only [CalmarRatio.calculate, e, l1, l2]

/-- Sortino (risk ≥ 0) has the sign of the excess return — in the zero-risk conventions too. -/
theorem sortino_sign (rf m s : Rat) (p : Interval) (hs : 0 ≤ s) :
    let v := (SortinoRatio.calculate rf m s p).value
    (0 < v ↔ rf < m) ∧ (v < 0 ↔ m < rf) ∧ (v = 0 ↔ m = rf) := by
  have hmax : (0 : Rat) < decimalMax := decimalMax_pos
  have hmin : decimalMin < 0 := by decide
  unfold SortinoRatio.calculate
  by_cases h0 : s = 0
  · simp only [h0, if_true]
    by_cases h1 : rf < m
    · simp only [h1, if_true]; grind
    · by_cases h2 : m < rf
      · simp only [h1, h2, if_true, if_false]; grind
      · simp only [h1, h2, if_false]; grind
  · have hpos : 0 < s := by grind
    simp only [h0, if_false]
    have key : ∀ x : Rat, (0 < x / s ↔ 0 < x) ∧ (x / s < 0 ↔ x < 0) ∧ (x / s = 0 ↔ x = 0) := by
      intro x
      have e : x / s * s = x := Rat.div_mul_cancel h0
      refine ⟨⟨fun h => ?_, fun h => ?_⟩, ⟨fun h => ?_, fun h => ?_⟩, ⟨fun h => ?_, fun h => ?_⟩⟩
      · have := Rat.mul_pos h hpos; grind
      · rw [Rat.lt_div_iff hpos]; grind
      · have : 0 < -(x / s) * s := Rat.mul_pos (by grind) hpos
        grind
      · rw [Rat.div_lt_iff hpos]; grind
      · rw [h] at e; grind
      · rw [h, Rat.div_def, Rat.zero_mul]
    have := key (m - rf)
    grind

/-- Calmar has the sign of the excess return for every drawdown value. -/
theorem calmar_sign (rf m d : Rat) (p : Interval) :
    let v := (CalmarRatio.calculate rf m d p).value
    (0 < v ↔ rf < m) ∧ (v < 0 ↔ m < rf) ∧ (v = 0 ↔ m = rf) := by
  rw [calmar_eq_sortino]; exact sortino_sign rf m d.abs p Rat.abs_nonneg

/-- Sharpe has the sign of the excess return when there is dispersion (`σ > 0`) … -/
theorem sharpe_sign (rf m s : Rat) (p : Interval) (hs : 0 < s) :
    let v := (SharpeRatio.calculate rf m s p).value
    (0 < v ↔ rf < m) ∧ (v < 0 ↔ m < rf) ∧ (v = 0 ↔ m = rf) := by
  have hne : s ≠ 0 := by grind
  rw [(ratio_metrics_agree rf m s p).2 hne]
  exact sortino_sign rf m s p (by grind)

/-- … but with `σ = 0` it is `Decimal::MAX` whatever the excess return is — unlike Sortino and
Calmar, a negative excess return is *not* reported as `Decimal::MIN`. -/
theorem sharpe_zero_std_dev (rf m : Rat) (p : Interval) :
    (SharpeRatio.calculate rf m 0 p).value = decimalMax := by
  simp [SharpeRatio.calculate]

/-- More mean return never lowers Sortino / Calmar (zero-risk conventions included), nor Sharpe. -/
theorem sortino_mono_mean (rf m1 m2 s : Rat) (p : Interval) (hs : 0 ≤ s) (hm : m1 ≤ m2) :
    (SortinoRatio.calculate rf m1 s p).value ≤ (SortinoRatio.calculate rf m2 s p).value := by
  have hmax : (0 : Rat) < decimalMax := decimalMax_pos
  have hmin : decimalMin < 0 := by decide
  unfold SortinoRatio.calculate
  by_cases h0 : s = 0
  · simp only [h0, if_true]
    by_cases a1 : rf < m1 <;> by_cases a2 : rf < m2 <;> by_cases b1 : m1 < rf <;> by_cases b2 : m2 < rf <;>
      simp only [a1, a2, b1, b2, if_true, if_false] <;> grind
  · have hpos : 0 < s := by grind
    simp only [h0, if_false]
    rw [div_le_iff' hpos, Rat.div_mul_cancel h0]
    grind

theorem calmar_mono_mean (rf m1 m2 d : Rat) (p : Interval) (hm : m1 ≤ m2) :
    (CalmarRatio.calculate rf m1 d p).value ≤ (CalmarRatio.calculate rf m2 d p).value := by
  rw [calmar_eq_sortino, calmar_eq_sortino]
  exact sortino_mono_mean rf m1 m2 d.abs p Rat.abs_nonneg hm

theorem sharpe_mono_mean (rf m1 m2 s : Rat) (p : Interval) (hs : 0 ≤ s) (hm : m1 ≤ m2) :
    (SharpeRatio.calculate rf m1 s p).value ≤ (SharpeRatio.calculate rf m2 s p).value := by
  by_cases h0 : s = 0
  · subst h0; rw [sharpe_zero_std_dev, sharpe_zero_std_dev]; exact Rat.le_refl
  · rw [(ratio_metrics_agree rf m1 s p).2 h0, (ratio_metrics_agree rf m2 s p).2 h0]
    exact sortino_mono_mean rf m1 m2 s p hs hm

/-! ## 3. `scale`: one body, two laws

The four `scale` functions are the same code: multiply by `law (target_secs / current_secs)`,
saturating at `Decimal::MAX`; `law` is `Decimal::sqrt` for the three ratios and the identity for
`RateOfReturn`. -/

theorem scale_is_scaleWith (sqrtFn : Rat → Rat) :
    SharpeRatio.scale sqrtFn = Metric.scaleWith sqrtFn ∧
    SortinoRatio.scale sqrtFn = Metric.scaleWith sqrtFn ∧
    CalmarRatio.scale sqrtFn = Metric.scaleWith sqrtFn ∧
    RateOfReturn.scale = Metric.scaleWith id := ⟨rfl, rfl, rfl, rfl⟩

/-- The result carries the target interval. -/
theorem scale_interval (law : Rat → Rat) (m : Metric) (t : Interval) :
    (m.scaleWith law t).interval = t := rfl

/-- The factor is the quotient of the two lengths in whole seconds (signs ignored) whenever the
current interval has at least one second … -/
theorem scale_factor {c t : Interval} (hc : c.secs ≠ 0) : periods c t = t.secs.abs / c.secs.abs :=
  periods_eq_div hc

/-- … and `Decimal::MAX` when it has none (`checked_div` by zero). It is never negative, so the
`.expect("ensured seconds are Positive")` after `sqrt` cannot fire. -/
theorem scale_factor_zero_current {c t : Interval} (hc : c.secs = 0) : periods c t = decimalMax :=
  periods_zero_current hc

theorem scale_factor_nonneg (c t : Interval) : 0 ≤ periods c t := periods_nonneg c t

/-- **Value law.** If the product fits a `Decimal`, scaling multiplies by `law (|T| / |S|)`:
by `√(T/S)` for Sharpe / Sortino / Calmar, by `T/S` for the rate of return. -/
theorem scale_value (law : Rat → Rat) (v : Rat) {c t : Interval} (hc : c.secs ≠ 0)
    (hfit : InRange (v * law (t.secs.abs / c.secs.abs))) :
    (Metric.scaleWith law ⟨v, c⟩ t).value = v * law (t.secs.abs / c.secs.abs) := by
  rw [scaleWith_value]; simp only [periods_eq_div hc]; exact scaleVal_eq hfit

/-- Rate of return: linear in time. -/
theorem ror_scale_linear (v : Rat) {c t : Interval} (hc : c.secs ≠ 0)
    (hfit : InRange (v * (t.secs.abs / c.secs.abs))) :
    (RateOfReturn.scale ⟨v, c⟩ t).value = v * (t.secs.abs / c.secs.abs) :=
  scale_value id v hc hfit

/-- "a 1% daily return scales to approximately 252% annual return (not √252%)". -/
theorem ror_scale_daily_to_annual252 (v : Rat) (hfit : InRange (v * 252)) :
    (RateOfReturn.scale ⟨v, .daily⟩ .annual252).value = v * 252 := by
  have h := periods_daily_annual.1
  have : (Metric.scaleWith id ⟨v, .daily⟩ .annual252).value = scaleVal v (id (periods .daily .annual252)) :=
    scaleWith_value id _ _
  rw [RateOfReturn.scale, this, h]; exact scaleVal_eq hfit

/-- Sharpe daily → annual(252): multiplied by `sqrt 252`, whatever `sqrt` computes. -/
theorem sharpe_scale_daily_to_annual252 (sqrtFn : Rat → Rat) (v : Rat)
    (hfit : InRange (v * sqrtFn 252)) :
    (SharpeRatio.scale sqrtFn ⟨v, .daily⟩ .annual252).value = v * sqrtFn 252 := by
  have h := periods_daily_annual.1
  have : (Metric.scaleWith sqrtFn ⟨v, .daily⟩ .annual252).value =
      scaleVal v (sqrtFn (periods .daily .annual252)) := scaleWith_value sqrtFn _ _
  rw [SharpeRatio.scale, this, h]; exact scaleVal_eq hfit

/-- The result always is a `Decimal`: between `Decimal::MIN` and `Decimal::MAX`. -/
theorem scale_in_range (law : Rat → Rat) (m : Metric) (t : Interval) :
    decimalMin ≤ (m.scaleWith law t).value ∧ (m.scaleWith law t).value ≤ decimalMax :=
  scaleVal_bounds _ _

/-- **Same interval = identity** (needs `law 1 = 1`; the interval must have a second). -/
theorem scale_same_interval (law : Rat → Rat) (h1 : law 1 = 1) (m : Metric)
    (hs : m.interval.secs ≠ 0) (hv : InRange m.value) : m.scaleWith law m.interval = m := by
  have : (m.scaleWith law m.interval).value = m.value := by
    rw [scaleWith_value, periods_self hs, h1]; exact scaleVal_one hv
  cases m; simp_all [Metric.scaleWith]

/-- **Scale then scale = scale** — a law of the IDEAL root (and of the identity). Going `A → B → C`
is going `A → C`, provided the law is multiplicative at the two factors involved and the intermediate
value fits (`A`, `B` of at least a second). Saturation of the final product is the same on both sides,
so nothing is assumed about it. `hmul` FAILS for `Decimal::sqrt` / the drivers' `sqrtApprox` except at
perfect squares (`sqrtApprox_not_multiplicative_D_A252`); what two calls compute for an arbitrary law
is `scale_scale_value` (§8). -/
theorem scale_scale (law : Rat → Rat) (v : Rat) {a b : Interval} (c : Interval)
    (ha : a.secs ≠ 0) (hb : b.secs ≠ 0)
    (hmul : law (periods a b * periods b c) = law (periods a b) * law (periods b c))
    (hfit : InRange (v * law (periods a b))) :
    (Metric.scaleWith law ⟨v, a⟩ b).scaleWith law c = Metric.scaleWith law ⟨v, a⟩ c := by
  have hv : ((Metric.scaleWith law ⟨v, a⟩ b).scaleWith law c).value =
      (Metric.scaleWith law ⟨v, a⟩ c).value := by
    rw [scaleWith_value, scaleWith_value, scaleWith_value, scaleWith_interval]
    simp only
    rw [scaleVal_assoc _ hfit, ← hmul, periods_mul c ha hb]
  simp_all [Metric.scaleWith]

/-- **Round trip** — a law of the IDEAL root (and of the identity). `A → B → A` is the identity (law
multiplicative at the two reciprocal factors, `law 1 = 1`, intermediate value fits). With the root
that is actually computed the round trip is NOT the identity (`round_trip_deviates_witness`); the
version for approximate roots, with the error bound, is `scale_round_trip_error` /
`sqrtApprox_round_trip_error` (§8). -/
theorem scale_round_trip (law : Rat → Rat) (h1 : law 1 = 1) (v : Rat) {a b : Interval}
    (ha : a.secs ≠ 0) (hb : b.secs ≠ 0)
    (hmul : law (periods a b * periods b a) = law (periods a b) * law (periods b a))
    (hfit : InRange (v * law (periods a b))) (hv : InRange v) :
    (Metric.scaleWith law ⟨v, a⟩ b).scaleWith law a = ⟨v, a⟩ := by
  rw [scale_scale law v a ha hb hmul hfit]
  exact scale_same_interval law h1 ⟨v, a⟩ ha hv

/-- For the rate of return the law is the identity, which is multiplicative everywhere: the two
laws above hold with the fit hypothesis only. -/
theorem ror_scale_scale (v : Rat) {a b : Interval} (c : Interval) (ha : a.secs ≠ 0) (hb : b.secs ≠ 0)
    (hfit : InRange (v * periods a b)) :
    RateOfReturn.scale (RateOfReturn.scale ⟨v, a⟩ b) c = RateOfReturn.scale ⟨v, a⟩ c :=
  scale_scale id v c ha hb rfl hfit

theorem ror_scale_round_trip (v : Rat) {a b : Interval} (ha : a.secs ≠ 0) (hb : b.secs ≠ 0)
    (hfit : InRange (v * periods a b)) (hv : InRange v) :
    RateOfReturn.scale (RateOfReturn.scale ⟨v, a⟩ b) a = ⟨v, a⟩ :=
  scale_round_trip id rfl v ha hb rfl hfit hv

/-- **Sign.** A non-negative value stays non-negative (law non-negative at the factor) … -/
theorem scale_nonneg (law : Rat → Rat) (m : Metric) (t : Interval)
    (hl : 0 ≤ law (periods m.interval t)) (hv : 0 ≤ m.value) : 0 ≤ (m.scaleWith law t).value :=
  scaleVal_nonneg hv hl

/-- … a non-positive one stays non-positive **as long as the product does not fall below
`Decimal::MIN`** ("negative returns should scale … while maintaining sign"); see
`scale_negative_overflow_flips_sign` for what happens otherwise. -/
theorem scale_nonpos (law : Rat → Rat) (m : Metric) (t : Interval)
    (hl : 0 ≤ law (periods m.interval t)) (hv : m.value ≤ 0)
    (hlo : decimalMin ≤ m.value * law (periods m.interval t)) : (m.scaleWith law t).value ≤ 0 :=
  scaleVal_nonpos hv hl hlo

/-- Zero stays zero. -/
theorem scale_zero (law : Rat → Rat) (c t : Interval) : (Metric.scaleWith law ⟨0, c⟩ t).value = 0 := by
  rw [scaleWith_value]
  have : ((0 : Rat) * law (periods c t)).abs ≤ decimalMax := by rw [Rat.zero_mul]; decide
  rw [scaleVal_eq this, Rat.zero_mul]

/-- **Monotone.** Scaling two values from the same interval to the same target keeps their order
(same proviso about the lower one). -/
theorem scale_mono (law : Rat → Rat) (v1 v2 : Rat) (c t : Interval) (hl : 0 ≤ law (periods c t))
    (h : v1 ≤ v2) (hlo : decimalMin ≤ v1 * law (periods c t)) :
    (Metric.scaleWith law ⟨v1, c⟩ t).value ≤ (Metric.scaleWith law ⟨v2, c⟩ t).value :=
  scaleVal_mono hl h hlo

/-- A longer target interval has at least as many periods … -/
theorem periods_mono_target {c t1 t2 : Interval} (h : t1.secs.abs ≤ t2.secs.abs) :
    periods c t1 ≤ periods c t2 := BarterModel.Metrics.periods_mono_target h

/-- … and a non-negative value scaled to it is at least as large (law monotone and non-negative at
the two factors; saturation included). -/
theorem scale_mono_target (law : Rat → Rat) (v : Rat) (c t1 t2 : Interval) (hv : 0 ≤ v)
    (h0 : 0 ≤ law (periods c t1)) (hl : law (periods c t1) ≤ law (periods c t2)) :
    (Metric.scaleWith law ⟨v, c⟩ t1).value ≤ (Metric.scaleWith law ⟨v, c⟩ t2).value :=
  scaleVal_mono_factor hv h0 hl

/-- **Why the root.** With IID returns, `n` periods have mean excess `n·(m − rf)` and deviation
`√n·σ`; the ratio of those is the one-period ratio times `√n`. For any `law` that is a root at `n`
(`law n · law n = n`, `law n ≠ 0`): `calculate` on the `n`-period quantities equals the one-period
value times `law n` — which is what `scale` multiplies by (`scale_value`). A statement about the
IDEAL root: `hroot` has no rational solution at a non-square `n`
(`sqrtApprox_not_exact_root_252`). -/
theorem sharpe_scaling_is_iid_consistent (law : Rat → Rat) (n rf m σ : Rat) (p q : Interval)
    (hroot : law n * law n = n) (hl : law n ≠ 0) (hσ : σ ≠ 0) :
    (SharpeRatio.calculate (rf * n) (m * n) (σ * law n) q).value =
      (SharpeRatio.calculate rf m σ p).value * law n := by
  have h1 : σ * law n ≠ 0 := by
    intro h
    rcases Rat.mul_eq_zero.mp h with h | h
    · exact hσ h
    · exact hl h
  simp only [SharpeRatio.calculate, h1, hσ, if_false]
  have e : m * n - rf * n = (m - rf) * (law n * law n) := by rw [hroot]; grind
  rw [e]
  grind

/-- Scaling to an interval without a whole second gives `0` (if `law 0 = 0`, as for `sqrt`, `id`). -/
theorem scale_zero_target (law : Rat → Rat) (h0 : law 0 = 0) (v : Rat) {c t : Interval}
    (hc : c.secs ≠ 0) (ht : t.secs = 0) : (Metric.scaleWith law ⟨v, c⟩ t).value = 0 := by
  rw [scaleWith_value]; simp only
  rw [periods_eq_div hc, ht, Rat.abs_zero, Rat.div_def, Rat.zero_mul, h0]; exact scaleVal_zero v

/-! ## 4. Saturation, and what it does to the zero-risk conventions

`value.checked_mul(scale).unwrap_or(Decimal::MAX)`: an overflowing product becomes `Decimal::MAX`
— also when the product is *negative*. -/

/-- Overflow in either direction yields `Decimal::MAX`. -/
theorem scale_saturates (law : Rat → Rat) (m : Metric) (t : Interval)
    (h : decimalMax < (m.value * law (periods m.interval t)).abs) :
    (m.scaleWith law t).value = decimalMax := scaleVal_sat h

/-- A negative value whose scaled product falls below `Decimal::MIN` is reported as `Decimal::MAX`:
the sign flips. -/
theorem scale_negative_overflow_flips_sign (law : Rat → Rat) (m : Metric) (t : Interval)
    (h : m.value * law (periods m.interval t) < decimalMin) :
    m.value * law (periods m.interval t) < 0 ∧ (m.scaleWith law t).value = decimalMax := by
  have hmin : decimalMin < 0 := by decide
  refine ⟨by grind, scale_saturates law m t ?_⟩
  have hneg : ¬ 0 ≤ m.value * law (periods m.interval t) := by grind
  unfold Rat.abs
  rw [if_neg hneg]
  have : decimalMin = -decimalMax := rfl
  grind

/-- `Decimal::MAX` ("very good") survives scaling by a factor ≥ 1 … -/
theorem scale_max_preserved (law : Rat → Rat) (c t : Interval) (h : 1 ≤ law (periods c t)) :
    (Metric.scaleWith law ⟨decimalMax, c⟩ t).value = decimalMax := by
  rw [scaleWith_value]
  rcases Rat.le_iff_lt_or_eq.mp h with h | h
  · exact scaleVal_max_of_one_lt h
  · simp only; rw [← h]; exact scaleVal_one (by decide)

/-- … but is **lost** when the factor is below 1 (target interval shorter than the current one):
the result is the finite number `MAX · factor < MAX`. -/
theorem scale_max_lost (law : Rat → Rat) (c t : Interval) (h0 : 0 ≤ law (periods c t))
    (h : law (periods c t) < 1) :
    (Metric.scaleWith law ⟨decimalMax, c⟩ t).value = decimalMax * law (periods c t) ∧
    (Metric.scaleWith law ⟨decimalMax, c⟩ t).value < decimalMax := by
  have e : (Metric.scaleWith law ⟨decimalMax, c⟩ t).value = decimalMax * law (periods c t) := by
    rw [scaleWith_value]
    exact scaleVal_sentinel_of_le_one (show decimalMax.abs = decimalMax by decide) h0 (by grind)
  refine ⟨e, ?_⟩
  rw [e]
  have := Rat.mul_lt_mul_of_pos_left h decimalMax_pos
  rwa [Rat.mul_one] at this

/-- `Decimal::MIN` ("very bad") scaled by a factor > 1 (target interval longer than the current
one) becomes `Decimal::MAX` ("very good"). -/
theorem scale_min_becomes_max (law : Rat → Rat) (c t : Interval) (h : 1 < law (periods c t)) :
    (Metric.scaleWith law ⟨decimalMin, c⟩ t).value = decimalMax := by
  rw [scaleWith_value]; exact scaleVal_min_of_one_lt h

/-- With a factor in `[0, 1]` `Decimal::MIN` becomes the finite number `MIN · factor`. -/
theorem scale_min_shrinks (law : Rat → Rat) (c t : Interval) (h0 : 0 ≤ law (periods c t))
    (h : law (periods c t) ≤ 1) :
    (Metric.scaleWith law ⟨decimalMin, c⟩ t).value = decimalMin * law (periods c t) := by
  rw [scaleWith_value]; exact scaleVal_sentinel_of_le_one (show decimalMin.abs = decimalMax by decide) h0 h

/-- What `calculate(..).scale(..)` — the composition `TearSheetGenerator::generate` uses — does to
the documented special case "negative excess returns with no downside risk (very bad)": with a
factor above 1 the Sortino and Calmar ratios come out as `Decimal::MAX`, the value documented for
"positive excess returns with no downside risk (very good)". -/
theorem very_bad_reported_as_very_good (sqrtFn : Rat → Rat) (rf m : Rat) (p t : Interval)
    (hm : m < rf) (h : 1 < sqrtFn (periods p t)) :
    (SortinoRatio.scale sqrtFn (SortinoRatio.calculate rf m 0 p) t).value = decimalMax ∧
    (CalmarRatio.scale sqrtFn (CalmarRatio.calculate rf m 0 p) t).value = decimalMax ∧
    (specSortino rf m 0) = .negInf ∧ (specCalmar rf m 0) = .negInf := by
  have h1 : ¬ rf < m := by grind
  have hs : SortinoRatio.calculate rf m 0 p = ⟨decimalMin, p⟩ := by
    simp [SortinoRatio.calculate, h1, hm]
  have hc : CalmarRatio.calculate rf m 0 p = ⟨decimalMin, p⟩ := by
    simp [CalmarRatio.calculate, h1, hm]
  have e1 : ¬ 0 < m - rf := by grind
  have e2 : m - rf < 0 := by grind
  refine ⟨?_, ?_, ?_, ?_⟩
  · rw [hs]; exact scale_min_becomes_max sqrtFn p t h
  · rw [hc]; exact scale_min_becomes_max sqrtFn p t h
  · simp [specSortino, specRatio, e1, e2]
  · simp [specCalmar, specRatio, e1, e2]

/-! ## 5. `scale` against the documented intent

The spec (`Model/Metrics.lean`, second half) works with exact interval lengths and extended values:
`v ↦ v · law (B/A)`, `±∞ · k = ±∞` for `k > 0`. -/

/-- On intervals that are whole seconds (all the named ones, and every `TimeDelta` a user would
write in hours / days) a finite value that fits is scaled exactly as documented.
`_partial`: refinement of `scale` to the spec on this domain only. Missing, and stated separately:
other interval lengths (`periods_truncation_bounds`: bounded deviation), products that do not fit
(`scale_saturates`), and the sentinel inputs, where the refinement is *false*
(`scale_deviates_from_spec_on_min`, `scale_max_lost`). -/
theorem scale_refines_spec_partial (law : Rat → Rat) (v : Rat) {c t : Interval}
    (hc : c.interval % 1000 = 0) (ht : t.interval % 1000 = 0) (h0 : c.secs ≠ 0)
    (hfit : InRange (v * law (periods c t))) :
    specScaleSqrt law (.fin v) c t = some (.fin (Metric.scaleWith law ⟨v, c⟩ t).value) := by
  have hv : (Metric.scaleWith law ⟨v, c⟩ t).value = v * law (periods c t) := by
    rw [scaleWith_value]; exact scaleVal_eq hfit
  simp [specScaleSqrt, specPeriods_eq_of_whole hc ht h0, Ext.scaleBy, hv]

theorem ror_scale_refines_spec_partial (v : Rat) {c t : Interval}
    (hc : c.interval % 1000 = 0) (ht : t.interval % 1000 = 0) (h0 : c.secs ≠ 0)
    (hfit : InRange (v * periods c t)) :
    specScaleLinear (.fin v) c t = some (.fin (RateOfReturn.scale ⟨v, c⟩ t).value) := by
  have hv : (RateOfReturn.scale ⟨v, c⟩ t).value = v * periods c t := by
    rw [RateOfReturn.scale, scaleWith_value]; exact scaleVal_eq hfit
  simp [specScaleLinear, specPeriods_eq_of_whole hc ht h0, Ext.scaleBy, hv]

/-- For other intervals the code truncates both lengths to whole seconds; the documented number of
periods `n = B/A` then lies within `|T|/(|S|+1) ≤ n < (|T|+1)/|S|` of the `|T|/|S|` the code uses
(for a trading period of days the relative deviation is below 10⁻⁵). -/
theorem periods_truncation_bounds {c t : Interval} (h0 : c.secs ≠ 0) :
    ∃ n, specPeriods c t = some n ∧
      t.secs.abs / (c.secs.abs + 1) ≤ n ∧ n < (t.secs.abs + 1) / c.secs.abs :=
  specPeriods_bounds h0

/-- The documented intent for the zero-risk conventions: an "infinitely good / bad" ratio stays so
under a positive factor … -/
theorem spec_preserves_infinities (law : Rat → Rat) {c t : Interval} (n : Rat)
    (hn : specPeriods c t = some n) (hk : law n ≠ 0) :
    specScaleSqrt law .posInf c t = some .posInf ∧ specScaleSqrt law .negInf c t = some .negInf := by
  simp [specScaleSqrt, hn, Ext.scaleBy, hk]

/-- … which the code does not do: on whole-second intervals with a factor above 1 the spec keeps
`−∞` (reported as `Decimal::MIN`) while `scale` returns `Decimal::MAX`. The spec driver is silent
on sentinel inputs for this reason (see `props/C16M.py`). -/
theorem scale_deviates_from_spec_on_min (law : Rat → Rat) {c t : Interval}
    (hc : c.interval % 1000 = 0) (ht : t.interval % 1000 = 0) (h0 : c.secs ≠ 0)
    (h : 1 < law (periods c t)) :
    (specScaleSqrt law .negInf c t).map Ext.toDecimal = some decimalMin ∧
    (Metric.scaleWith law ⟨decimalMin, c⟩ t).value = decimalMax ∧ decimalMin ≠ decimalMax := by
  have hk : law (periods c t) ≠ 0 := by grind
  refine ⟨?_, scale_min_becomes_max law c t h, by decide⟩
  rw [(spec_preserves_infinities law (periods c t) (specPeriods_eq_of_whole hc ht h0) hk).2]
  rfl

/-! ## 6. The tear sheet of a history

`sheetOf f t0 ps rf iv`: `TearSheetGenerator::init(t0)`, one `update_from_position` per element of
`ps` (oldest first), then `generate(rf, iv)`. `f` is the square root (both `Dispersion::update`'s and
`scale`'s). -/

def sheetOf (f : Rat → Rat) (t0 : Int) (ps : List Exit) (rf : Rat) (iv : Interval) : Sheet :=
  ((Gen.run f (Gen.init t0) ps).generate f rf iv).2

/-- The maximum drawdown of the cumulative-PnL curve of a history (`0` when there is none). -/
def maxDrawdownOf (ps : List Exit) : Rat :=
  ((Drawdown.specMax (Drawdown.reported (specCurve ps))).map (·.value)).getD 0

/-- **Refinement.** For every history, risk-free return and target interval, the generated sheet
holds: the summed PnL; and for each of the four metrics `calculate` — i.e. (by §2) the documented
quotient / convention — of the whole-dataset mean return, the whole-dataset population standard
deviation of all returns (Sharpe) resp. of the negative returns (Sortino), the maximum drawdown of
the cumulative PnL curve (Calmar), over the trading period `max(now − start, 1 s)`, then `scale`d to
the requested interval; and the drawdown report of C18.
True of the total function `sheetOf` for every history; on a history with a zero-cost position the
code panics instead (`sheet_panics_iff`), and the statement about what the code REPORTS is
`sheet_checked_refines` (§7). The "maximum drawdown" is C18's, which mirrors the code on curves without
a positive peak: see §9 for what that means for Calmar. -/
theorem sheet_refines (f : Rat → Rat) (t0 : Int) (ps : List Exit) (rf : Rat) (iv : Interval) :
    let sh := sheetOf f t0 ps rf iv
    let period := specTradingPeriod t0 ps
    let m := specMetrics f rf ps (maxDrawdownOf ps)
    sh.pnl = TearSheet.specPnl (ps.map (·.closed)) ∧
    sh.pnlReturn = RateOfReturn.scale ⟨m.pnlReturn.toDecimal, period⟩ iv ∧
    sh.sharpeRatio = SharpeRatio.scale f ⟨m.sharpe.toDecimal, period⟩ iv ∧
    sh.sortinoRatio = SortinoRatio.scale f ⟨m.sortino.toDecimal, period⟩ iv ∧
    sh.calmarRatio = CalmarRatio.scale f ⟨m.calmar.toDecimal, period⟩ iv ∧
    sh.drawdowns = ⟨(Drawdown.decompose (specCurve ps)).2,
      Drawdown.specMean (Drawdown.reported (specCurve ps)),
      Drawdown.specMax (Drawdown.reported (specCurve ps))⟩ := by
  obtain ⟨_, hp, ht, hl, hpnl, hs⟩ := run_init f t0 ps
  obtain ⟨g1, g2, g3, g4, g5, g6⟩ := generate_fields f (Gen.run f (Gen.init t0) ps) rf iv
  have hrep := Props.C18.first_generate_report (specCurve ps)
  have mk : ∀ m : Metric, m = ⟨m.value, m.interval⟩ := fun m => rfl
  simp only [sheetOf, specMetrics]
  refine ⟨by rw [g1, hpnl], ?_, ?_, ?_, ?_, ?_⟩
  · rw [g2, hp, ht]; rfl
  · rw [g3, hp, ht, specSummary_mean, specSummary_stdDev,
      mk (SharpeRatio.calculate _ _ _ _), (sharpe_calculate_refines _ _ _ _).1,
      (sharpe_calculate_refines _ _ _ _).2]
  · rw [g4, hp, ht, hl, specSummary_mean, specSummary_stdDev,
      mk (SortinoRatio.calculate _ _ _ _), (sortino_calculate_refines _ _ _ _).1,
      (sortino_calculate_refines _ _ _ _).2]
  · rw [g5, hp, ht, hs, hrep, specSummary_mean,
      mk (CalmarRatio.calculate _ _ _ _), (calmar_calculate_refines _ _ _ _).1,
      (calmar_calculate_refines _ _ _ _).2]
    rfl
  · rw [g6, hs, hrep]

/-- The trading period always has at least one whole second, so `generate` never takes the
`unwrap_or(Decimal::MAX)` branch of the factor: it is `|target secs| / period secs`. -/
theorem sheet_factor (t0 : Int) (ps : List Exit) (iv : Interval) :
    (∃ k : Int, 1 ≤ k ∧ (specTradingPeriod t0 ps).secs = (k : Rat)) ∧
    periods (specTradingPeriod t0 ps) iv = iv.secs.abs / (specTradingPeriod t0 ps).secs.abs :=
  ⟨tradingPeriod_secs t0 ps, periods_eq_div (tradingPeriod_secs_ne_zero t0 ps)⟩

/-- Closed form of the tear sheet's Sharpe ratio when the returns have dispersion and the product
fits: `(mean − rf) / σ · sqrt(|target secs| / period secs)`. -/
theorem sheet_sharpe_value (f : Rat → Rat) (t0 : Int) (ps : List Exit) (rf : Rat) (iv : Interval)
    (hσ : specStdDev f (returns ps) ≠ 0)
    (hfit : InRange ((DataSet.specMean (returns ps) - rf) / specStdDev f (returns ps) *
      f (iv.secs.abs / (specTradingPeriod t0 ps).secs.abs))) :
    (sheetOf f t0 ps rf iv).sharpeRatio.value =
      (DataSet.specMean (returns ps) - rf) / specStdDev f (returns ps) *
        f (iv.secs.abs / (specTradingPeriod t0 ps).secs.abs) := by
  have h := (sheet_refines f t0 ps rf iv).2.2.1
  rw [h]
  simp only [specMetrics, specSharpe, hσ, if_false, Ext.toDecimal]
  exact scale_value f _ (tradingPeriod_secs_ne_zero t0 ps) hfit

/-- Closed form of the tear sheet's rate of return: `mean · |target secs| / period secs`. -/
theorem sheet_ror_value (f : Rat → Rat) (t0 : Int) (ps : List Exit) (rf : Rat) (iv : Interval)
    (hfit : InRange (DataSet.specMean (returns ps) *
      (iv.secs.abs / (specTradingPeriod t0 ps).secs.abs))) :
    (sheetOf f t0 ps rf iv).pnlReturn.value =
      DataSet.specMean (returns ps) * (iv.secs.abs / (specTradingPeriod t0 ps).secs.abs) := by
  have h := (sheet_refines f t0 ps rf iv).2.1
  rw [h]
  simp only [specMetrics, Ext.toDecimal]
  exact ror_scale_linear _ (tradingPeriod_secs_ne_zero t0 ps) hfit

/-- Win rate and profit factor of the full generator are the ones C16 specifies (of `sheetOf`; guarded
form in `sheet_checked_refines`, the excluded point in `zero_cost_exit_model_continues`). -/
theorem sheet_win_rate_profit_factor (f : Rat → Rat) (t0 : Int) (ps : List Exit) (rf : Rat)
    (iv : Interval) :
    (sheetOf f t0 ps rf iv).winRate = TearSheet.specWinRate (ps.map (·.closed)) ∧
    (sheetOf f t0 ps rf iv).profitFactor =
      (TearSheet.specProfitFactor (ps.map (·.closed))).toOption := by
  obtain ⟨c1, c2, c3, c4⟩ := counts_sums_eq_c16 f t0 ps
  have h := Props.C16.tear_sheet_refines_spec (ps.map (·.closed))
  have hw : (Props.C16.sheet (ps.map (·.closed))).winRate =
      TearSheet.specWinRate (ps.map (·.closed)) := by rw [h]; rfl
  have hp : (Props.C16.sheet (ps.map (·.closed))).profitFactor =
      (TearSheet.specProfitFactor (ps.map (·.closed))).toOption := by rw [h]; rfl
  constructor
  · rw [← hw]
    simp only [sheetOf, Gen.generate, Props.C16.sheet, TearSheet.TearSheetGenerator.generate, c1, c3]
  · rw [← hp]
    simp only [sheetOf, Gen.generate, Props.C16.sheet, TearSheet.TearSheetGenerator.generate, c2, c4]

/-- **Any interleaving.** Earlier `generate` calls (which mutate the drawdown mean / max
generators) do not influence PnL, rate of return, Sharpe, Sortino, win rate and profit factor of a
later one: after any sequence of `update_from_position` / `generate` calls these six fields are the
ones of the positions alone. (Calmar and the drawdown report read the mutated generators:
`sheet_refines` speaks about the first `generate`, as C18 does.) -/
theorem sheet_any_interleaving (f : Rat → Rat) (t0 : Int) (steps : List Step) (rf : Rat)
    (iv : Interval) :
    let sh := ((Gen.exec f (Gen.init t0) steps).generate f rf iv).2
    let sh' := sheetOf f t0 (positionsOf steps) rf iv
    sh.pnl = sh'.pnl ∧ sh.pnlReturn = sh'.pnlReturn ∧ sh.sharpeRatio = sh'.sharpeRatio ∧
    sh.sortinoRatio = sh'.sortinoRatio ∧ sh.winRate = sh'.winRate ∧
    sh.profitFactor = sh'.profitFactor :=
  generate_of_core f _ _ (core_exec f steps _ _ rfl) rf iv

/-- The documented special case "negative excess returns with no downside risk (very bad)" at the
tear-sheet level: whenever the history's mean return is below the risk-free return, its losing
returns have zero deviation (at most one losing position, or all losses equal) and the requested
interval is longer than the trading period by a factor whose root exceeds 1, the sheet's Sortino
ratio is `Decimal::MAX` — the value documented for "very good". -/
theorem sheet_sortino_very_bad_is_max (f : Rat → Rat) (t0 : Int) (ps : List Exit) (rf : Rat)
    (iv : Interval) (hmean : DataSet.specMean (returns ps) < rf)
    (hdev : specStdDev f (lossReturns ps) = 0)
    (hfac : 1 < f (periods (specTradingPeriod t0 ps) iv)) :
    (sheetOf f t0 ps rf iv).sortinoRatio.value = decimalMax ∧
    (specMetrics f rf ps (maxDrawdownOf ps)).sortino = .negInf := by
  have h := (sheet_refines f t0 ps rf iv).2.2.2.1
  have hv := very_bad_reported_as_very_good f rf (DataSet.specMean (returns ps))
    (specTradingPeriod t0 ps) iv hmean hfac
  have e : (specMetrics f rf ps (maxDrawdownOf ps)).sortino = .negInf := by
    simp only [specMetrics, hdev]; exact hv.2.2.1
  refine ⟨?_, e⟩
  rw [h, e]
  exact scale_min_becomes_max f _ _ hfac

/-! ## Non-vacuity

Concrete, non-trivial values satisfying the hypotheses used above (and the conclusions evaluated on
them), with the executable square root the drivers run (`DataSet.sqrtApprox`, √ truncated to 30
decimal places) and with the identity (the rate-of-return law). -/

section NonVacuity
/-- the executable root the drivers plug in -/
abbrev sqrtApprox : Rat → Rat := DataSet.sqrtApprox

def twoHours : Interval := .delta 7200000
def eightHours : Interval := .delta 28800000
def tenDays : Interval := .delta 864000000

example : InRange ((5 : Rat) / 100 * 252) := by decide +kernel
example : twoHours.secs ≠ 0 ∧ eightHours.secs ≠ 0 ∧ tenDays.secs ≠ 0 := by decide +kernel
example : twoHours.interval % 1000 = 0 ∧ Interval.annual365.interval % 1000 = 0 := by decide
/-- the unit tests' custom intervals: 2 h → 8 h is a factor 4, whose root is 2 -/
example : periods twoHours eightHours = 4 ∧ sqrtApprox 4 = 2 ∧ sqrtApprox 1 = 1 ∧ sqrtApprox 0 = 0 := by
  decide +kernel
example : (SortinoRatio.scale sqrtApprox ⟨5 / 100, twoHours⟩ eightHours).value = 1 / 10 := by
  decide +kernel
/-- `scale_scale` / `scale_round_trip`: the law is multiplicative at the factors involved
(2 h → 8 h → 72 h: 4 · 9 = 36), and the intermediate value fits -/
example : sqrtApprox (4 * 9) = sqrtApprox 4 * sqrtApprox 9 ∧
    sqrtApprox (4 * (1 / 4)) = sqrtApprox 4 * sqrtApprox (1 / 4) ∧
    InRange ((5 : Rat) / 100 * sqrtApprox 4) := by decide +kernel
example : ((Metric.scaleWith sqrtApprox ⟨5 / 100, twoHours⟩ eightHours).scaleWith sqrtApprox
    (.delta 259200000)) = ⟨3 / 10, .delta 259200000⟩ := by decide +kernel
/-- `sharpe_scaling_is_iid_consistent`: the executable root is an exact root at 4 -/
example : sqrtApprox 4 * sqrtApprox 4 = 4 ∧ sqrtApprox 4 ≠ 0 := by decide +kernel
/-- factor above / below one -/
example : 1 < sqrtApprox (periods tenDays .annual365) ∧
    0 ≤ sqrtApprox (periods .annual365 .daily) ∧ sqrtApprox (periods .annual365 .daily) < 1 := by
  decide +kernel
/-- the unit-test special cases of `calculate` -/
example : (SharpeRatio.calculate (1 / 1000) (2 / 1000) 0 twoHours).value = decimalMax ∧
    (SortinoRatio.calculate (2 / 1000) (1 / 1000) 0 .daily).value = decimalMin ∧
    (CalmarRatio.calculate (1 / 1000) (1 / 1000) 0 .daily).value = 0 ∧
    (CalmarRatio.calculate (1 / 1000) (2 / 1000) (-15 / 1000) .daily).value = 1 / 15 := by
  decide +kernel

/-- a history: +10 %, −20 %, +20 %, −5 %, +30 % over five days, engine started at `t = 1 s` -/
def history : List Exit :=
  [⟨86401000, ⟨10, 100, 1⟩⟩, ⟨172801000, ⟨-20, 100, 1⟩⟩, ⟨259201000, ⟨20, 100, 1⟩⟩,
   ⟨345601000, ⟨-5, 100, 1⟩⟩, ⟨432001000, ⟨30, 100, 1⟩⟩]

example : specTradingPeriod 1000 history = .delta 432000000 := by decide +kernel
example : DataSet.specMean (returns history) = 7 / 100 ∧ lossReturns history = [-1 / 5, -1 / 20] ∧
    specStdDev sqrtApprox (returns history) ≠ 0 ∧ maxDrawdownOf history = 2 := by decide +kernel
example : (sheetOf sqrtApprox 1000 history (15 / 10000) .daily).pnlReturn.value = 7 / 500 := by
  decide +kernel

/-- `sheet_sortino_very_bad_is_max`: one losing position after ten days, annualised -/
def oneLoss : List Exit := [⟨864000000, ⟨-5, 100, 1⟩⟩]

example : DataSet.specMean (returns oneLoss) < 0 ∧ specStdDev sqrtApprox (lossReturns oneLoss) = 0 ∧
    1 < sqrtApprox (periods (specTradingPeriod 0 oneLoss) .annual365) := by decide +kernel
example : (sheetOf sqrtApprox 0 oneLoss 0 .annual365).sortinoRatio.value = decimalMax ∧
    (sheetOf sqrtApprox 0 oneLoss 0 .annual365).pnlReturn.value < 0 := by decide +kernel

end NonVacuity

/-! ## 7. Where the code panics: the checked tear sheet

`sheetOf` (§6) is a total function: on a closed position with a zero cost of investment
(`price_entry_average * quantity_abs_max = 0`) it goes on with `pnl / 0 = 0`. The code panics there
(`calculate_pnl_return`, a plain `Decimal` division). The theorems of §6 are true of `sheetOf` for
every history, but on such a history they do not describe anything the code reports.
`sheetChecked` is the function with the panic explicit (`none`); it is what the drivers run. -/

/-- `TearSheetGenerator::init(t0)`, one `update_from_position` per element, `generate(rf, iv)` —
`none` when one of the updates panics. -/
def sheetChecked (f : Rat → Rat) (t0 : Int) (ps : List Exit) (rf : Rat) (iv : Interval) :
    Option Sheet :=
  (Gen.runChecked f (Gen.init t0) ps).map fun g => (g.generate f rf iv).2

/-- The cost of investment of a closed position: the divisor of `calculate_pnl_return`. -/
def costOf (p : Exit) : Rat := p.closed.priceEntryAverage * p.closed.quantityAbsMax

/-- The checked function is the unchecked one guarded by "no position of the history panics". -/
theorem sheetChecked_eq (f : Rat → Rat) (t0 : Int) (ps : List Exit) (rf : Rat) (iv : Interval) :
    sheetChecked f t0 ps rf iv =
      if ps.any Exit.panics then none else some (sheetOf f t0 ps rf iv) := by
  rw [sheetChecked, runChecked_eq]
  split <;> rfl

/-- **Exactly when the code panics**: some closed position of the history has a zero cost of
investment (zero average entry price or zero maximum quantity). -/
theorem sheet_panics_iff (f : Rat → Rat) (t0 : Int) (ps : List Exit) (rf : Rat) (iv : Interval) :
    sheetChecked f t0 ps rf iv = none ↔ ∃ p ∈ ps, costOf p = 0 := by
  rw [sheetChecked, Option.map_eq_none_iff, runChecked_none_iff]
  constructor
  · rintro ⟨p, hp, h⟩; exact ⟨p, hp, (Exit.panics_iff p).mp h⟩
  · rintro ⟨p, hp, h⟩; exact ⟨p, hp, (Exit.panics_iff p).mpr h⟩

/-- … i.e. a factor of the cost is zero. -/
theorem cost_zero_iff (p : Exit) :
    costOf p = 0 ↔ p.closed.priceEntryAverage = 0 ∨ p.closed.quantityAbsMax = 0 := Rat.mul_eq_zero

/-- The same for any sequence of `update_from_position` / `generate` calls (what the model driver
folds): it panics iff one of the positions has a zero cost; otherwise it is `Gen.exec`. -/
theorem exec_panics_iff (f : Rat → Rat) (g : Gen) (steps : List Step) :
    (Gen.execChecked f g steps = none ↔ ∃ p ∈ positionsOf steps, costOf p = 0) ∧
    (∀ g', Gen.execChecked f g steps = some g' → g' = Gen.exec f g steps) := by
  rw [execChecked_eq]
  by_cases h : (positionsOf steps).any Exit.panics = true
  · rw [if_pos h]
    refine ⟨⟨fun _ => ?_, fun _ => rfl⟩, fun g' hg => by cases hg⟩
    obtain ⟨p, hp, hh⟩ := List.any_eq_true.mp h
    exact ⟨p, hp, (Exit.panics_iff p).mp hh⟩
  · rw [if_neg h]
    refine ⟨⟨fun h' => (by cases h'), ?_⟩, fun g' hg => (by cases hg; rfl)⟩
    rintro ⟨p, hp, hh⟩
    exact absurd (List.any_eq_true.mpr ⟨p, hp, (Exit.panics_iff p).mpr hh⟩) h

/-- **What the code reports, when it reports.** If the checked function returns a sheet, then no
position had a zero cost, every return the statistics were fed is a genuine quotient
(`retOf p · cost = pnl` with `cost ≠ 0` — no `x / 0` anywhere), and the sheet is the one all theorems
of §6 speak about: the ten fields of `sheet_refines` and `sheet_win_rate_profit_factor`. -/
theorem sheet_checked_refines (f : Rat → Rat) (t0 : Int) (ps : List Exit) (rf : Rat) (iv : Interval)
    (sh : Sheet) (h : sheetChecked f t0 ps rf iv = some sh) :
    (∀ p ∈ ps, costOf p ≠ 0 ∧ retOf p * costOf p = p.closed.pnlRealised) ∧
    sh = sheetOf f t0 ps rf iv ∧
    (let period := specTradingPeriod t0 ps
     let m := specMetrics f rf ps (maxDrawdownOf ps)
     sh.pnl = TearSheet.specPnl (ps.map (·.closed)) ∧
     sh.pnlReturn = RateOfReturn.scale ⟨m.pnlReturn.toDecimal, period⟩ iv ∧
     sh.sharpeRatio = SharpeRatio.scale f ⟨m.sharpe.toDecimal, period⟩ iv ∧
     sh.sortinoRatio = SortinoRatio.scale f ⟨m.sortino.toDecimal, period⟩ iv ∧
     sh.calmarRatio = CalmarRatio.scale f ⟨m.calmar.toDecimal, period⟩ iv ∧
     sh.drawdowns = ⟨(Drawdown.decompose (specCurve ps)).2,
       Drawdown.specMean (Drawdown.reported (specCurve ps)),
       Drawdown.specMax (Drawdown.reported (specCurve ps))⟩ ∧
     sh.winRate = TearSheet.specWinRate (ps.map (·.closed)) ∧
     sh.profitFactor = (TearSheet.specProfitFactor (ps.map (·.closed))).toOption) := by
  have hnone : ¬ sheetChecked f t0 ps rf iv = none := by rw [h]; simp
  rw [sheet_panics_iff] at hnone
  have hcost : ∀ p ∈ ps, costOf p ≠ 0 := fun p hp hz => hnone ⟨p, hp, hz⟩
  have hany : ps.any Exit.panics = false := by
    apply Bool.eq_false_iff.mpr
    intro ht
    obtain ⟨p, hp, hh⟩ := List.any_eq_true.mp ht
    exact hcost p hp ((Exit.panics_iff p).mp hh)
  rw [sheetChecked_eq, hany] at h
  simp only [Bool.false_eq_true, if_false, Option.some.injEq] at h
  subst h
  refine ⟨fun p hp => ⟨hcost p hp, ?_⟩, rfl, ?_⟩
  · exact Rat.div_mul_cancel (hcost p hp)
  · obtain ⟨h1, h2, h3, h4, h5, h6⟩ := sheet_refines f t0 ps rf iv
    obtain ⟨w1, w2⟩ := sheet_win_rate_profit_factor f t0 ps rf iv
    exact ⟨h1, h2, h3, h4, h5, h6, w1, w2⟩

/-- the excluded point: one closed position with PnL 5 bought at an average price of 0 -/
def zeroCostExit : Exit := ⟨1000, ⟨5, 0, 1⟩⟩

/-- **Witness at the excluded point.** On `[zeroCostExit]` the unchecked model goes on — the return is
`5 / 0 = 0`, the position is not a loss, the win rate is `some 1`, the rate of return `0`, whatever
the root function is — where the code panics (`pos 1000 5 0 1`: the harness prints `panic`); the
checked function says so. -/
theorem zero_cost_exit_model_continues (f : Rat → Rat) (t0 : Int) (rf : Rat) (iv : Interval) :
    retOf zeroCostExit = 0 ∧
    (sheetOf f t0 [zeroCostExit] rf iv).winRate = some 1 ∧
    (sheetOf f t0 [zeroCostExit] rf iv).pnl = 5 ∧
    (sheetOf f t0 [zeroCostExit] rf iv).pnlReturn.value = 0 ∧
    zeroCostExit.panics = true ∧
    sheetChecked f t0 [zeroCostExit] rf iv = none := by
  obtain ⟨h1, h2, _⟩ := sheet_refines f t0 [zeroCostExit] rf iv
  obtain ⟨w1, _⟩ := sheet_win_rate_profit_factor f t0 [zeroCostExit] rf iv
  refine ⟨by decide +kernel, ?_, ?_, ?_, by decide +kernel, ?_⟩
  · rw [w1]; decide +kernel
  · rw [h1]; decide +kernel
  · rw [h2]
    have e : (specMetrics f rf [zeroCostExit] (maxDrawdownOf [zeroCostExit])).pnlReturn.toDecimal = 0 := by
      simp only [specMetrics, Ext.toDecimal]; decide +kernel
    rw [e]; exact scale_zero id _ iv
  · rw [sheet_panics_iff]; exact ⟨zeroCostExit, by simp, by decide +kernel⟩

/-! ## 8. The ideal root and the root that is computed

`scale_scale`, `scale_round_trip` (§3) and `sharpe_scaling_is_iid_consistent` need `law` to be
multiplicative resp. an exact root at the factors involved. They are laws of the IDEAL square root
(and of the identity, i.e. of `RateOfReturn`): no rational-valued function is an exact root at a
non-square factor such as 252, and neither `Decimal::sqrt` nor the drivers' `sqrtApprox` is
multiplicative at `Daily ↔ Annual252`. For an arbitrary `law` this section states what two
successive `scale` calls compute, bounds the round-trip error for every `law` that is a root up to
`ε` from below, instantiates the bound for the drivers' root, and records the counterexamples. -/

/-- **Scale then scale, no assumption on the law**: `A → B → C` multiplies by
`law (B/A) · law (C/B)` (both products fitting). -/
theorem scale_scale_value (law : Rat → Rat) (v : Rat) (a b c : Interval)
    (hfit1 : InRange (v * law (periods a b)))
    (hfit2 : InRange (v * law (periods a b) * law (periods b c))) :
    (Metric.scaleWith law ⟨v, a⟩ b).scaleWith law c =
      ⟨v * law (periods a b) * law (periods b c), c⟩ := by
  have hv : ((Metric.scaleWith law ⟨v, a⟩ b).scaleWith law c).value =
      v * law (periods a b) * law (periods b c) := by
    rw [scaleWith_value, scaleWith_value, scaleWith_interval]
    simp only
    rw [scaleVal_eq hfit1, scaleVal_eq hfit2]
  have hi : ((Metric.scaleWith law ⟨v, a⟩ b).scaleWith law c).interval = c := rfl
  generalize (Metric.scaleWith law ⟨v, a⟩ b).scaleWith law c = m at hv hi
  cases m; simp_all

/-- `law` approximates the square root of `x` from below within `ε`:
`0 ≤ law x`, `(law x)² ≤ x < (law x + ε)²`. (`Decimal::sqrt` and the drivers' `sqrtApprox` are of
this kind; the ideal root is the case `ε = 0`, which no rational function meets at a non-square.) -/
def RootWithin (law : Rat → Rat) (ε x : Rat) : Prop :=
  0 ≤ law x ∧ law x * law x ≤ x ∧ x < (law x + ε) * (law x + ε)

/-- **Round trip with an approximate root.** For every `law` that is a root within `ε` at the two
reciprocal factors, `A → B → A` returns `v · law(B/A) · law(A/B)`; that product of roots lies in
`(1 − ε·(law(B/A) + law(A/B) + ε), 1]`, so the round trip never increases `|v|` and deviates from `v`
by at most `|v| · ε · (law(B/A) + law(A/B) + ε)`. -/
theorem scale_round_trip_error (law : Rat → Rat) (ε : Rat) (hε : 0 ≤ ε) (v : Rat) {a b : Interval}
    (ha : a.secs ≠ 0) (hb : b.secs ≠ 0)
    (hr1 : RootWithin law ε (periods a b)) (hr2 : RootWithin law ε (periods b a))
    (hfit : InRange (v * law (periods a b))) (hv : InRange v) :
    let k := law (periods a b) * law (periods b a)
    (Metric.scaleWith law ⟨v, a⟩ b).scaleWith law a = ⟨v * k, a⟩ ∧
    k ≤ 1 ∧ 1 - ε * (law (periods a b) + law (periods b a) + ε) < k ∧
    (v * k - v).abs ≤ v.abs * (ε * (law (periods a b) + law (periods b a) + ε)) := by
  obtain ⟨p1, p2, p3⟩ := hr1
  obtain ⟨q1, q2, q3⟩ := hr2
  obtain ⟨k1, k2⟩ := root_product_bounds p1 q1 hε p2 q2 p3 q3 (periods_inv ha hb)
  have k0 : 0 ≤ law (periods a b) * law (periods b a) := Rat.mul_nonneg p1 q1
  have hfit2 : InRange (v * law (periods a b) * law (periods b a)) := by
    unfold InRange at hv ⊢
    rw [Rat.mul_assoc, abs_mul', Rat.abs_of_nonneg k0]
    have := Rat.mul_le_mul_of_nonneg_left k1 (abs_nonneg' v)
    rw [Rat.mul_one] at this
    exact Rat.le_trans this hv
  refine ⟨?_, k1, k2, ?_⟩
  · rw [scale_scale_value law v a b a hfit hfit2, Rat.mul_assoc]
  · have e : v * (law (periods a b) * law (periods b a)) - v =
        v * (law (periods a b) * law (periods b a) - 1) := by grind
    rw [e, abs_mul']
    apply Rat.mul_le_mul_of_nonneg_left _ (abs_nonneg' v)
    rw [abs_le_iff]
    constructor <;> grind

/-- The drivers' root (`DataSet.sqrtApprox`, √ truncated to 30 places; error bound
`DataSet.sqrtApprox_spec`) is a root within `10⁻³⁰` at every non-negative argument … -/
theorem sqrtApprox_root_within (x : Rat) (hx : 0 ≤ x) :
    RootWithin DataSet.sqrtApprox (1 / (DataSet.sqrtScale : Rat)) x :=
  DataSet.sqrtApprox_spec x hx

/-- … hence the round trip through any interval, with the root the drivers run, deviates from `v` by
at most `|v| · 10⁻³⁰ · (√(B/A) + √(A/B) + 10⁻³⁰)`. -/
theorem sqrtApprox_round_trip_error (v : Rat) {a b : Interval} (ha : a.secs ≠ 0) (hb : b.secs ≠ 0)
    (hfit : InRange (v * DataSet.sqrtApprox (periods a b))) (hv : InRange v) :
    let ε : Rat := 1 / (DataSet.sqrtScale : Rat)
    let k := DataSet.sqrtApprox (periods a b) * DataSet.sqrtApprox (periods b a)
    (Metric.scaleWith DataSet.sqrtApprox ⟨v, a⟩ b).scaleWith DataSet.sqrtApprox a = ⟨v * k, a⟩ ∧
    (v * k - v).abs ≤
      v.abs * (ε * (DataSet.sqrtApprox (periods a b) + DataSet.sqrtApprox (periods b a) + ε)) := by
  have hε : (0 : Rat) ≤ 1 / (DataSet.sqrtScale : Rat) := by
    have := DataSet.sqrtScale_pos
    exact div_nonneg (by decide) (by grind)
  obtain ⟨h1, _, _, h4⟩ := scale_round_trip_error DataSet.sqrtApprox _ hε v ha hb
    (sqrtApprox_root_within _ (periods_nonneg a b)) (sqrtApprox_root_within _ (periods_nonneg b a))
    hfit hv
  exact ⟨h1, h4⟩

/-- **Counterexample to multiplicativity** (the hypothesis `hmul` of `scale_scale` /
`scale_round_trip`) for the drivers' root on the named intervals: `Daily → Annual252 → Daily` and
`Daily → Annual252 → Annual365`. -/
theorem sqrtApprox_not_multiplicative_D_A252 :
    sqrtApprox (periods .daily .annual252 * periods .annual252 .daily) ≠
      sqrtApprox (periods .daily .annual252) * sqrtApprox (periods .annual252 .daily) ∧
    sqrtApprox (periods .daily .annual252 * periods .annual252 .annual365) ≠
      sqrtApprox (periods .daily .annual252) * sqrtApprox (periods .annual252 .annual365) := by
  decide +kernel

/-- **Counterexample to the exact-root hypothesis** of `sharpe_scaling_is_iid_consistent`: the
drivers' root at 252 squares to strictly less than 252. -/
theorem sqrtApprox_not_exact_root_252 :
    sqrtApprox 252 * sqrtApprox 252 ≠ 252 ∧ sqrtApprox 252 * sqrtApprox 252 < 252 := by
  decide +kernel

/-- **The round trip deviates**: `⟨0.05, Daily⟩ → Annual252 → Daily` with the drivers' root is not
`⟨0.05, Daily⟩`; it is below it, by less than `10⁻³¹` (cf. `sqrtApprox_round_trip_error`). -/
theorem round_trip_deviates_witness :
    let rt := (Metric.scaleWith sqrtApprox ⟨5 / 100, .daily⟩ .annual252).scaleWith sqrtApprox .daily
    rt ≠ ⟨5 / 100, .daily⟩ ∧ rt.interval = .daily ∧ rt.value < 5 / 100 ∧
    5 / 100 - rt.value < 1 / 10 ^ 31 := by
  decide +kernel

/-! ## 9. Calmar on a history that never shows a profit

C18 documents drawdowns for curves with positive peaks. A cumulative-PnL curve that never rises above
zero has no such peak: the drawdown generators (and C18's decomposition, which mirrors them there)
report nothing, `generate` falls back to `MaxDrawdown(Drawdown::default())` = 0, `CalmarRatio::calculate`
takes its zero-risk branch, and for a losing history (`mean < risk-free`) returns `Decimal::MIN` —
which `scale` turns into `Decimal::MAX` as soon as the factor exceeds 1 (§4). -/

/-- All positions of `ps` closed without a profit. -/
def NoWin (ps : List Exit) : Prop := ∀ p ∈ ps, p.closed.pnlRealised ≤ 0

instance (ps : List Exit) : Decidable (NoWin ps) :=
  inferInstanceAs (Decidable (∀ p ∈ ps, p.closed.pnlRealised ≤ 0))

/-- A history whose cumulative PnL is never positive has no drawdown at all in the sheet, and its
"maximum drawdown of the cumulative PnL curve" is 0 — however much was lost. -/
theorem never_positive_curve_reports_no_drawdown (f : Rat → Rat) (t0 : Int) (ps : List Exit) (rf : Rat)
    (iv : Interval) (hcurve : ∀ q ∈ specCurve ps, q.v ≤ 0) :
    (sheetOf f t0 ps rf iv).drawdowns = ⟨none, none, none⟩ ∧ maxDrawdownOf ps = 0 := by
  have hd := decompose_nonpos _ (specCurve ps) (Nat.le_refl _) hcurve
  have hr : Drawdown.reported (specCurve ps) = [] := by simp [Drawdown.reported, hd]
  constructor
  · rw [(sheet_refines f t0 ps rf iv).2.2.2.2.2, hd, hr]; rfl
  · simp [maxDrawdownOf, hr, Drawdown.specMax]

/-- In particular a history without a single winning position. -/
theorem no_win_curve_never_positive (ps : List Exit) (h : NoWin ps) : ∀ q ∈ specCurve ps, q.v ≤ 0 :=
  specCurve_nonpos_of_no_win ps h

/-- **Strictly losing history ⇒ Calmar = `Decimal::MAX`** (the counterpart of
`sheet_sortino_very_bad_is_max`). Whenever the cumulative PnL never rises above zero, the mean return
is below the risk-free return and the requested interval is longer than the trading period by a factor
whose root exceeds 1, the sheet reports `calmar_ratio = Decimal::MAX` — the value documented for
"very good" — while the documented convention for that input is `−∞` (`Decimal::MIN`). -/
theorem sheet_calmar_strictly_losing_is_max (f : Rat → Rat) (t0 : Int) (ps : List Exit) (rf : Rat)
    (iv : Interval) (hcurve : ∀ q ∈ specCurve ps, q.v ≤ 0)
    (hmean : DataSet.specMean (returns ps) < rf)
    (hfac : 1 < f (periods (specTradingPeriod t0 ps) iv)) :
    (sheetOf f t0 ps rf iv).calmarRatio.value = decimalMax ∧
    (sheetOf f t0 ps rf iv).drawdowns.max = none ∧
    (specMetrics f rf ps (maxDrawdownOf ps)).calmar = .negInf := by
  obtain ⟨hdd, hmax⟩ := never_positive_curve_reports_no_drawdown f t0 ps rf iv hcurve
  have h := (sheet_refines f t0 ps rf iv).2.2.2.2.1
  have hv := very_bad_reported_as_very_good f rf (DataSet.specMean (returns ps))
    (specTradingPeriod t0 ps) iv hmean hfac
  have e : (specMetrics f rf ps (maxDrawdownOf ps)).calmar = .negInf := by
    simp only [specMetrics, hmax]; exact hv.2.2.2
  refine ⟨?_, by rw [hdd], e⟩
  rw [h, e]
  exact scale_min_becomes_max f _ _ hfac

/-- … and with a factor in `[0, 1]` (a target interval not longer than the trading period) the same
history reports the finite number `Decimal::MIN · factor`. -/
theorem sheet_calmar_strictly_losing_shrinks (f : Rat → Rat) (t0 : Int) (ps : List Exit) (rf : Rat)
    (iv : Interval) (hcurve : ∀ q ∈ specCurve ps, q.v ≤ 0)
    (hmean : DataSet.specMean (returns ps) < rf)
    (h0 : 0 ≤ f (periods (specTradingPeriod t0 ps) iv))
    (h1 : f (periods (specTradingPeriod t0 ps) iv) ≤ 1) :
    (sheetOf f t0 ps rf iv).calmarRatio.value =
      decimalMin * f (periods (specTradingPeriod t0 ps) iv) := by
  obtain ⟨_, hmax⟩ := never_positive_curve_reports_no_drawdown f t0 ps rf iv hcurve
  have h := (sheet_refines f t0 ps rf iv).2.2.2.2.1
  have hneg : ¬ 0 < DataSet.specMean (returns ps) - rf := by grind
  have hlt : DataSet.specMean (returns ps) - rf < 0 := by grind
  have e : (specMetrics f rf ps (maxDrawdownOf ps)).calmar = .negInf := by
    simp [specMetrics, hmax, specCalmar, specRatio, hneg, hlt]
  rw [h, e]
  exact scale_min_shrinks f _ _ h0 h1

/-- the reviewer's history: −5 % after one day, −10 % after two -/
def allLoss : List Exit := [⟨86400000, ⟨-5, 100, 1⟩⟩, ⟨172800000, ⟨-10, 100, 1⟩⟩]

/-- **Witness** (corpus/C16M `strictly-losing-calmar-max`; the harness prints `calmar MAX`,
`ddmax none`): two losing positions, annualised, with the root the drivers run. PnL −15, rate of
return negative, no drawdown reported, Calmar ratio `Decimal::MAX`. -/
theorem calmar_strictly_losing_witness :
    NoWin allLoss ∧ maxDrawdownOf allLoss = 0 ∧
    (sheetOf sqrtApprox 0 allLoss 0 .annual365).pnl = -15 ∧
    (sheetOf sqrtApprox 0 allLoss 0 .annual365).pnlReturn.value < 0 ∧
    (sheetOf sqrtApprox 0 allLoss 0 .annual365).drawdowns = ⟨none, none, none⟩ ∧
    (sheetOf sqrtApprox 0 allLoss 0 .annual365).calmarRatio.value = decimalMax ∧
    sheetChecked sqrtApprox 0 allLoss 0 .annual365 = some (sheetOf sqrtApprox 0 allLoss 0 .annual365) := by
  refine ⟨by decide +kernel, by decide +kernel, by decide +kernel, by decide +kernel,
    by decide +kernel, by decide +kernel, ?_⟩
  rw [sheetChecked_eq, if_neg (by decide +kernel)]

/-- **Where the `Decimal` range ends** (an examined boundary, not modelled: DESIGN §3). `calculate`
computes `mean − risk_free` with a plain `Decimal` subtraction, which panics on overflow
(`calc sharpe -79228162514264337593543950335 79228162514264337593543950335 1 D`: the harness prints
`panic`, "Subtraction overflowed"); the exact model returns `2 · Decimal::MAX`, a value no `Decimal`
holds. The same class: `pnl_raw += pnl_realised` beyond the range, quotients beyond `Decimal::MAX` in
`checked_div(..).unwrap()`. The generators stay inside the range (`props/C16M.py` ASSUMPTIONS). -/
theorem calculate_excess_overflow_witness :
    (SharpeRatio.calculate decimalMin decimalMax 1 .daily).value = 2 * decimalMax ∧
    ¬ InRange (SharpeRatio.calculate decimalMin decimalMax 1 .daily).value := by
  decide +kernel

/-- **Tie to the source by translation.** `SharpeRatio` / `SortinoRatio` / `CalmarRatio` /
`RateOfReturn` `::{calculate, scale}`, the trait `TimeInterval` (as the record of its method
`interval`) and its implementors `Daily`, `Annual252`, `Annual365` are regenerated from the current
`barter/src/statistic/metric/{sharpe,sortino,calmar,rate_of_return}.rs` and `statistic/time.rs` by
`tools/rust2lean_sm.py` on every run (`Generated/Machines2.lean`, group `metrics`). Instantiated at
the model's closed `Interval` type with `dict = ⟨Interval.interval⟩`, every generated `calculate`
equals the model's for all arguments, and every generated `scale` equals the model's for all metrics
and targets, for every `decimal_sqrt` (rust_decimal's root, an untranslated parameter) returning `Some`
on non-negative arguments — on the overflow-free domain `MetricsSM.Fits` (the translator's
`checked_mul` never overflows; the model's saturation to `Decimal::MAX` beyond it, i.e. the branch of
`very_bad_reported_as_very_good`, is tied by correspondence only). The statement is that of
`KernelsAgree.MetricsSM.metrics_sm_agree` (Lemmas/KernelsAgree/MetricsSM.lean). -/
theorem kernels_agree_with_source :
    type_of% BarterModel.KernelsAgree.MetricsSM.metrics_sm_agree :=
  BarterModel.KernelsAgree.MetricsSM.metrics_sm_agree

end BarterModel.Props.C16M
