import BarterModel.Lemmas.Engine
/-!
# C03 — Order requests: sent ⇒ delivered once and in flight; refused/failed ⇒ neither

`Eng.log` is the list of requests delivered to execution links, in send order; the content of
exchange `x`'s channel is `deliveredTo x log`. Strategy output (`algoC`, `algoO`) and the risk
verdict (`refuse`) are universally quantified inputs of every tick; link fault patterns are the
arbitrary `links` table. **Partial** in one respect only: that an unbounded channel accepts a
send iff its receiver is alive and is FIFO is an assumption of the model (exercised by the
correspondence run against real tokio channels), not a theorem.
-/
namespace BarterModel.Props.C03
open BarterModel.Engine BarterModel.Orders

/-- what exchange `x`'s execution link received -/
def deliveredTo (x : Nat) (log : List Req) : List Req := log.filter (fun r => r.key.exchange = x)

/-- everything a tick reports as sent, in send order -/
def Audit.sentReqs (a : Audit) : List Req :=
  (match a.commanded with
    | some c => c.cancels.sent.map Req.cnl ++ c.opens.sent.map Req.opn
    | none => []) ++
  (match a.generated with
    | some g => g.cancels.sent.map Req.cnl ++ g.opens.sent.map Req.opn
    | none => [])

/-- (1) one kind of request: the requests reported `sent` are exactly those whose exchange has a
healthy link, in order; they are appended to the delivery log once each, and nothing else is;
the requests reported under `errors` are exactly the others, each with its error. -/
theorem send_requests_partition {α : Type} (e : Eng) (toReq : α → Req) (rs : List α) :
    let r := sendRequests e toReq rs
    r.1.log = e.log ++ r.2.sent.map toReq ∧
    r.2.sent = rs.filter (fun q => (linkResult e.links (toReq q).key.exchange).isNone) ∧
    (∀ q err, (q, err) ∈ r.2.errors ↔ q ∈ rs ∧ linkResult e.links (toReq q).key.exchange = some err) ∧
    r.1.instruments = e.instruments ∧ r.1.links = e.links := by
  refine ⟨rfl, rfl, ?_, rfl, rfl⟩
  intro q err
  simp only [sendRequests, List.mem_filterMap]
  constructor
  · rintro ⟨a, ha, h⟩
    split at h
    · rename_i err' he; injection h with h; injection h with h1 h2; subst h1; subst h2; exact ⟨ha, he⟩
    · cases h
  · rintro ⟨hq, he⟩
    exact ⟨q, hq, by simp [he]⟩

/-- (1) per exchange: each link receives exactly the sent requests addressed to it, in order, once. -/
theorem send_requests_per_exchange {α : Type} (e : Eng) (toReq : α → Req) (rs : List α) (x : Nat) :
    let r := sendRequests e toReq rs
    deliveredTo x r.1.log = deliveredTo x e.log ++ deliveredTo x (r.2.sent.map toReq) := by
  simp [deliveredTo, sendRequests, List.filter_append]

/-- (3) a request whose delivery failed carries an error, which is unrecoverable in both cases:
no link for the exchange / index out of range (`index`) or receiver gone (`terminated`). -/
theorem failed_error_kind (links : List Link) (x : Nat) (err : SendError)
    (h : linkResult links x = some err) :
    (err = .index ↔ (links[x]? = some .missing ∨ links[x]? = none)) ∧
    (err = .terminated ↔ links[x]? = some .closed) := by
  unfold linkResult at h
  cases hl : links[x]? with
  | none => simp [hl] at h; subst h; simp
  | some l => cases l <;> simp [hl] at h <;> subst h <;> simp

/-- (3) a failed request is not delivered: it is not among the requests appended to the log. -/
theorem failed_not_delivered {α : Type} (e : Eng) (toReq : α → Req) (rs : List α)
    (hinj : ∀ a b, toReq a = toReq b → a = b) (q : α) (err : SendError)
    (h : (q, err) ∈ (sendRequests e toReq rs).2.errors) :
    toReq q ∉ (sendRequests e toReq rs).2.sent.map toReq := by
  have hp := (send_requests_partition e toReq rs).2.2.1 q err |>.mp h
  intro hm
  obtain ⟨q', hq', heq⟩ := List.mem_map.mp hm
  have := hinj _ _ heq; subst this
  simp only [sendRequests, List.mem_filter] at hq'
  simp [hp.2] at hq'

theorem generateAlgoOrders_log (e0 : Eng) (algoC : List CancelReq) (algoO : List OpenReq)
    (refuse : Key → Bool) :
    (generateAlgoOrders e0 algoC algoO refuse).1.log =
      e0.log ++ ((generateAlgoOrders e0 algoC algoO refuse).2.cancels.sent.map Req.cnl ++
        (generateAlgoOrders e0 algoC algoO refuse).2.opens.sent.map Req.opn) := by
  simp only [generateAlgoOrders]
  rw [(recordOpens_log _ _).1, (recordCancels_log _ _).1]
  simp [sendRequests, List.append_assoc]

theorem action_log (e : Eng) (c : Command) :
    (action e c).1.log =
      e.log ++ ((action e c).2.cancels.sent.map Req.cnl ++ (action e c).2.opens.sent.map Req.opn) := by
  cases c <;> simp only [action] <;>
    simp [(recordOpens_log _ _).1, (recordCancels_log _ _).1, sendRequests, SendOut.empty]

theorem generateStage_log (e : Eng) (cmd : Option ActionOut) (algoC : List CancelReq)
    (algoO : List OpenReq) (refuse : Key → Bool) :
    (generateStage e cmd algoC algoO refuse).1.log = e.log ++
      (match (generateStage e cmd algoC algoO refuse).2.generated with
        | some g => g.cancels.sent.map Req.cnl ++ g.opens.sent.map Req.opn
        | none => []) ∧
    (generateStage e cmd algoC algoO refuse).2.commanded = cmd := by
  unfold generateStage
  split
  · exact ⟨generateAlgoOrders_log _ _ _ _, rfl⟩
  · simp

/-- One tick, whole engine (1): the delivery log grows by exactly the requests the tick reports as
sent (command output first, then algo output; cancels before opens), for every event, strategy
output, risk verdict, link table and trading state. -/
theorem process_delivers_exactly_sent (e : Eng) (ev : Event) (algoC : List CancelReq)
    (algoO : List OpenReq) (refuse : Key → Bool) :
    (process e ev algoC algoO refuse).1.log =
      e.log ++ Audit.sentReqs (process e ev algoC algoO refuse).2 := by
  cases ev with
  | shutdown => simp [process, Audit.sentReqs]
  | command c =>
    simp only [process]
    split
    · simp [Audit.sentReqs, action_log]
    · have h := generateStage_log (action e c).1 (some (action e c).2) algoC algoO refuse
      simp only [Audit.sentReqs, h.1, h.2, action_log, List.append_assoc]
  | tradingState on =>
    simp only [process]
    have h := generateStage_log (updateTradingState e on) none algoC algoO refuse
    have hl : (updateTradingState e on).log = e.log := by unfold updateTradingState; split <;> rfl
    simp only [Audit.sentReqs, h.1, h.2, hl, List.nil_append]
  | update u =>
    simp only [process]
    have h := generateStage_log (applyUpdate e u) none algoC algoO refuse
    have hu : (applyUpdate e u).log = e.log := by cases u <;> rfl
    simp only [Audit.sentReqs, h.1, h.2, hu, List.nil_append]

/-- (1) over any history of ticks: the log is exactly the concatenation of what each tick reported
as sent — nothing is ever delivered twice or delivered without being reported by
`generate_algo_orders` / `action`. -/
theorem run_delivers_exactly_sent (e : Eng)
    (ticks : List (Event × List CancelReq × List OpenReq × (Key → Bool))) :
    let step := fun (s : Eng × List Req) (t : Event × List CancelReq × List OpenReq × (Key → Bool)) =>
      let r := process s.1 t.1 t.2.1 t.2.2.1 t.2.2.2
      (r.1, s.2 ++ Audit.sentReqs r.2)
    (ticks.foldl step (e, [])).1.log = e.log ++ (ticks.foldl step (e, [])).2 := by
  intro step
  suffices H : ∀ (s : Eng × List Req), s.1.log = e.log ++ s.2 →
      (ticks.foldl step s).1.log = e.log ++ (ticks.foldl step s).2 by
    exact H (e, []) (by simp)
  induction ticks with
  | nil => intro s h; exact h
  | cons t ts ih =>
    intro s h
    simp only [List.foldl_cons]
    apply ih
    simp only [step]
    rw [process_delivers_exactly_sent, h, List.append_assoc]

theorem generateStage_audit (e : Eng) (cmd : Option ActionOut) (algoC : List CancelReq)
    (algoO : List OpenReq) (refuse : Key → Bool) (out : AlgoOut)
    (h : (generateStage e cmd algoC algoO refuse).2.algoInAudit = some out) :
    (generateStage e cmd algoC algoO refuse).2.generated = some out := by
  unfold generateStage at h ⊢
  split
  · rename_i hen
    simp only [hen, ↓reduceIte] at h
    split at h
    · cases h
    · simpa using h
  · rename_i hen
    simp [hen] at h

/-- (audit ⊆) what the audit shows as algo output is what `generate_algo_orders` returned. (When an
algo send fails fatally the audit carries the errors and omits the output although the healthy
part was delivered and marked — examined boundary F8, DESIGN §8: the property demands
"reported sent ⇒ delivered", which holds.) -/
theorem audit_algo_is_generated (e : Eng) (ev : Event) (algoC : List CancelReq)
    (algoO : List OpenReq) (refuse : Key → Bool) (out : AlgoOut)
    (h : (process e ev algoC algoO refuse).2.algoInAudit = some out) :
    (process e ev algoC algoO refuse).2.generated = some out := by
  cases ev with
  | shutdown => simp [process] at h
  | command c =>
    simp only [process] at h ⊢
    split at h
    · simp at h
    · rename_i hf; simp only [hf]; exact generateStage_audit _ _ _ _ _ _ h
  | tradingState on => exact generateStage_audit _ _ _ _ _ _ h
  | update u => exact generateStage_audit _ _ _ _ _ _ h

/-- (2) every open request reported sent by a `SendOpenRequests` command is shown in flight
afterwards. -/
theorem sent_open_in_flight_command (e : Eng) (rs : List OpenReq) (r : OpenReq)
    (hr : r ∈ (action e (.sendOpenRequests rs)).2.opens.sent)
    (hi : r.key.instrument < e.instruments.length) :
    orderState (action e (.sendOpenRequests rs)).1 r.key.instrument r.key.cid = some .inFlight := by
  simp only [action] at hr ⊢
  exact orderState_recordOpens_mem _ _ r hr (by simpa [sendRequests] using hi)

/-- (2) every cancel request reported sent by a `SendCancelRequests` command leaves the tracked
order it names cancel-in-flight (an untracked one stays untracked, as the code logs). -/
theorem sent_cancel_in_flight_command (e : Eng) (rs : List CancelReq) (r : CancelReq)
    (hr : r ∈ (action e (.sendCancelRequests rs)).2.cancels.sent) :
    match orderState e r.key.instrument r.key.cid with
    | some _ => ∃ x, orderState (action e (.sendCancelRequests rs)).1 r.key.instrument r.key.cid
        = some (.cancelInFlight x)
    | none => orderState (action e (.sendCancelRequests rs)).1 r.key.instrument r.key.cid = none := by
  simp only [action] at hr ⊢
  cases ha : orderState e r.key.instrument r.key.cid with
  | none => exact orderState_recordCancels_none _ _ _ _ (by simpa [orderState, sendRequests] using ha)
  | some a => exact orderState_recordCancels_mem _ _ r hr a (by simpa [orderState, sendRequests] using ha)

/-- (2) algo tick: every sent open is in flight afterwards; every sent cancel of a tracked order is
cancel-in-flight afterwards unless the same tick also sent an open re-using that very client
order id on that instrument (then the open's in-flight mark, recorded last, wins). -/
theorem sent_in_flight_algo (e : Eng) (cancels : List CancelReq) (opens : List OpenReq)
    (refuse : Key → Bool) :
    let r := generateAlgoOrders e cancels opens refuse
    (∀ o ∈ r.2.opens.sent, o.key.instrument < e.instruments.length →
      orderState r.1 o.key.instrument o.key.cid = some .inFlight) ∧
    (∀ c ∈ r.2.cancels.sent, (orderState e c.key.instrument c.key.cid).isSome = true →
      (∀ o ∈ r.2.opens.sent, ¬ (o.key.instrument = c.key.instrument ∧ o.key.cid = c.key.cid)) →
      ∃ x, orderState r.1 c.key.instrument c.key.cid = some (.cancelInFlight x)) := by
  intro r
  constructor
  · intro o ho hi
    simp only [r, generateAlgoOrders] at ho ⊢
    exact orderState_recordOpens_mem _ _ o ho (by rw [recordCancels_length]; simpa [sendRequests] using hi)
  · intro c hc htr hdis
    simp only [r, generateAlgoOrders] at hc hdis ⊢
    rw [orderState_recordOpens_other _ _ _ _ hdis]
    cases ha : orderState e c.key.instrument c.key.cid with
    | none => simp [ha] at htr
    | some a => exact orderState_recordCancels_mem _ _ c hc a (by simpa [orderState, sendRequests] using ha)

/-- (3)+(4) no in-flight mark without a send: an order `(i, c)` that no sent request of the tick
names keeps exactly its tracked state — in particular requests that failed or were refused by
the risk manager leave no mark. -/
theorem unsent_leaves_no_mark (e : Eng) (cancels : List CancelReq) (opens : List OpenReq)
    (refuse : Key → Bool) (i c : Nat) :
    let r := generateAlgoOrders e cancels opens refuse
    (∀ o ∈ r.2.opens.sent, ¬ (o.key.instrument = i ∧ o.key.cid = c)) →
    (∀ q ∈ r.2.cancels.sent, ¬ (q.key.instrument = i ∧ q.key.cid = c)) →
    orderState r.1 i c = orderState e i c := by
  intro r ho hq
  simp only [r, generateAlgoOrders] at ho hq ⊢
  rw [orderState_recordOpens_other _ _ _ _ ho]
  -- cancels not naming (i,c) leave it alone
  have : ∀ (qs : List CancelReq) (e0 : Eng), (∀ q ∈ qs, ¬ (q.key.instrument = i ∧ q.key.cid = c)) →
      orderState (recordCancels e0 qs) i c = orderState e0 i c := by
    intro qs
    induction qs with
    | nil => intro e0 _; rfl
    | cons q qs ih =>
      intro e0 h
      simp only [recordCancels, List.foldl_cons] at *
      rw [ih _ (fun x hx => h x (by simp [hx])), orderState_recordCancel]
      have := h q (by simp)
      split
      · rename_i hh; exact absurd ⟨hh.1.symm, hh.2.symm⟩ this
      · rfl
  rw [this _ _ hq]
  simp [orderState, sendRequests]

/-- (4) a request refused by the risk manager is reported as refused and is never delivered. -/
theorem refused_not_delivered (e : Eng) (cancels : List CancelReq) (opens : List OpenReq)
    (refuse : Key → Bool) :
    let r := generateAlgoOrders e cancels opens refuse
    r.2.cancelsRefused = cancels.filter (fun q => refuse q.key) ∧
    r.2.opensRefused = opens.filter (fun q => refuse q.key) ∧
    (∀ q ∈ r.2.cancels.sent, refuse q.key = false) ∧
    (∀ q ∈ r.2.opens.sent, refuse q.key = false) ∧
    r.1.log = e.log ++ (r.2.cancels.sent.map Req.cnl ++ r.2.opens.sent.map Req.opn) := by
  intro r
  refine ⟨rfl, rfl, ?_, ?_, ?_⟩
  · intro q hq
    simp only [r, generateAlgoOrders, sendRequests, List.mem_filter] at hq
    simpa using hq.1.2
  · intro q hq
    simp only [r, generateAlgoOrders, sendRequests, List.mem_filter] at hq
    simpa using hq.1.2
  · simp only [r, generateAlgoOrders]
    rw [(recordOpens_log _ _).1, (recordCancels_log _ _).1]
    simp [sendRequests, List.append_assoc]

theorem generateStage_generated (e : Eng) (cmd : Option ActionOut) (algoC : List CancelReq)
    (algoO : List OpenReq) (refuse : Key → Bool) :
    (generateStage e cmd algoC algoO refuse).2.generated =
      if e.enabled then some (generateAlgoOrders e algoC algoO refuse).2 else none := by
  unfold generateStage; split <;> rfl

theorem action_enabled (e : Eng) (c : Command) : (action e c).1.enabled = e.enabled := by
  cases c <;> simp [action, (recordOpens_log _ _).2.2, (recordCancels_log _ _).2.2, sendRequests]

/-- (5) while algorithmic trading is disabled the engine issues no strategy-generated requests
(for every event that leaves it disabled) … -/
theorem disabled_no_generation (e : Eng) (ev : Event) (algoC : List CancelReq)
    (algoO : List OpenReq) (refuse : Key → Bool) (hd : e.enabled = false)
    (hev : ev ≠ .tradingState true) :
    (process e ev algoC algoO refuse).2.generated = none := by
  cases ev with
  | shutdown => rfl
  | command c =>
    simp only [process]
    split
    · rfl
    · rw [generateStage_generated, action_enabled, hd]; rfl
  | tradingState on =>
    cases on with
    | true => exact absurd rfl hev
    | false =>
      simp only [process]
      rw [generateStage_generated]
      simp [updateTradingState, hd]
  | update u =>
    have : (applyUpdate e u).enabled = false := by cases u <;> simpa [applyUpdate] using hd
    simp only [process]
    rw [generateStage_generated, this]; rfl

/-- (5) … yet it still actions external commands (and state updates are applied: `process` on an
update event starts from `applyUpdate e u`) … -/
theorem disabled_still_actions_commands (e : Eng) (c : Command) (algoC : List CancelReq)
    (algoO : List OpenReq) (refuse : Key → Bool) :
    (process e (.command c) algoC algoO refuse).2.commanded = some (action e c).2 := by
  simp only [process]
  split
  · rfl
  · exact (generateStage_log _ _ _ _ _).2

/-- (5) … and re-enabling resumes generation on that very event. -/
theorem enable_generates_same_tick (e : Eng) (algoC : List CancelReq) (algoO : List OpenReq)
    (refuse : Key → Bool) :
    (process e (.tradingState true) algoC algoO refuse).2.generated =
      some (generateAlgoOrders { e with enabled := true } algoC algoO refuse).2 := by
  simp only [process]
  rw [generateStage_generated]
  simp [updateTradingState]

/-- (5) `Shutdown` and a fatal command error skip generation. -/
theorem shutdown_and_fatal_skip_generation (e : Eng) (algoC : List CancelReq) (algoO : List OpenReq)
    (refuse : Key → Bool) :
    (process e .shutdown algoC algoO refuse).2.generated = none ∧
    (process e .shutdown algoC algoO refuse).1.log = e.log ∧
    ∀ c, (action e c).2.fatal = true →
      (process e (.command c) algoC algoO refuse).2.generated = none ∧
      (process e (.command c) algoC algoO refuse).2.fatal = true := by
  refine ⟨rfl, rfl, ?_⟩
  intro c hf
  simp [process, hf]

/-- (3) which failures are fatal: the error of a failed request is unrecoverable exactly when the
link is gone (receiver dropped) or the exchange has no link (none configured / index out of range);
a transmitter that merely refuses the item gives a recoverable error. -/
theorem failed_fatal_iff (links : List Link) (x : Nat) (err : SendError)
    (h : linkResult links x = some err) :
    (err.unrecoverable = true ↔
      (links[x]? = some .closed ∨ links[x]? = some .missing ∨ links[x]? = none)) ∧
    (err = .unhealthy ↔ links[x]? = some .unhealthy) := by
  unfold linkResult at h
  cases hl : links[x]? with
  | none => simp [hl] at h; subst h; simp [SendError.unrecoverable]
  | some l => cases l <;> simp [hl] at h <;> subst h <;> simp [SendError.unrecoverable]

/-- (3) a send output is fatal exactly when one of its requests is addressed to an exchange whose
link is gone or absent. -/
theorem send_requests_fatal_iff {α : Type} (e : Eng) (toReq : α → Req) (rs : List α) :
    (sendRequests e toReq rs).2.fatal = true ↔
      ∃ q ∈ rs, e.links[(toReq q).key.exchange]? = some .closed ∨
        e.links[(toReq q).key.exchange]? = some .missing ∨ e.links[(toReq q).key.exchange]? = none := by
  simp only [SendOut.fatal, List.any_eq_true]
  constructor
  · rintro ⟨⟨q, err⟩, hm, hu⟩
    have hp := (send_requests_partition e toReq rs).2.2.1 q err |>.mp hm
    exact ⟨q, hp.1, (failed_fatal_iff _ _ _ hp.2).1.mp hu⟩
  · rintro ⟨q, hq, hl⟩
    cases hr : linkResult e.links (toReq q).key.exchange with
    | none =>
      unfold linkResult at hr
      rcases hl with hl | hl | hl <;> simp [hl] at hr
    | some err =>
      refine ⟨(q, err), (send_requests_partition e toReq rs).2.2.1 q err |>.mpr ⟨hq, hr⟩, ?_⟩
      exact (failed_fatal_iff _ _ _ hr).1.mpr hl

/-- (3)+(5) a command whose only failures are recoverable does not stop the tick: generation runs
on the state the command left, exactly as after a fully delivered command. -/
theorem recoverable_command_error_continues (e : Eng) (c : Command) (algoC : List CancelReq)
    (algoO : List OpenReq) (refuse : Key → Bool) (h : (action e c).2.fatal = false) :
    process e (.command c) algoC algoO refuse =
      generateStage (action e c).1 (some (action e c).2) algoC algoO refuse := by
  simp [process, h]

/-! Non-vacuity: a two-exchange engine where exchange 1's link is closed. -/
def demo : Eng :=
  { enabled := true, links := [.healthy, .closed], log := [],
    instruments := [⟨0, 0, 1, [], none, none⟩, ⟨1, 2, 3, [], none, none⟩], disabledCalls := 0 }
def o0 : OpenReq := ⟨⟨0, 0, 5⟩, .buy, 100, 1⟩
def o1 : OpenReq := ⟨⟨1, 1, 6⟩, .buy, 100, 1⟩
example : (generateAlgoOrders demo [] [o0, o1] (fun _ => false)).2.opens.sent = [o0] ∧
    (generateAlgoOrders demo [] [o0, o1] (fun _ => false)).2.opens.errors = [(o1, .terminated)] ∧
    (generateAlgoOrders demo [] [o0, o1] (fun _ => false)).1.log = [.opn o0] := by decide +kernel
example : orderState (generateAlgoOrders demo [] [o0, o1] (fun _ => false)).1 0 5 = some .inFlight ∧
    orderState (generateAlgoOrders demo [] [o0, o1] (fun _ => false)).1 1 6 = none := by decide +kernel

/-! Non-vacuity for the recoverable case: exchange 1's transmitter refuses items. -/
def demoU : Eng := { demo with links := [.healthy, .unhealthy] }
example : (generateAlgoOrders demoU [] [o0, o1] (fun _ => false)).2.opens.errors = [(o1, .unhealthy)] ∧
    (generateAlgoOrders demoU [] [o0, o1] (fun _ => false)).2.fatal = false ∧
    (generateAlgoOrders demoU [] [o0, o1] (fun _ => false)).1.log = [.opn o0] ∧
    orderState (generateAlgoOrders demoU [] [o0, o1] (fun _ => false)).1 1 6 = none ∧
    (generateAlgoOrders demo [] [o0, o1] (fun _ => false)).2.fatal = true := by decide +kernel

end BarterModel.Props.C03
