import BarterModel.Lemmas.Engine
import BarterModel.Lemmas.Review1Engine
import BarterModel.Lemmas.KernelsAgree.SendRequestsSM
/-!
# C03 — Order requests: sent ⇒ delivered once and in flight; refused/failed ⇒ neither

`Eng.log` is the list of requests delivered to execution links, in send order; the content of
exchange `x`'s channel is `deliveredTo x log`. Strategy output (`algoC`, `algoO`) and the risk
verdict (`refuse`) are universally quantified inputs of every tick; link fault patterns are the
arbitrary `links` table. **Partial** in one respect only: that an unbounded channel accepts a
send iff its receiver is alive and is FIFO is an assumption of the model (exercised by the
correspondence run against real tokio channels), not a theorem.
-/
namespace BarterModel.Props.C03
open BarterModel.Engine BarterModel.Orders

/-- what exchange `x`'s execution link received -/
def deliveredTo (x : Nat) (log : List Req) : List Req := log.filter (fun r => r.key.exchange = x)

/-- everything a tick reports as sent, in send order -/
def Audit.sentReqs (a : Audit) : List Req :=
  (match a.commanded with
    | some c => c.cancels.sent.map Req.cnl ++ c.opens.sent.map Req.opn
    | none => []) ++
  (match a.generated with
    | some g => g.cancels.sent.map Req.cnl ++ g.opens.sent.map Req.opn
    | none => [])

/-- (1) one kind of request: the requests reported `sent` are exactly those whose exchange has a
healthy link, in order; they are appended to the delivery log once each, and nothing else is;
the requests reported under `errors` are exactly the others, each with its error. -/
theorem send_requests_partition {α : Type} (e : Eng) (toReq : α → Req) (rs : List α) :
    let r := sendRequests e toReq rs
    r.1.log = e.log ++ r.2.sent.map toReq ∧
    r.2.sent = rs.filter (fun q => (linkResult e.links (toReq q).key.exchange).isNone) ∧
    (∀ q err, (q, err) ∈ r.2.errors ↔ q ∈ rs ∧ linkResult e.links (toReq q).key.exchange = some err) ∧
    r.1.instruments = e.instruments ∧ r.1.links = e.links := by
  refine ⟨rfl, rfl, ?_, rfl, rfl⟩
  intro q err
  simp only [sendRequests, List.mem_filterMap]
  constructor
  · rintro ⟨a, ha, h⟩
    split at h
    · rename_i err' he; injection h with h; injection h with h1 h2; subst h1; subst h2; exact ⟨ha, he⟩
    · cases h
  · rintro ⟨hq, he⟩
    exact ⟨q, hq, by simp [he]⟩

/-- (1) per exchange: each link receives exactly the sent requests addressed to it, in order, once. -/
theorem send_requests_per_exchange {α : Type} (e : Eng) (toReq : α → Req) (rs : List α) (x : Nat) :
    let r := sendRequests e toReq rs
    deliveredTo x r.1.log = deliveredTo x e.log ++ deliveredTo x (r.2.sent.map toReq) := by
  simp [deliveredTo, sendRequests, List.filter_append]

/-- (3) a request whose delivery failed carries an error, which is unrecoverable in both cases:
no link for the exchange / index out of range (`index`) or receiver gone (`terminated`). -/
theorem failed_error_kind (links : List Link) (x : Nat) (err : SendError)
    (h : linkResult links x = some err) :
    (err = .index ↔ (links[x]? = some .missing ∨ links[x]? = none)) ∧
    (err = .terminated ↔ links[x]? = some .closed) := by
  unfold linkResult at h
  cases hl : links[x]? with
  | none => simp [hl] at h; subst h; simp
  | some l => cases l <;> simp [hl] at h <;> subst h <;> simp

/-- (3) a failed request is not delivered: it is not among the requests appended to the log. -/
theorem failed_not_delivered {α : Type} (e : Eng) (toReq : α → Req) (rs : List α)
    (hinj : ∀ a b, toReq a = toReq b → a = b) (q : α) (err : SendError)
    (h : (q, err) ∈ (sendRequests e toReq rs).2.errors) :
    toReq q ∉ (sendRequests e toReq rs).2.sent.map toReq := by
  have hp := (send_requests_partition e toReq rs).2.2.1 q err |>.mp h
  intro hm
  obtain ⟨q', hq', heq⟩ := List.mem_map.mp hm
  have := hinj _ _ heq; subst this
  simp only [sendRequests, List.mem_filter] at hq'
  simp [hp.2] at hq'

theorem generateAlgoOrders_log (e0 : Eng) (algoC : List CancelReq) (algoO : List OpenReq)
    (refuse : Key → Bool) :
    (generateAlgoOrders e0 algoC algoO refuse).1.log =
      e0.log ++ ((generateAlgoOrders e0 algoC algoO refuse).2.cancels.sent.map Req.cnl ++
        (generateAlgoOrders e0 algoC algoO refuse).2.opens.sent.map Req.opn) := by
  simp only [generateAlgoOrders]
  rw [(recordOpens_log _ _).1, (recordCancels_log _ _).1]
  simp [sendRequests, List.append_assoc]

theorem action_log (e : Eng) (c : Command) :
    (action e c).1.log =
      e.log ++ ((action e c).2.cancels.sent.map Req.cnl ++ (action e c).2.opens.sent.map Req.opn) := by
  cases c <;> simp only [action] <;>
    simp [(recordOpens_log _ _).1, (recordCancels_log _ _).1, sendRequests, SendOut.empty]

theorem generateStage_log (e : Eng) (cmd : Option ActionOut) (algoC : List CancelReq)
    (algoO : List OpenReq) (refuse : Key → Bool) :
    (generateStage e cmd algoC algoO refuse).1.log = e.log ++
      (match (generateStage e cmd algoC algoO refuse).2.generated with
        | some g => g.cancels.sent.map Req.cnl ++ g.opens.sent.map Req.opn
        | none => []) ∧
    (generateStage e cmd algoC algoO refuse).2.commanded = cmd := by
  unfold generateStage
  split
  · exact ⟨generateAlgoOrders_log _ _ _ _, rfl⟩
  · simp

/-- One tick, whole engine (1): the delivery log grows by exactly the requests the tick reports as
sent (command output first, then algo output; cancels before opens), for every event, strategy
output, risk verdict, link table and trading state. -/
theorem process_delivers_exactly_sent (e : Eng) (ev : Event) (algoC : List CancelReq)
    (algoO : List OpenReq) (refuse : Key → Bool) :
    (process e ev algoC algoO refuse).1.log =
      e.log ++ Audit.sentReqs (process e ev algoC algoO refuse).2 := by
  cases ev with
  | shutdown => simp [process, Audit.sentReqs]
  | command c =>
    simp only [process]
    split
    · simp [Audit.sentReqs, action_log]
    · have h := generateStage_log (action e c).1 (some (action e c).2) algoC algoO refuse
      simp only [Audit.sentReqs, h.1, h.2, action_log, List.append_assoc]
  | tradingState on =>
    simp only [process]
    have h := generateStage_log (updateTradingState e on) none algoC algoO refuse
    have hl : (updateTradingState e on).log = e.log := by unfold updateTradingState; split <;> rfl
    simp only [Audit.sentReqs, h.1, h.2, hl, List.nil_append]
  | update u =>
    simp only [process]
    have h := generateStage_log (applyUpdate e u) none algoC algoO refuse
    have hu : (applyUpdate e u).log = e.log := by cases u <;> rfl
    simp only [Audit.sentReqs, h.1, h.2, hu, List.nil_append]

/-- (1) over any history of ticks: the log is exactly the concatenation of what each tick reported
as sent — nothing is ever delivered twice or delivered without being reported by
`generate_algo_orders` / `action`. -/
theorem run_delivers_exactly_sent (e : Eng)
    (ticks : List (Event × List CancelReq × List OpenReq × (Key → Bool))) :
    let step := fun (s : Eng × List Req) (t : Event × List CancelReq × List OpenReq × (Key → Bool)) =>
      let r := process s.1 t.1 t.2.1 t.2.2.1 t.2.2.2
      (r.1, s.2 ++ Audit.sentReqs r.2)
    (ticks.foldl step (e, [])).1.log = e.log ++ (ticks.foldl step (e, [])).2 := by
  intro step
  suffices H : ∀ (s : Eng × List Req), s.1.log = e.log ++ s.2 →
      (ticks.foldl step s).1.log = e.log ++ (ticks.foldl step s).2 by
    exact H (e, []) (by simp)
  induction ticks with
  | nil => intro s h; exact h
  | cons t ts ih =>
    intro s h
    simp only [List.foldl_cons]
    apply ih
    simp only [step]
    rw [process_delivers_exactly_sent, h, List.append_assoc]

theorem generateStage_audit (e : Eng) (cmd : Option ActionOut) (algoC : List CancelReq)
    (algoO : List OpenReq) (refuse : Key → Bool) (out : AlgoOut)
    (h : (generateStage e cmd algoC algoO refuse).2.algoInAudit = some out) :
    (generateStage e cmd algoC algoO refuse).2.generated = some out := by
  unfold generateStage at h ⊢
  split
  · rename_i hen
    simp only [hen, ↓reduceIte] at h
    split at h
    · cases h
    · simpa using h
  · rename_i hen
    simp [hen] at h

/-- (audit ⊆) what the audit shows as algo output is what `generate_algo_orders` returned. -/
theorem audit_algo_is_generated (e : Eng) (ev : Event) (algoC : List CancelReq)
    (algoO : List OpenReq) (refuse : Key → Bool) (out : AlgoOut)
    (h : (process e ev algoC algoO refuse).2.algoInAudit = some out) :
    (process e ev algoC algoO refuse).2.generated = some out := by
  cases ev with
  | shutdown => simp [process] at h
  | command c =>
    simp only [process] at h ⊢
    split at h
    · simp at h
    · rename_i hf; simp only [hf]; exact generateStage_audit _ _ _ _ _ _ h
  | tradingState on => exact generateStage_audit _ _ _ _ _ _ h
  | update u => exact generateStage_audit _ _ _ _ _ _ h

/-- (audit ⊇, clauses 3 and 4) nothing `generate_algo_orders` did is missing from the audit: whenever
generation ran and produced anything at all — requests sent, requests that failed (recoverably or
not), requests refused by the risk manager — the audit carries exactly that output, also in a tick
whose audit carries unrecoverable errors. (Before the repair of the engine the output was dropped
from the audit in such a tick: the refused and the failed requests were then not reported.) -/
theorem audit_reports_everything_generated (e : Eng) (ev : Event) (algoC : List CancelReq)
    (algoO : List OpenReq) (refuse : Key → Bool) (out : AlgoOut)
    (h : (process e ev algoC algoO refuse).2.generated = some out) (hne : out.isEmpty = false) :
    (process e ev algoC algoO refuse).2.algoInAudit = some out := by
  have key : ∀ (e' : Eng) (cmd : Option ActionOut),
      (generateStage e' cmd algoC algoO refuse).2.generated = some out →
      (generateStage e' cmd algoC algoO refuse).2.algoInAudit = some out := by
    intro e' cmd hg
    unfold generateStage at hg ⊢
    split
    · rename_i hen
      simp only [hen, ↓reduceIte] at hg
      have : (generateAlgoOrders e' algoC algoO refuse).2 = out := by simpa using hg
      simp [this, hne]
    · rename_i hen
      simp [hen] at hg
  cases ev with
  | shutdown => simp [process] at h
  | command c =>
    simp only [process] at h ⊢
    split at h
    · simp at h
    · rename_i hf; simp only [hf]; exact key _ _ h
  | tradingState on => exact key _ _ h
  | update u => exact key _ _ h

/-- (2) every open request reported sent by a `SendOpenRequests` command is shown in flight
afterwards. -/
theorem sent_open_in_flight_command (e : Eng) (rs : List OpenReq) (r : OpenReq)
    (hr : r ∈ (action e (.sendOpenRequests rs)).2.opens.sent)
    (hi : r.key.instrument < e.instruments.length) :
    orderState (action e (.sendOpenRequests rs)).1 r.key.instrument r.key.cid = some .inFlight := by
  simp only [action] at hr ⊢
  exact orderState_recordOpens_mem _ _ r hr (by simpa [sendRequests] using hi)

/-- (2) every cancel request reported sent by a `SendCancelRequests` command leaves the tracked
order it names cancel-in-flight (an untracked one stays untracked, as the code logs). -/
theorem sent_cancel_in_flight_command (e : Eng) (rs : List CancelReq) (r : CancelReq)
    (hr : r ∈ (action e (.sendCancelRequests rs)).2.cancels.sent) :
    match orderState e r.key.instrument r.key.cid with
    | some _ => ∃ x, orderState (action e (.sendCancelRequests rs)).1 r.key.instrument r.key.cid
        = some (.cancelInFlight x)
    | none => orderState (action e (.sendCancelRequests rs)).1 r.key.instrument r.key.cid = none := by
  simp only [action] at hr ⊢
  cases ha : orderState e r.key.instrument r.key.cid with
  | none => exact orderState_recordCancels_none _ _ _ _ (by simpa [orderState, sendRequests] using ha)
  | some a => exact orderState_recordCancels_mem _ _ r hr a (by simpa [orderState, sendRequests] using ha)

/-- (2) algo tick: every sent open is in flight afterwards; every sent cancel of a tracked order is
cancel-in-flight afterwards unless the same tick also sent an open re-using that very client
order id on that instrument (then the open's in-flight mark, recorded last, wins). -/
theorem sent_in_flight_algo (e : Eng) (cancels : List CancelReq) (opens : List OpenReq)
    (refuse : Key → Bool) :
    let r := generateAlgoOrders e cancels opens refuse
    (∀ o ∈ r.2.opens.sent, o.key.instrument < e.instruments.length →
      orderState r.1 o.key.instrument o.key.cid = some .inFlight) ∧
    (∀ c ∈ r.2.cancels.sent, (orderState e c.key.instrument c.key.cid).isSome = true →
      (∀ o ∈ r.2.opens.sent, ¬ (o.key.instrument = c.key.instrument ∧ o.key.cid = c.key.cid)) →
      ∃ x, orderState r.1 c.key.instrument c.key.cid = some (.cancelInFlight x)) := by
  intro r
  constructor
  · intro o ho hi
    simp only [r, generateAlgoOrders] at ho ⊢
    exact orderState_recordOpens_mem _ _ o ho (by rw [recordCancels_length]; simpa [sendRequests] using hi)
  · intro c hc htr hdis
    simp only [r, generateAlgoOrders] at hc hdis ⊢
    rw [orderState_recordOpens_other _ _ _ _ hdis]
    cases ha : orderState e c.key.instrument c.key.cid with
    | none => simp [ha] at htr
    | some a => exact orderState_recordCancels_mem _ _ c hc a (by simpa [orderState, sendRequests] using ha)

/-- (3)+(4) no in-flight mark without a send: an order `(i, c)` that no sent request of the tick
names keeps exactly its tracked state — in particular requests that failed or were refused by
the risk manager leave no mark. (Precisely: the premise is "no SENT request names `(i, c)`"; when a
sibling request with the same `(instrument, client order id)` IS sent in the same call, the order
shows that sibling's mark. Command paths: `unsent_leaves_no_mark_command`.) -/
theorem unsent_leaves_no_mark (e : Eng) (cancels : List CancelReq) (opens : List OpenReq)
    (refuse : Key → Bool) (i c : Nat) :
    let r := generateAlgoOrders e cancels opens refuse
    (∀ o ∈ r.2.opens.sent, ¬ (o.key.instrument = i ∧ o.key.cid = c)) →
    (∀ q ∈ r.2.cancels.sent, ¬ (q.key.instrument = i ∧ q.key.cid = c)) →
    orderState r.1 i c = orderState e i c := by
  intro r ho hq
  simp only [r, generateAlgoOrders] at ho hq ⊢
  rw [orderState_recordOpens_other _ _ _ _ ho]
  -- cancels not naming (i,c) leave it alone
  have : ∀ (qs : List CancelReq) (e0 : Eng), (∀ q ∈ qs, ¬ (q.key.instrument = i ∧ q.key.cid = c)) →
      orderState (recordCancels e0 qs) i c = orderState e0 i c := by
    intro qs
    induction qs with
    | nil => intro e0 _; rfl
    | cons q qs ih =>
      intro e0 h
      simp only [recordCancels, List.foldl_cons] at *
      rw [ih _ (fun x hx => h x (by simp [hx])), orderState_recordCancel]
      have := h q (by simp)
      split
      · rename_i hh; exact absurd ⟨hh.1.symm, hh.2.symm⟩ this
      · rfl
  rw [this _ _ hq]
  simp [orderState, sendRequests]

/-- (4) a request refused by the risk manager is reported as refused and is never delivered. -/
theorem refused_not_delivered (e : Eng) (cancels : List CancelReq) (opens : List OpenReq)
    (refuse : Key → Bool) :
    let r := generateAlgoOrders e cancels opens refuse
    r.2.cancelsRefused = cancels.filter (fun q => refuse q.key) ∧
    r.2.opensRefused = opens.filter (fun q => refuse q.key) ∧
    (∀ q ∈ r.2.cancels.sent, refuse q.key = false) ∧
    (∀ q ∈ r.2.opens.sent, refuse q.key = false) ∧
    r.1.log = e.log ++ (r.2.cancels.sent.map Req.cnl ++ r.2.opens.sent.map Req.opn) := by
  intro r
  refine ⟨rfl, rfl, ?_, ?_, ?_⟩
  · intro q hq
    simp only [r, generateAlgoOrders, sendRequests, List.mem_filter] at hq
    simpa using hq.1.2
  · intro q hq
    simp only [r, generateAlgoOrders, sendRequests, List.mem_filter] at hq
    simpa using hq.1.2
  · simp only [r, generateAlgoOrders]
    rw [(recordOpens_log _ _).1, (recordCancels_log _ _).1]
    simp [sendRequests, List.append_assoc]

theorem generateStage_generated (e : Eng) (cmd : Option ActionOut) (algoC : List CancelReq)
    (algoO : List OpenReq) (refuse : Key → Bool) :
    (generateStage e cmd algoC algoO refuse).2.generated =
      if e.enabled then some (generateAlgoOrders e algoC algoO refuse).2 else none := by
  unfold generateStage; split <;> rfl

theorem action_enabled (e : Eng) (c : Command) : (action e c).1.enabled = e.enabled := by
  cases c <;> simp [action, (recordOpens_log _ _).2.2, (recordCancels_log _ _).2.2, sendRequests]

/-- (5) while algorithmic trading is disabled the engine issues no strategy-generated requests
(for every event that leaves it disabled) … -/
theorem disabled_no_generation (e : Eng) (ev : Event) (algoC : List CancelReq)
    (algoO : List OpenReq) (refuse : Key → Bool) (hd : e.enabled = false)
    (hev : ev ≠ .tradingState true) :
    (process e ev algoC algoO refuse).2.generated = none := by
  cases ev with
  | shutdown => rfl
  | command c =>
    simp only [process]
    split
    · rfl
    · rw [generateStage_generated, action_enabled, hd]; rfl
  | tradingState on =>
    cases on with
    | true => exact absurd rfl hev
    | false =>
      simp only [process]
      rw [generateStage_generated]
      simp [updateTradingState, hd]
  | update u =>
    have : (applyUpdate e u).enabled = false := by cases u <;> simpa [applyUpdate] using hd
    simp only [process]
    rw [generateStage_generated, this]; rfl

/-- (5) … yet it still actions external commands (and state updates are applied: `process` on an
update event starts from `applyUpdate e u`) … -/
theorem disabled_still_actions_commands (e : Eng) (c : Command) (algoC : List CancelReq)
    (algoO : List OpenReq) (refuse : Key → Bool) :
    (process e (.command c) algoC algoO refuse).2.commanded = some (action e c).2 := by
  simp only [process]
  split
  · rfl
  · exact (generateStage_log _ _ _ _ _).2

/-- (5) … and re-enabling resumes generation on that very event. -/
theorem enable_generates_same_tick (e : Eng) (algoC : List CancelReq) (algoO : List OpenReq)
    (refuse : Key → Bool) :
    (process e (.tradingState true) algoC algoO refuse).2.generated =
      some (generateAlgoOrders { e with enabled := true } algoC algoO refuse).2 := by
  simp only [process]
  rw [generateStage_generated]
  simp [updateTradingState]

/-- (5) `Shutdown` and a fatal command error skip generation. -/
theorem shutdown_and_fatal_skip_generation (e : Eng) (algoC : List CancelReq) (algoO : List OpenReq)
    (refuse : Key → Bool) :
    (process e .shutdown algoC algoO refuse).2.generated = none ∧
    (process e .shutdown algoC algoO refuse).1.log = e.log ∧
    ∀ c, (action e c).2.fatal = true →
      (process e (.command c) algoC algoO refuse).2.generated = none ∧
      (process e (.command c) algoC algoO refuse).2.fatal = true := by
  refine ⟨rfl, rfl, ?_⟩
  intro c hf
  simp [process, hf]

/-- (3) which failures are fatal: the error of a failed request is unrecoverable exactly when the
link is gone (receiver dropped) or the exchange has no link (none configured / index out of range);
a transmitter that merely refuses the item gives a recoverable error. -/
theorem failed_fatal_iff (links : List Link) (x : Nat) (err : SendError)
    (h : linkResult links x = some err) :
    (err.unrecoverable = true ↔
      (links[x]? = some .closed ∨ links[x]? = some .missing ∨ links[x]? = none)) ∧
    (err = .unhealthy ↔ links[x]? = some .unhealthy) := by
  unfold linkResult at h
  cases hl : links[x]? with
  | none => simp [hl] at h; subst h; simp [SendError.unrecoverable]
  | some l => cases l <;> simp [hl] at h <;> subst h <;> simp [SendError.unrecoverable]

/-- (3) a send output is fatal exactly when one of its requests is addressed to an exchange whose
link is gone or absent. -/
theorem send_requests_fatal_iff {α : Type} (e : Eng) (toReq : α → Req) (rs : List α) :
    (sendRequests e toReq rs).2.fatal = true ↔
      ∃ q ∈ rs, e.links[(toReq q).key.exchange]? = some .closed ∨
        e.links[(toReq q).key.exchange]? = some .missing ∨ e.links[(toReq q).key.exchange]? = none := by
  simp only [SendOut.fatal, List.any_eq_true]
  constructor
  · rintro ⟨⟨q, err⟩, hm, hu⟩
    have hp := (send_requests_partition e toReq rs).2.2.1 q err |>.mp hm
    exact ⟨q, hp.1, (failed_fatal_iff _ _ _ hp.2).1.mp hu⟩
  · rintro ⟨q, hq, hl⟩
    cases hr : linkResult e.links (toReq q).key.exchange with
    | none =>
      unfold linkResult at hr
      rcases hl with hl | hl | hl <;> simp [hl] at hr
    | some err =>
      refine ⟨(q, err), (send_requests_partition e toReq rs).2.2.1 q err |>.mpr ⟨hq, hr⟩, ?_⟩
      exact (failed_fatal_iff _ _ _ hr).1.mpr hl

/-- (3)+(5) a command whose only failures are recoverable does not stop the tick: generation runs
on the state the command left, exactly as after a fully delivered command. -/
theorem recoverable_command_error_continues (e : Eng) (c : Command) (algoC : List CancelReq)
    (algoO : List OpenReq) (refuse : Key → Bool) (h : (action e c).2.fatal = false) :
    process e (.command c) algoC algoO refuse =
      generateStage (action e c).1 (some (action e c).2) algoC algoO refuse := by
  simp [process, h]

/-! Non-vacuity: a two-exchange engine where exchange 1's link is closed. -/
def demo : Eng :=
  { enabled := true, links := [.healthy, .closed], log := [],
    instruments := [⟨0, 0, 1, [], none, none⟩, ⟨1, 2, 3, [], none, none⟩], disabledCalls := 0 }
def o0 : OpenReq := ⟨⟨0, 0, 5⟩, .buy, 100, 1⟩
def o1 : OpenReq := ⟨⟨1, 1, 6⟩, .buy, 100, 1⟩
example : (generateAlgoOrders demo [] [o0, o1] (fun _ => false)).2.opens.sent = [o0] ∧
    (generateAlgoOrders demo [] [o0, o1] (fun _ => false)).2.opens.errors = [(o1, .terminated)] ∧
    (generateAlgoOrders demo [] [o0, o1] (fun _ => false)).1.log = [.opn o0] := by decide +kernel
example : orderState (generateAlgoOrders demo [] [o0, o1] (fun _ => false)).1 0 5 = some .inFlight ∧
    orderState (generateAlgoOrders demo [] [o0, o1] (fun _ => false)).1 1 6 = none := by decide +kernel

/-! Non-vacuity for the recoverable case: exchange 1's transmitter refuses items. -/
def demoU : Eng := { demo with links := [.healthy, .unhealthy] }
example : (generateAlgoOrders demoU [] [o0, o1] (fun _ => false)).2.opens.errors = [(o1, .unhealthy)] ∧
    (generateAlgoOrders demoU [] [o0, o1] (fun _ => false)).2.fatal = false ∧
    (generateAlgoOrders demoU [] [o0, o1] (fun _ => false)).1.log = [.opn o0] ∧
    orderState (generateAlgoOrders demoU [] [o0, o1] (fun _ => false)).1 1 6 = none ∧
    (generateAlgoOrders demo [] [o0, o1] (fun _ => false)).2.fatal = true := by decide +kernel

/-! ## Added after the independent review (audit/report_C01-C05.md, items C03-H2, M1, M2, M3) -/

/-- every open request a tick reports as sent (by the command or by the generation stage) -/
def Audit.sentOpens (a : Audit) : List OpenReq :=
  (match a.commanded with | some c => c.opens.sent | none => []) ++
  (match a.generated with | some g => g.opens.sent | none => [])

/-- every cancel request a tick reports as sent -/
def Audit.sentCancels (a : Audit) : List CancelReq :=
  (match a.commanded with | some c => c.cancels.sent | none => []) ++
  (match a.generated with | some g => g.cancels.sent | none => [])

theorem mem_lookup_isSome (m : Orders) (c : Nat) (o : Order) (h : (c, o) ∈ m) :
    (lookup m c).isSome = true := by
  induction m with
  | nil => cases h
  | cons kv rest ih =>
    obtain ⟨k, v⟩ := kv
    by_cases hk : k = c
    · simp [lookup, hk]
    · rcases List.mem_cons.mp h with heq | hm
      · injection heq with h1 _; exact absurd h1.symm hk
      · simpa [lookup, hk] using ih hm

/-- (2, H2) `ClosePositions`: every open request the command reports as sent is shown in flight
afterwards (no side condition: the request names an existing instrument by construction). -/
theorem close_sent_in_flight (e : Eng) (f : Filter) (r : OpenReq)
    (hr : r ∈ (action e (.closePositions f)).2.opens.sent) :
    orderState (action e (.closePositions f)).1 r.key.instrument r.key.cid = some .inFlight := by
  simp only [action] at hr ⊢
  have hm : r ∈ closeRequests e f := by
    simp only [sendRequests, List.mem_filter] at hr; exact hr.1
  obtain ⟨i, s', side, q, p, hs', _, _, _, rfl⟩ := (mem_closeRequests e f r).mp hm
  have hi : i < e.instruments.length := by
    rcases Nat.lt_or_ge i e.instruments.length with h | h
    · exact h
    · rw [List.getElem?_eq_none h] at hs'; cases hs'
  exact orderState_recordOpens_mem _ _ _ hr (by simpa [sendRequests, recordCancels] using hi)

/-- (2, H2) `ClosePositions` with the default strategy sends (and fails) no cancel at all, so the
cancel half of the clause is empty for it. -/
theorem close_sends_no_cancel (e : Eng) (f : Filter) :
    (action e (.closePositions f)).2.cancels.sent = [] ∧
    (action e (.closePositions f)).2.cancels.errors = [] := ⟨rfl, rfl⟩

/-- (2, H2) `CancelOrders`: every cancel request the command reports as sent names an order that was
tracked, and that order is shown cancel-in-flight afterwards (no side condition). `CancelOrders`
sends no open. (The whole-entry version is `C19.cancel_command_effect`.) -/
theorem cancel_orders_sent_in_flight (e : Eng) (f : Filter) (r : CancelReq)
    (hr : r ∈ (action e (.cancelOrders f)).2.cancels.sent) :
    (orderState e r.key.instrument r.key.cid).isSome = true ∧
    (∃ x, orderState (action e (.cancelOrders f)).1 r.key.instrument r.key.cid =
      some (.cancelInFlight x)) ∧
    (action e (.cancelOrders f)).2.opens.sent = [] := by
  simp only [action] at hr ⊢
  have hm : r ∈ cancelRequests e f := by
    simp only [sendRequests, List.mem_filter] at hr; exact hr.1
  obtain ⟨i, s, c, o, hs, _, hco, hreq⟩ := (mem_cancelRequests e f r).mp hm
  have hk := toRequestCancel_key i (c, o) r hreq
  have htr : (orderState e r.key.instrument r.key.cid).isSome = true := by
    rw [hk.1, hk.2]
    simp only [orderState, hs, stateOf]
    have := mem_lookup_isSome s.orders c o hco
    cases hl : lookup s.orders c with
    | none => simp [hl] at this
    | some v => rfl
  refine ⟨htr, ?_, rfl⟩
  cases ha : orderState e r.key.instrument r.key.cid with
  | none => simp [ha] at htr
  | some a => exact orderState_recordCancels_mem _ _ r hr a (by simpa [orderState, sendRequests] using ha)

/-- (2, H2) all FOUR command kinds at once: every open request a command reports as sent is shown in
flight afterwards, and every cancel request it reports as sent leaves the tracked order it names
cancel-in-flight. (For the two filter commands the side conditions hold by construction:
`close_sent_in_flight`, `cancel_orders_sent_in_flight`.) -/
theorem sent_in_flight_any_command (e : Eng) (c : Command) :
    (∀ o ∈ (action e c).2.opens.sent, o.key.instrument < e.instruments.length →
      orderState (action e c).1 o.key.instrument o.key.cid = some .inFlight) ∧
    (∀ q ∈ (action e c).2.cancels.sent, (orderState e q.key.instrument q.key.cid).isSome = true →
      ∃ x, orderState (action e c).1 q.key.instrument q.key.cid = some (.cancelInFlight x)) := by
  cases c with
  | sendCancelRequests rs =>
    refine ⟨by intro o ho; simp [action, SendOut.empty] at ho, ?_⟩
    intro q hq htr
    have := sent_cancel_in_flight_command e rs q hq
    cases ha : orderState e q.key.instrument q.key.cid with
    | none => simp [ha] at htr
    | some a => simpa [ha] using this
  | sendOpenRequests rs =>
    exact ⟨fun o ho hi => sent_open_in_flight_command e rs o ho hi,
      by intro q hq; simp [action, SendOut.empty] at hq⟩
  | closePositions f =>
    exact ⟨fun o ho _ => close_sent_in_flight e f o ho, by intro q hq; simp [action, sendRequests] at hq⟩
  | cancelOrders f =>
    exact ⟨by intro o ho; simp [action, SendOut.empty] at ho,
      fun q hq _ => (cancel_orders_sent_in_flight e f q hq).2.1⟩

/-- (3, M2) "leaves no in-flight mark" on the COMMAND paths, all four kinds: an order `(i, c)` that no
request the command reports as SENT names keeps exactly its tracked state. In particular a request
whose delivery failed leaves no mark — unless a sibling request of the same command with the same
`(instrument, client order id)` was delivered (then that one's mark is shown, rightly). -/
theorem unsent_leaves_no_mark_command (e : Eng) (cmd : Command) (i c : Nat)
    (ho : ∀ o ∈ (action e cmd).2.opens.sent, ¬ (o.key.instrument = i ∧ o.key.cid = c))
    (hq : ∀ q ∈ (action e cmd).2.cancels.sent, ¬ (q.key.instrument = i ∧ q.key.cid = c)) :
    orderState (action e cmd).1 i c = orderState e i c := by
  have hC : ∀ (qs : List CancelReq) (e0 : Eng), (∀ q ∈ qs, ¬ (q.key.instrument = i ∧ q.key.cid = c)) →
      orderState (recordCancels e0 qs) i c = orderState e0 i c := by
    intro qs
    induction qs with
    | nil => intro e0 _; rfl
    | cons q qs ih =>
      intro e0 h
      simp only [recordCancels, List.foldl_cons] at *
      rw [ih _ (fun x hx => h x (by simp [hx])), orderState_recordCancel]
      have := h q (by simp)
      split
      · rename_i hh; exact absurd ⟨hh.1.symm, hh.2.symm⟩ this
      · rfl
  cases cmd with
  | sendCancelRequests rs =>
    simp only [action] at hq ⊢
    rw [hC _ _ hq]; rfl
  | sendOpenRequests rs =>
    simp only [action] at ho ⊢
    rw [orderState_recordOpens_other _ _ _ _ ho]; rfl
  | closePositions f =>
    simp only [action] at ho hq ⊢
    rw [orderState_recordOpens_other _ _ _ _ ho, hC _ _ hq]; rfl
  | cancelOrders f =>
    simp only [action] at hq ⊢
    rw [hC _ _ hq]; rfl

/-- (3, M2) the open version spelled out for a failed request: an open request of a
`SendOpenRequests` command whose delivery failed leaves the order it would have opened exactly as it
was (in particular untracked if it was untracked), provided no delivered sibling shares its
`(instrument, client order id)`. -/
theorem failed_open_leaves_no_mark_command (e : Eng) (rs : List OpenReq) (r : OpenReq) (err : SendError)
    (_hr : (r, err) ∈ (action e (.sendOpenRequests rs)).2.opens.errors)
    (hsib : ∀ o ∈ (action e (.sendOpenRequests rs)).2.opens.sent,
      ¬ (o.key.instrument = r.key.instrument ∧ o.key.cid = r.key.cid)) :
    orderState (action e (.sendOpenRequests rs)).1 r.key.instrument r.key.cid =
      orderState e r.key.instrument r.key.cid :=
  unsent_leaves_no_mark_command e _ _ _ hsib (by intro q hq; simp [action, SendOut.empty] at hq)

/-- (3, M2) the cancel version: a cancel request of a `SendCancelRequests` command whose delivery
failed leaves the tracked order's state unchanged (not cancel-in-flight), provided no delivered
sibling names the same order. -/
theorem failed_cancel_leaves_state_command (e : Eng) (rs : List CancelReq) (r : CancelReq)
    (err : SendError) (_hr : (r, err) ∈ (action e (.sendCancelRequests rs)).2.cancels.errors)
    (hsib : ∀ q ∈ (action e (.sendCancelRequests rs)).2.cancels.sent,
      ¬ (q.key.instrument = r.key.instrument ∧ q.key.cid = r.key.cid)) :
    orderState (action e (.sendCancelRequests rs)).1 r.key.instrument r.key.cid =
      orderState e r.key.instrument r.key.cid :=
  unsent_leaves_no_mark_command e _ _ _ (by intro o ho; simp [action, SendOut.empty] at ho) hsib

/-- (3, M2) a command none of whose requests could be delivered changes no order table at all. -/
theorem nothing_sent_nothing_marked (e : Eng) (cmd : Command)
    (ho : (action e cmd).2.opens.sent = []) (hq : (action e cmd).2.cancels.sent = []) :
    (action e cmd).1.instruments = e.instruments := by
  cases cmd with
  | sendCancelRequests rs => simp only [action] at hq ⊢; rw [hq]; rfl
  | sendOpenRequests rs => simp only [action] at ho ⊢; rw [ho]; rfl
  | closePositions f => simp only [action] at ho hq ⊢; rw [ho, hq]; rfl
  | cancelOrders f => simp only [action] at hq ⊢; rw [hq]; rfl


/-! ### (2, M1) lifted to the whole tick (`process`) and to histories ("from then on") -/

theorem mem_sentOpens (a : Audit) (o : OpenReq) :
    o ∈ Audit.sentOpens a ↔
      (∃ c, a.commanded = some c ∧ o ∈ c.opens.sent) ∨ (∃ g, a.generated = some g ∧ o ∈ g.opens.sent) := by
  unfold Audit.sentOpens
  cases a.commanded <;> cases a.generated <;> simp

theorem mem_sentCancels (a : Audit) (q : CancelReq) :
    q ∈ Audit.sentCancels a ↔
      (∃ c, a.commanded = some c ∧ q ∈ c.cancels.sent) ∨ (∃ g, a.generated = some g ∧ q ∈ g.cancels.sent) := by
  unfold Audit.sentCancels
  cases a.commanded <;> cases a.generated <;> simp

/-- (2, M1) **one whole tick, opens.** Every open request the audit of a tick reports as sent — by the
command or by the generation stage — is shown as in flight after the WHOLE tick: `inFlight`, or
`cancelInFlight _` (the generation stage of the same tick may send a cancel for the order a command
just opened; see `command_mark_rewritten_witness`). For every event kind, strategy output, risk
verdict, link table and trading state. -/
theorem process_sent_open_in_flight (e : Eng) (ev : Event) (algoC : List CancelReq)
    (algoO : List OpenReq) (refuse : Key → Bool) (o : OpenReq)
    (ho : o ∈ Audit.sentOpens (process e ev algoC algoO refuse).2)
    (hi : o.key.instrument < e.instruments.length) :
    ShownInFlight (orderState (process e ev algoC algoO refuse).1 o.key.instrument o.key.cid) := by
  obtain ⟨hc, hg⟩ := process_shape e ev algoC algoO refuse
  have hlen := stateBeforeGeneration_length e ev
  rcases (mem_sentOpens _ o).mp ho with ⟨a, ha, hoa⟩ | ⟨g, hgen, hog⟩
  · -- sent by the command: in flight after `action`; the generation stage keeps it shown in flight
    rw [hc] at ha
    cases ev with
    | command c =>
      simp only [commandedOf, Option.some.injEq] at ha
      subst ha
      have h1 : ShownInFlight (orderState (stateBeforeGeneration e (.command c)) o.key.instrument o.key.cid) :=
        Or.inl ((sent_in_flight_any_command e c).1 o hoa hi)
      rcases hg with ⟨_, hs⟩ | ⟨_, hs⟩
      · rw [hs]; exact h1
      · rw [hs]; exact stable_generateAlgoOrders markStable_shown _ _ _ _ _ _ h1
    | shutdown => cases ha
    | tradingState on => cases ha
    | update u => cases ha
  · -- sent by the generation stage: opens are recorded last
    rcases hg with ⟨hn, _⟩ | ⟨hsome, hs⟩
    · rw [hn] at hgen; cases hgen
    · rw [hsome] at hgen
      injection hgen with hgen; subst hgen
      rw [hs]
      exact Or.inl ((sent_in_flight_algo _ algoC algoO refuse).1 o hog (by rw [hlen]; exact hi))

/-- a command's sent cancel leaves the order it names untracked (it was) or cancel-in-flight -/
theorem action_sent_cancel_notPlainOpen (e : Eng) (c : Command) (q : CancelReq)
    (hq : q ∈ (action e c).2.cancels.sent) :
    NotPlainOpen (orderState (action e c).1 q.key.instrument q.key.cid) := by
  cases c with
  | sendCancelRequests rs => exact notPlainOpen_recordCancels_mem _ _ q hq
  | sendOpenRequests rs => simp [action, SendOut.empty] at hq
  | closePositions f => simp [action, sendRequests] at hq
  | cancelOrders f => exact notPlainOpen_recordCancels_mem _ _ q hq

/-- (2, M1) **one whole tick, cancels.** For every cancel request the audit of a tick reports as sent
(commanded or generated): after the WHOLE tick the order it names is never shown as a plain `Open` —
it is untracked (it was untracked when the cancel was sent: the code logs and carries on) or shown as
in flight; and if the order was tracked when the tick's requests were generated it is shown as in
flight: `cancelInFlight _`, or `inFlight` when the generation stage of the same tick re-opened that
very client order id (`cancel_mark_rewritten_witness`). -/
theorem process_sent_cancel_in_flight (e : Eng) (ev : Event) (algoC : List CancelReq)
    (algoO : List OpenReq) (refuse : Key → Bool) (q : CancelReq)
    (hq : q ∈ Audit.sentCancels (process e ev algoC algoO refuse).2) :
    NotPlainOpen (orderState (process e ev algoC algoO refuse).1 q.key.instrument q.key.cid) ∧
    ((orderState (stateBeforeRequests e ev) q.key.instrument q.key.cid).isSome = true →
      ShownInFlight (orderState (process e ev algoC algoO refuse).1 q.key.instrument q.key.cid)) := by
  have hnpo : NotPlainOpen (orderState (process e ev algoC algoO refuse).1 q.key.instrument q.key.cid) := by
    obtain ⟨hc, hg⟩ := process_shape e ev algoC algoO refuse
    rcases (mem_sentCancels _ q).mp hq with ⟨a, ha, hqa⟩ | ⟨g, hgen, hqg⟩
    · rw [hc] at ha
      cases ev with
      | command c =>
        simp only [commandedOf, Option.some.injEq] at ha
        subst ha
        have h1 := action_sent_cancel_notPlainOpen e c q hqa
        rcases hg with ⟨_, hs⟩ | ⟨_, hs⟩
        · rw [hs]; exact h1
        · rw [hs]; exact stable_generateAlgoOrders markStable_notPlainOpen _ _ _ _ _ _ h1
      | shutdown => cases ha
      | tradingState on => cases ha
      | update u => cases ha
    · rcases hg with ⟨hn, _⟩ | ⟨hsome, hs⟩
      · rw [hn] at hgen; cases hgen
      · rw [hsome] at hgen
        injection hgen with hgen; subst hgen
        rw [hs]
        simp only [generateAlgoOrders] at hqg ⊢
        exact stable_recordOpens markStable_notPlainOpen _ _ _ _ (notPlainOpen_recordCancels_mem _ _ q hqg)
  refine ⟨hnpo, ?_⟩
  intro htr
  have htr' := stable_process_from markStable_tracked e ev algoC algoO refuse _ _ htr
  rcases hnpo with hnone | h
  · rw [hnone] at htr'; cases htr'
  · exact h

/-- (2, M1) **"from then on", one further tick.** An order shown as in flight stays shown as in flight
over any tick whose event is not an exchange report (order snapshot) or a cancel response for that
very `(instrument, client order id)` — whatever command the tick carries, whatever the strategy
generates and the risk manager refuses, whatever the links do. -/
theorem process_keeps_in_flight (e : Eng) (ev : Event) (algoC : List CancelReq)
    (algoO : List OpenReq) (refuse : Key → Bool) (i c : Nat) (hev : ev.reportsOn i c = false)
    (h : ShownInFlight (orderState e i c)) :
    ShownInFlight (orderState (process e ev algoC algoO refuse).1 i c) :=
  stable_process_from markStable_shown e ev algoC algoO refuse i c
    (stable_stateBeforeRequests markStable_shown e ev i c hev h)

/-- (2, M1) **"from then on", any history.** -/
theorem run_keeps_in_flight (e : Eng) (ticks : List TickInput) (i c : Nat)
    (hev : ∀ t ∈ ticks, t.1.reportsOn i c = false) (h : ShownInFlight (orderState e i c)) :
    ShownInFlight (orderState (runEngine e ticks) i c) := by
  induction ticks generalizing e with
  | nil => exact h
  | cons t ts ih =>
    simp only [runEngine, List.foldl_cons]
    exact ih _ (fun x hx => hev x (by simp [hx]))
      (process_keeps_in_flight e t.1 t.2.1 t.2.2.1 t.2.2.2 i c (hev t (by simp)) h)

/-- (2, M1) **persistence for opens**: an open request reported sent by tick `t` is shown as in
flight after that tick and after every further tick, until an exchange report or a cancel response
for that `(instrument, client order id)` arrives. -/
theorem sent_open_in_flight_from_then_on (e : Eng) (t : TickInput) (later : List TickInput)
    (o : OpenReq) (ho : o ∈ Audit.sentOpens (process e t.1 t.2.1 t.2.2.1 t.2.2.2).2)
    (hi : o.key.instrument < e.instruments.length)
    (hev : ∀ t' ∈ later, t'.1.reportsOn o.key.instrument o.key.cid = false) :
    ShownInFlight (orderState (runEngine e (t :: later)) o.key.instrument o.key.cid) := by
  simp only [runEngine, List.foldl_cons]
  exact run_keeps_in_flight _ later _ _ hev (process_sent_open_in_flight e t.1 t.2.1 t.2.2.1 t.2.2.2 o ho hi)

/-- (2, M1) **persistence for cancels**: the tracked order a cancel request reported sent by tick `t`
names is shown as in flight after that tick and after every further tick, until an exchange report or
a cancel response for it arrives. -/
theorem sent_cancel_in_flight_from_then_on (e : Eng) (t : TickInput) (later : List TickInput)
    (q : CancelReq) (hq : q ∈ Audit.sentCancels (process e t.1 t.2.1 t.2.2.1 t.2.2.2).2)
    (htr : (orderState (stateBeforeRequests e t.1) q.key.instrument q.key.cid).isSome = true)
    (hev : ∀ t' ∈ later, t'.1.reportsOn q.key.instrument q.key.cid = false) :
    ShownInFlight (orderState (runEngine e (t :: later)) q.key.instrument q.key.cid) := by
  simp only [runEngine, List.foldl_cons]
  exact run_keeps_in_flight _ later _ _ hev
    ((process_sent_cancel_in_flight e t.1 t.2.1 t.2.2.1 t.2.2.2 q hq).2 htr)


theorem inFlight_after_cancels_opens (e1 : Eng) (qs : List CancelReq) (os : List OpenReq) (i c : Nat)
    (h0 : orderState e1 i c = some .inFlight) (hi : i < e1.instruments.length) :
    orderState (recordOpens (recordCancels e1 qs) os) i c =
      if qs.any (fun q => decide (q.key.instrument = i ∧ q.key.cid = c)) ∧
         ¬ os.any (fun r => decide (r.key.instrument = i ∧ r.key.cid = c))
      then some (.cancelInFlight none) else some .inFlight := by
  rw [orderState_recordOpens, orderState_recordCancels, recordCancels_length, h0]
  cases os.any (fun r => decide (r.key.instrument = i ∧ r.key.cid = c)) <;>
    cases qs.any (fun q => decide (q.key.instrument = i ∧ q.key.cid = c)) <;>
    simp [hi, Active.openMeta]

/-- (2, M1) exactly what a command's open shows after the whole tick when the generation stage runs:
`inFlight`, except that a cancel sent for it by the generation stage of the same tick (and no open
re-using its id) turns the mark into `cancelInFlight none`. -/
theorem commanded_open_mark_exact (e : Eng) (c : Command) (algoC : List CancelReq)
    (algoO : List OpenReq) (refuse : Key → Bool) (o : OpenReq)
    (ho : o ∈ (action e c).2.opens.sent) (hi : o.key.instrument < e.instruments.length) :
    let g := generateAlgoOrders (action e c).1 algoC algoO refuse
    orderState g.1 o.key.instrument o.key.cid =
      if g.2.cancels.sent.any (fun q => decide (q.key.instrument = o.key.instrument ∧ q.key.cid = o.key.cid)) ∧
         ¬ g.2.opens.sent.any (fun r => decide (r.key.instrument = o.key.instrument ∧ r.key.cid = o.key.cid))
      then some (.cancelInFlight none) else some .inFlight := by
  intro g
  have h0 : orderState (action e c).1 o.key.instrument o.key.cid = some .inFlight :=
    (sent_in_flight_any_command e c).1 o ho hi
  simp only [g, generateAlgoOrders]
  exact inFlight_after_cancels_opens _ _ _ _ _ h0 (by
    show o.key.instrument < (action e c).1.instruments.length
    rw [action_length]; exact hi)

/-- (2, M1) witness that the command-level statement does NOT lift verbatim: in one tick a
`SendOpenRequests` command opens `(0, 5)` (reported sent) and the strategy's generation stage sends a
cancel for that very order: after the tick the order is `cancelInFlight none`, not `inFlight`. -/
theorem command_mark_rewritten_witness :
    let r := process demo (.command (.sendOpenRequests [o0])) [⟨⟨0, 0, 5⟩, none⟩] [] (fun _ => false)
    (r.2.commanded.map (·.opens.sent)) = some [o0] ∧
    (r.2.generated.map (·.cancels.sent)) = some [⟨⟨0, 0, 5⟩, none⟩] ∧
    orderState r.1 0 5 = some (.cancelInFlight none) := by decide +kernel

/-- tracked open order `(0, 5)` -/
def demoTracked : Eng :=
  { demo with instruments := [⟨0, 0, 1, [(5, ⟨1, 100, .opn ⟨9, 0, 0⟩, 0⟩)], none, none⟩,
                              ⟨1, 2, 3, [], none, none⟩] }

/-- (2, M1) the cancel twin: a command cancels the tracked order `(0, 5)` (reported sent) and the
generation stage of the same tick opens client order id 5 again: the order the cancel names ends
`inFlight`, not cancel-in-flight. -/
theorem cancel_mark_rewritten_witness :
    let r := process demoTracked (.command (.sendCancelRequests [⟨⟨0, 0, 5⟩, none⟩])) [] [o0] (fun _ => false)
    (r.2.commanded.map (·.cancels.sent)) = some [⟨⟨0, 0, 5⟩, none⟩] ∧
    orderState r.1 0 5 = some .inFlight := by decide +kernel

/-! ### (5, M3) "keeps updating its state" while disabled; the disabling tick itself -/

/-- (5, M3) while algorithmic trading is disabled the engine keeps updating its state: a market /
account update tick leaves EXACTLY the state the update produces (nothing else happens). -/
theorem disabled_still_updates (e : Eng) (u : Update) (algoC : List CancelReq) (algoO : List OpenReq)
    (refuse : Key → Bool) (hd : e.enabled = false) :
    (process e (.update u) algoC algoO refuse).1 = applyUpdate e u := by
  have : (applyUpdate e u).enabled = false := by cases u <;> simpa [applyUpdate] using hd
  simp [process, generateStage, this]

/-- (5, M3) … and a command tick leaves exactly the state the command's action produces (delivery
log, in-flight marks). -/
theorem disabled_command_state (e : Eng) (c : Command) (algoC : List CancelReq) (algoO : List OpenReq)
    (refuse : Key → Bool) (hd : e.enabled = false) :
    (process e (.command c) algoC algoO refuse).1 = (action e c).1 := by
  simp only [process]
  split
  · rfl
  · simp [generateStage, action_enabled, hd]

/-- (5, M3) the tick that DISABLES trading generates nothing itself, whatever the trading state was
before and whatever the strategy would answer; nothing is delivered, trading is disabled afterwards
and no order table changes. (`disabled_no_generation` covers the ticks after it.) -/
theorem disabling_tick_no_generation (e : Eng) (algoC : List CancelReq) (algoO : List OpenReq)
    (refuse : Key → Bool) :
    (process e (.tradingState false) algoC algoO refuse).2.generated = none ∧
    (process e (.tradingState false) algoC algoO refuse).2.algoInAudit = none ∧
    (process e (.tradingState false) algoC algoO refuse).1.log = e.log ∧
    (process e (.tradingState false) algoC algoO refuse).1.enabled = false ∧
    (process e (.tradingState false) algoC algoO refuse).1.instruments = e.instruments := by
  have h : (updateTradingState e false).enabled = false := by
    unfold updateTradingState; split <;> rfl
  have hl : (updateTradingState e false).log = e.log := by
    unfold updateTradingState; split <;> rfl
  have hi : (updateTradingState e false).instruments = e.instruments := by
    unfold updateTradingState; split <;> rfl
  simp only [process]
  unfold generateStage
  simp [h, hl, hi]

/-- (5) over a whole disabled stretch: from a disabled engine, any history of ticks none of which
re-enables trading generates nothing in any tick. -/
theorem disabled_stretch_no_generation (e : Eng) (ticks : List TickInput) (hd : e.enabled = false)
    (hev : ∀ t ∈ ticks, t.1 ≠ .tradingState true) :
    (runEngine e ticks).enabled = false ∧
    ∀ (pre : List TickInput) (t : TickInput) (post : List TickInput), ticks = pre ++ t :: post →
      (process (runEngine e pre) t.1 t.2.1 t.2.2.1 t.2.2.2).2.generated = none := by
  have step : ∀ (e : Eng) (t : TickInput), e.enabled = false → t.1 ≠ .tradingState true →
      (process e t.1 t.2.1 t.2.2.1 t.2.2.2).1.enabled = false := by
    intro e t hd ht
    obtain ⟨ev, cs, os, rf⟩ := t
    cases ev with
    | shutdown => exact hd
    | command c => simp only; rw [disabled_command_state e c cs os rf hd, action_enabled]; exact hd
    | tradingState on =>
      cases on with
      | true => exact absurd rfl ht
      | false => exact (disabling_tick_no_generation e cs os rf).2.2.2.1
    | update u =>
      simp only; rw [disabled_still_updates e u cs os rf hd]
      cases u <;> simpa [applyUpdate] using hd
  induction ticks generalizing e with
  | nil =>
    refine ⟨hd, ?_⟩
    intro pre t post h; cases pre <;> cases h
  | cons t ts ih =>
    have h1 := step e t hd (hev t (by simp))
    have := ih _ h1 (fun x hx => hev x (by simp [hx]))
    refine ⟨by simpa [runEngine] using this.1, ?_⟩
    intro pre t' post h
    cases pre with
    | nil =>
      simp only [List.nil_append, List.cons.injEq] at h
      obtain ⟨rfl, _⟩ := h
      exact disabled_no_generation e _ _ _ _ hd (hev _ (by simp))
    | cons p pre =>
      simp only [List.cons_append, List.cons.injEq] at h
      obtain ⟨rfl, h⟩ := h
      simpa [runEngine] using this.2 pre t' post h

/-! Non-vacuity of the added statements. -/
-- a whole tick: command opens (0,5), nothing generated: in flight; then an unrelated tick keeps it
example : ShownInFlight (orderState (runEngine demo
    [(.command (.sendOpenRequests [o0]), [], [], fun _ => false),
     (.update (.price 1 7), [], [o1], fun _ => false),
     (.command (.cancelOrders .none), [], [], fun _ => false)]) 0 5) := by decide +kernel
-- ... and the exchange's answer ends it
example : orderState (runEngine demo
    [(.command (.sendOpenRequests [o0]), [], [], fun _ => false),
     (.update (.order 0 (.snapshot ⟨5, 1, 100, .active (.opn ⟨9, 1, 0⟩), 0⟩)), [], [], fun _ => false)]) 0 5
    = some (.opn ⟨9, 1, 0⟩) := by decide +kernel
-- a failed command request leaves no mark (exchange 1's link is closed)
example : (action demo (.sendOpenRequests [o1])).2.opens.errors = [(o1, .terminated)] ∧
    orderState (action demo (.sendOpenRequests [o1])).1 1 6 = none := by decide +kernel
-- ClosePositions / CancelOrders do send something in a suitable state
def demoPos : Eng :=
  { demo with instruments := [⟨0, 0, 1, [(5, ⟨1, 100, .opn ⟨9, 0, 0⟩, 0⟩)], some (.buy, 2), some 100⟩,
                              ⟨1, 2, 3, [], none, none⟩] }
example : (action demoPos (.closePositions .none)).2.opens.sent = [⟨⟨0, 0, closeCid 0⟩, .sell, 100, 2⟩] ∧
    (action demoPos (.cancelOrders .none)).2.cancels.sent = [⟨⟨0, 0, 5⟩, some 9⟩] := by decide +kernel

/-! ### (3, M2) failed requests at the level of the whole tick -/

/-- the failed requests of one output, with their errors -/
def failedOf (cs : SendOut CancelReq) (os : SendOut OpenReq) : List (Req × SendError) :=
  cs.errors.map (fun x => (Req.cnl x.1, x.2)) ++ os.errors.map (fun x => (Req.opn x.1, x.2))

/-- every request a tick reports as FAILED, with its error -/
def Audit.failedReqs (a : Audit) : List (Req × SendError) :=
  (match a.commanded with
    | some c => failedOf c.cancels c.opens
    | none => []) ++
  (match a.generated with
    | some g => failedOf g.cancels g.opens
    | none => [])

theorem sendRequests_links_facts {α : Type} (e : Eng) (toReq : α → Req) (rs : List α) :
    (∀ q ∈ (sendRequests e toReq rs).2.sent, linkResult e.links (toReq q).key.exchange = none) ∧
    (∀ q err, (q, err) ∈ (sendRequests e toReq rs).2.errors →
      linkResult e.links (toReq q).key.exchange = some err) := by
  refine ⟨?_, ?_⟩
  · intro q hq
    simp only [sendRequests, List.mem_filter] at hq
    simpa using hq.2
  · intro q err h
    exact ((send_requests_partition e toReq rs).2.2.1 q err |>.mp h).2

theorem action_links_facts (e : Eng) (c : Command) :
    (∀ q ∈ (action e c).2.cancels.sent, linkResult e.links q.key.exchange = none) ∧
    (∀ q ∈ (action e c).2.opens.sent, linkResult e.links q.key.exchange = none) ∧
    (∀ q err, (q, err) ∈ (action e c).2.cancels.errors → linkResult e.links q.key.exchange = some err) ∧
    (∀ q err, (q, err) ∈ (action e c).2.opens.errors → linkResult e.links q.key.exchange = some err) ∧
    (action e c).1.links = e.links := by
  cases c with
  | sendCancelRequests rs =>
    have h := sendRequests_links_facts e Req.cnl rs
    exact ⟨h.1, by intro q hq; simp [action, SendOut.empty] at hq, h.2,
      by intro q err hq; simp [action, SendOut.empty] at hq, (recordCancels_log _ _).2.1⟩
  | sendOpenRequests rs =>
    have h := sendRequests_links_facts e Req.opn rs
    exact ⟨by intro q hq; simp [action, SendOut.empty] at hq, h.1,
      by intro q err hq; simp [action, SendOut.empty] at hq, h.2, (recordOpens_log _ _).2.1⟩
  | closePositions f =>
    have h := sendRequests_links_facts (sendRequests e Req.cnl []).1 Req.opn (closeRequests e f)
    refine ⟨by intro q hq; simp [action, sendRequests] at hq, h.1,
      by intro q err hq; simp [action, sendRequests] at hq, h.2, ?_⟩
    simp only [action]
    rw [(recordOpens_log _ _).2.1, (recordCancels_log _ _).2.1]; rfl
  | cancelOrders f =>
    have h := sendRequests_links_facts e Req.cnl (cancelRequests e f)
    exact ⟨h.1, by intro q hq; simp [action, SendOut.empty] at hq, h.2,
      by intro q err hq; simp [action, SendOut.empty] at hq, (recordCancels_log _ _).2.1⟩

theorem generate_links_facts (e : Eng) (cs : List CancelReq) (os : List OpenReq) (refuse : Key → Bool) :
    let g := (generateAlgoOrders e cs os refuse).2
    (∀ q ∈ g.cancels.sent, linkResult e.links q.key.exchange = none) ∧
    (∀ q ∈ g.opens.sent, linkResult e.links q.key.exchange = none) ∧
    (∀ q err, (q, err) ∈ g.cancels.errors → linkResult e.links q.key.exchange = some err) ∧
    (∀ q err, (q, err) ∈ g.opens.errors → linkResult e.links q.key.exchange = some err) := by
  intro g
  have h1 := sendRequests_links_facts e Req.cnl (cs.filter fun r => !refuse r.key)
  have h2 := sendRequests_links_facts (sendRequests e Req.cnl (cs.filter fun r => !refuse r.key)).1
    Req.opn (os.filter fun r => !refuse r.key)
  exact ⟨h1.1, h2.1, h1.2, h2.2⟩

theorem stateBeforeGeneration_links (e : Eng) (ev : Event) :
    (stateBeforeGeneration e ev).links = e.links := by
  cases ev with
  | shutdown => rfl
  | command c => exact (action_links_facts e c).2.2.2.2
  | tradingState on =>
    simp only [stateBeforeGeneration, stateBeforeRequests]; unfold updateTradingState; split <;> rfl
  | update u => cases u <;> rfl

/-- (1)+(3), whole tick: every request a tick reports as SENT is addressed to an exchange whose link is
healthy, and every request it reports as FAILED carries exactly the error of its exchange's link (the
link table as it was when the tick began): … -/
theorem process_sent_healthy_failed_error (e : Eng) (ev : Event) (algoC : List CancelReq)
    (algoO : List OpenReq) (refuse : Key → Bool) :
    (∀ r ∈ Audit.sentReqs (process e ev algoC algoO refuse).2,
      linkResult e.links r.key.exchange = none) ∧
    (∀ r err, (r, err) ∈ Audit.failedReqs (process e ev algoC algoO refuse).2 →
      linkResult e.links r.key.exchange = some err) := by
  obtain ⟨hc, hg⟩ := process_shape e ev algoC algoO refuse
  have hl := stateBeforeGeneration_links e ev
  have hgen := generate_links_facts (stateBeforeGeneration e ev) algoC algoO refuse
  rw [hl] at hgen
  -- the commanded part
  have hcmdS : ∀ r, r ∈ (match commandedOf e ev with
      | some c => c.cancels.sent.map Req.cnl ++ c.opens.sent.map Req.opn | none => []) →
      linkResult e.links r.key.exchange = none := by
    intro r hr
    cases ev with
    | command c =>
      have ha := action_links_facts e c
      simp only [commandedOf, List.mem_append, List.mem_map] at hr
      rcases hr with ⟨q, hq, rfl⟩ | ⟨q, hq, rfl⟩
      · exact ha.1 q hq
      · exact ha.2.1 q hq
    | shutdown => simp [commandedOf] at hr
    | tradingState on => simp [commandedOf] at hr
    | update u => simp [commandedOf] at hr
  have hcmdF : ∀ r err, (r, err) ∈ (match commandedOf e ev with
      | some c => failedOf c.cancels c.opens | none => []) →
      linkResult e.links r.key.exchange = some err := by
    intro r err hr
    cases ev with
    | command c =>
      have ha := action_links_facts e c
      simp only [commandedOf, failedOf, List.mem_append, List.mem_map] at hr
      rcases hr with ⟨⟨q, er⟩, hq, heq⟩ | ⟨⟨q, er⟩, hq, heq⟩
      · injection heq with h1 h2; subst h1; subst h2; exact ha.2.2.1 q er hq
      · injection heq with h1 h2; subst h1; subst h2; exact ha.2.2.2.1 q er hq
    | shutdown => simp [commandedOf] at hr
    | tradingState on => simp [commandedOf] at hr
    | update u => simp [commandedOf] at hr
  refine ⟨?_, ?_⟩
  · intro r hr
    simp only [Audit.sentReqs, hc, List.mem_append] at hr
    rcases hr with hr | hr
    · exact hcmdS r hr
    · rcases hg with ⟨hn, _⟩ | ⟨hs, _⟩
      · rw [hn] at hr; cases hr
      · rw [hs] at hr
        simp only [List.mem_append, List.mem_map] at hr
        rcases hr with ⟨q, hq, rfl⟩ | ⟨q, hq, rfl⟩
        · exact hgen.1 q hq
        · exact hgen.2.1 q hq
  · intro r err hr
    simp only [Audit.failedReqs, hc, List.mem_append] at hr
    rcases hr with hr | hr
    · exact hcmdF r err hr
    · rcases hg with ⟨hn, _⟩ | ⟨hs, _⟩
      · rw [hn] at hr; cases hr
      · rw [hs] at hr
        simp only [failedOf, List.mem_append, List.mem_map] at hr
        rcases hr with ⟨⟨q, er⟩, hq, heq⟩ | ⟨⟨q, er⟩, hq, heq⟩
        · injection heq with h1 h2; subst h1; subst h2; exact hgen.2.2.1 q er hq
        · injection heq with h1 h2; subst h1; subst h2; exact hgen.2.2.2 q er hq

/-- (3, M2) … hence a request the tick reports as failed is in NO delivery of that tick: it is not
among the requests the tick reports as sent, i.e. (by `process_delivers_exactly_sent`) not in what
the tick appended to the delivery log — neither through the call that failed nor through any other
call of the same tick. -/
theorem process_failed_not_delivered (e : Eng) (ev : Event) (algoC : List CancelReq)
    (algoO : List OpenReq) (refuse : Key → Bool) (r : Req) (err : SendError)
    (h : (r, err) ∈ Audit.failedReqs (process e ev algoC algoO refuse).2) :
    r ∉ Audit.sentReqs (process e ev algoC algoO refuse).2 ∧
    (process e ev algoC algoO refuse).1.log = e.log ++ Audit.sentReqs (process e ev algoC algoO refuse).2 := by
  have hf := process_sent_healthy_failed_error e ev algoC algoO refuse
  refine ⟨?_, process_delivers_exactly_sent e ev algoC algoO refuse⟩
  intro hs
  have h1 := hf.1 r hs
  have h2 := hf.2 r err h
  rw [h1] at h2; cases h2

example : Audit.failedReqs (process demo (.command (.sendOpenRequests [o0, o1])) [] [] (fun _ => false)).2
    = [(.opn o1, .terminated)] := by decide +kernel

/-- **Tie to the source by translation: `send_request` / `send_requests`.** `SendRequests::{send_requests, send_request}` for
`Engine`, `SendRequestsOutput::{new, is_empty, unrecoverable_errors}`, `SendCancelsAndOpensOutput::{new, is_empty,
unrecoverable_errors}` (barter/src/engine/action/send_requests.rs), `EngineError` / `RecoverableEngineError` /
`UnrecoverableEngineError` (engine/error.rs), `ExecutionRequest` (execution/request.rs) and the traits `ExecutionTxMap`
(engine/execution_tx.rs), `Tx`, `Unrecoverable` (barter-integration) as records of their methods are regenerated from the
current source by `tools/rust2lean_sm.py` on every run (`Generated/Machines4.lean`, group `send_requests`). The
transmitter map is an ABSTRACT parameter: `find` gives the link or an `UnrecoverableEngineError`, `send` a result — a
`&self` trait method is read as a function of its arguments, so the delivery into the channel (the model's `log`) is the
transmitter's own untranslated effect and the result of one send does not depend on the sends before it within the call
(the model's own assumption about a link: `linkResult`). For ALL engines, maps, transmitters and requests, no hypothesis:
`send_request` is `find`, then `send` of the converted request, `Ok` ⇒ `Ok`, an `is_unrecoverable` error ⇒
`Unrecoverable(ExecutionChannelTerminated)`, any other ⇒ `Recoverable(ExecutionChannelUnhealthy)`, a failed `find` ⇒ that
error wrapped (message texts not modelled); `send_requests` is the ORDER-PRESERVING PARTITION of the requests by
`send_request` (`sent` / `errors` as `NoneOneOrMany::from(Vec)`) — the shape of the model's `sendRequests`
(`send_requests_partition` is about it), whichever way the source spells it (iterator chain + `partition_result`, or a
`for` loop pushing to two vectors); under the instantiation hypothesis `LinksAgree` (the outcome of `send_request` is the
model's `linkResult` at the request's exchange) it IS the model's `SendOut`; `unrecoverable_errors()` collects the
unrecoverable errors in order and is `None` exactly when the model's `fatal` is false. The statement is that of
`KernelsAgree.SendRequestsSM.send_requests_agree` (Lemmas/KernelsAgree/SendRequestsSM.lean). -/
theorem send_requests_agree_with_source :
    type_of% BarterModel.KernelsAgree.SendRequestsSM.send_requests_agree :=
  BarterModel.KernelsAgree.SendRequestsSM.send_requests_agree

end BarterModel.Props.C03
