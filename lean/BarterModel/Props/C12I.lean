import BarterModel.Props.C12
import BarterModel.Model.MarketStreamInit
/-!
# C12I — `init_market_stream`: the composed reconnecting market stream (sub-check of C12)

`initMarketStream` (`Model/MarketStreamInit.lean`) is `barter-data/src/streams/consumer.rs:44-80`
written combinator by combinator over the C12 model. The theorems: it IS the C12 composition
(`runEvents`) on the script read through `DataError::is_terminal`, hence produces the trace the C12
property text prescribes (`run_events_refines_spec` instantiated); a terminal error
(`InvalidSequence`, and only that) ends the CONNECTION, not the stream, and is followed by exactly one
`Reconnecting` notice; every other error is an ITEM of the returned stream and, with the documented
`with_error_handler` appended, goes to the handler instead; no subscription, no stream and no `init`
call; the notices carry the connector's id; the policy constants are those of the source.

Everything quantifies over every exchange id, every policy, every positive number of subscriptions
and every script of `init` outcomes. PARTIAL in the sense of C12 only (list-level trace semantics).
-/
namespace BarterModel.Props.C12I
open BarterModel.Streams BarterModel.MarketStreamInit BarterModel.Props.C12

/-! ## `init_market_stream` is the C12 composition -/

/-- With at least one subscription `init_market_stream` is exactly the composition C12 is about
(`runEvents` = `init_reconnecting_stream.with_reconnect_backoff.with_termination_on_error
.with_reconnection_events`, in this order) on the script whose errors are classified by
`DataError::is_terminal`; the notices carry the exchange id.

BOOKKEEPING, not a result: `initMarketStream` was WRITTEN as that composition (the proof is an
unfolding), so this lemma only lets the C12 theorems be instantiated. That `consumer.rs:72-79` really is
this expression — the order of the combinators, the closure, the policy passed on — is established by
the harness run of the real function (correspondence), not here. -/
theorem is_c12_composition (ex : Nat) (p : Policy) (n : Nat) (hn : n ≠ 0) (script : List MConn) :
    initMarketStream ex p n script = .run ex (runEvents p (script.map MConn.toConn)) := by
  unfold initMarketStream
  rw [if_neg hn]
  congr 1

/-- No subscription: `Err(SubscriptionsEmpty)`, whatever the exchange would have answered: `init` is
never invoked (there is no trace at all). -/
theorem no_subscriptions_no_stream (ex : Nat) (p : Policy) (script : List MConn) :
    initMarketStream ex p 0 script = .subscriptionsEmpty := rfl

theorem specElem_eq (el : MElem) : specElem el = el.toElem := by
  cases el with
  | item x => rfl
  | delay ms => rfl
  | error k id => cases k <;> rfl

/-- The property's reading of a script (terminal = `InvalidSequence`, spelled out variant by variant)
is the model's (`|error| error.is_terminal()`). -/
theorem spec_script_is_model_script (script : List MConn) :
    specScript script = script.map MConn.toConn := by
  induction script with
  | nil => rfl
  | cons c cs ih =>
    cases c with
    | initFail => simp [specScript, MConn.toConn, ih]
    | initOk elems hang =>
      simp only [specScript, MConn.toConn, List.map_cons, ih]
      congr 2
      exact List.map_congr_left (fun el _ => specElem_eq el)

/-- **Refinement** (`run_events_refines_spec` instantiated): for every exchange, policy, number of
subscriptions and script, what `init_market_stream` returns — no stream, or the whole trace of init
invocations, back-off sleeps, items, errors and notices with its final status — is what the C12
property text prescribes (`specInit`: `specEvents` on the script read with "terminal = InvalidSequence"). -/
theorem refines_spec (ex : Nat) (p : Policy) (n : Nat) (script : List MConn) :
    (match initMarketStream ex p n script with
      | .subscriptionsEmpty => SpecOutcome.noStream
      | .run o r => .run o r) = specInit ex p n script := by
  by_cases hn : n = 0
  · subst hn; rfl
  · rw [is_c12_composition ex p n hn, specInit, if_neg hn, spec_script_is_model_script,
      run_events_refines_spec]

/-- the handler stage over a finished run is C12's `runHandler` -/
theorem handlerRun_runEvents (p : Policy) (script : List Conn) :
    handlerRun (runEvents p script) = runHandler p script := by
  cases script with
  | nil => rfl
  | cons c rest => cases c <;> rfl

/-- … and with the documented `.with_error_handler(..)` appended (`run_handler_refines_spec`
instantiated). -/
theorem handler_refines_spec (ex : Nat) (p : Policy) (n : Nat) (script : List MConn) :
    (match initMarketStream ex p n script with
      | .subscriptionsEmpty => SpecOutcome.noStream
      | .run o r => .run o (handlerRun r)) = specInitHandler ex p n script := by
  by_cases hn : n = 0
  · subst hn; rfl
  · rw [is_c12_composition ex p n hn, specInitHandler, if_neg hn, spec_script_is_model_script]
    simp only [handlerRun_runEvents, run_handler_refines_spec]

/-- Every `Reconnecting` notice carries the id of the connector the subscriptions are for
(`with_reconnection_events(exchange)`, `exchange = Exchange::ID`).

BOOKKEEPING, not a result: `Event.reconnecting` of the C12 model has no origin field; the origin is a
tag of `Outcome.run` copied from the argument, so this statement is true by construction. That every
notice of the REAL stream carries `Exchange::ID` is checked only by the correspondence (the harness
prints the origin of each notice, the driver prints the tag: `mutants/C12I_origin_constant.patch`). -/
theorem origin_is_exchange (ex : Nat) (p : Policy) (n : Nat) (hn : n ≠ 0) (script : List MConn) :
    ∃ r, initMarketStream ex p n script = .run ex r := ⟨_, is_c12_composition ex p n hn script⟩

/-! ## Terminal errors end the connection, not the stream -/

/-- `DataError::is_terminal`: `InvalidSequence` and nothing else — over ALL EIGHT variants of
`DataError` (`error.rs:8-44`; since the second review `ErrKind` lists also `Index`, `SubscriptionsEmpty`,
`UnsupportedSubKind`, `Unsupported`, which the harness scripts as stream errors too). -/
theorem terminal_iff_invalid_sequence (k : ErrKind) : k.isTerminal = true ↔ k = .invalidSequence := by
  cases k <;> simp [ErrKind.isTerminal]

/-- The seven variants that do NOT end a connection, by name (the `_ => false` arm of `error.rs:49-54`
spelled out). -/
theorem non_terminal_variants :
    [ErrKind.invalidSequence, .socket, .snapshotMissing, .snapshotInvalid, .index, .subscriptionsEmpty,
      .unsupportedSubKind, .unsupported].filter (fun k => !k.isTerminal) =
    [.socket, .snapshotMissing, .snapshotInvalid, .index, .subscriptionsEmpty, .unsupportedSubKind,
      .unsupported] := by decide

/-- The packing of a `DataError` (variant, payload) into the error id of the C12 model loses nothing:
the driver's `ev err <k><id>` / `ev handled <k><id>` lines are read back from the code faithfully, so
"which error was delivered / handled" in the theorems below is about the scripted variant and payload. -/
theorem err_code_round_trip (k : ErrKind) (id : Nat) :
    errKindOf (errCode k id) = k ∧ errIdOf (errCode k id) = id := by
  constructor
  · cases k <;> simp [errKindOf, errCode, ErrKind.idx, ErrKind.ofIdx, Nat.add_mod]
  · cases k <;> simp [errIdOf, errCode, ErrKind.idx] <;> omega

/-- distinct (variant, payload) pairs are distinct error ids of the C12 model -/
theorem err_code_injective (k k' : ErrKind) (id id' : Nat) (h : errCode k id = errCode k' id') :
    k = k' ∧ id = id' := by
  have a := err_code_round_trip k id
  have b := err_code_round_trip k' id'
  rw [h] at a
  exact ⟨a.1.symm.trans b.1, a.2.symm.trans b.2⟩

/-- elements none of which is an `InvalidSequence` error -/
def NoTerminal (a : List MElem) : Prop := ∀ el ∈ a, ∀ id, el ≠ .error .invalidSequence id

theorem hasTerminal_of_noTerminal (a : List MElem) (h : NoTerminal a) :
    hasTerminal (a.map MElem.toElem) = false := by
  induction a with
  | nil => rfl
  | cons el r ih =>
    have hr : NoTerminal r := fun x hx => h x (by simp [hx])
    cases el with
    | item x => simpa [MElem.toElem, hasTerminal] using ih hr
    | delay ms => simpa [MElem.toElem, hasTerminal] using ih hr
    | error k id =>
      cases k with
      | invalidSequence => exact absurd rfl (h _ (by simp) id)
      | socket => simpa [MElem.toElem, hasTerminal, ErrKind.isTerminal] using ih hr
      | snapshotMissing => simpa [MElem.toElem, hasTerminal, ErrKind.isTerminal] using ih hr
      | snapshotInvalid => simpa [MElem.toElem, hasTerminal, ErrKind.isTerminal] using ih hr
      | index => simpa [MElem.toElem, hasTerminal, ErrKind.isTerminal] using ih hr
      | subscriptionsEmpty => simpa [MElem.toElem, hasTerminal, ErrKind.isTerminal] using ih hr
      | unsupportedSubKind => simpa [MElem.toElem, hasTerminal, ErrKind.isTerminal] using ih hr
      | unsupported => simpa [MElem.toElem, hasTerminal, ErrKind.isTerminal] using ih hr

/-- the events the returned stream delivers -/
def delivered (ex : Nat) (p : Policy) (n : Nat) (script : List MConn) : List (Event Res) :=
  match initMarketStream ex p n script with
  | .subscriptionsEmpty => []
  | .run _ r => yields r.steps

def finOf (ex : Nat) (p : Policy) (n : Nat) (script : List MConn) : Option Fin :=
  match initMarketStream ex p n script with
  | .subscriptionsEmpty => none
  | .run _ r => some r.fin

/-- **A terminal error ends the CONNECTION, not the stream, and is followed by exactly one
`Reconnecting` notice.** A first connection that yields `a` (no `InvalidSequence` in it), then an
`InvalidSequence`, then anything (`b`), whether or not the socket would have stayed open: the consumer
receives exactly the items / non-terminal errors of `a` — neither the terminal error nor anything of
`b` —, then ONE notice (there is none inside the connection's own contribution), then whatever the
re-initialised connections of `rest` contribute; and the stream has not ended. -/
theorem terminal_error_ends_connection_not_stream (ex : Nat) (p : Policy) (n : Nat) (hn : n ≠ 0)
    (a b : List MElem) (id : Nat) (hang : Bool) (rest : List MConn) (ha : NoTerminal a) :
    delivered ex p n (.initOk (a ++ .error .invalidSequence id :: b) hang :: rest) =
      connItems (a.map MElem.toElem) ++ .reconnecting :: segments (rest.map MConn.toConn) ∧
    (connItems (a.map MElem.toElem)).count .reconnecting = 0 ∧
    finOf ex p n (.initOk (a ++ .error .invalidSequence id :: b) hang :: rest) ≠ some .ended := by
  have hcut := terminal_error_cuts (a.map MElem.toElem) (b.map MElem.toElem)
    (errCode .invalidSequence id) (hasTerminal_of_noTerminal a ha)
  have hd : dropped (a.map MElem.toElem ++
      .error (errCode .invalidSequence id) true :: b.map MElem.toElem) hang = true := by
    have := hcut.2
    simp only [dropped, Bool.not_true, Bool.or_false] at this
    simp [dropped, this]
  refine ⟨?_, connItems_no_notice _, ?_⟩
  · simp only [delivered, is_c12_composition ex p n hn, List.map_cons, MConn.toConn, List.map_append,
      MElem.toElem, ErrKind.isTerminal]
    rw [items_once_in_order]
    simp only [segments, hcut.1, hd, if_true]
  · simp only [finOf, is_c12_composition ex p n hn]
    intro h
    exact (never_ends p _).1 (Option.some.inj h)

/-- **Every other error is an item of the returned stream and does not end the connection**: a
non-terminal error (`Socket`, `InitialSnapshotMissing`, `InitialSnapshotInvalid`, `Index`,
`SubscriptionsEmpty`, `UnsupportedSubKind`, `Unsupported` — every variant but `InvalidSequence`) after `a` is delivered
as `Event::Item(Err(_))` in place, and what follows it in the connection is still delivered. -/
theorem non_terminal_error_is_an_item (k : ErrKind) (hk : k ≠ .invalidSequence) (a b : List MElem)
    (id : Nat) (ha : NoTerminal a) :
    connItems ((a ++ .error k id :: b).map MElem.toElem) =
      connItems (a.map MElem.toElem) ++ .item (.err ⟨errCode k id, false⟩) ::
        connItems (b.map MElem.toElem) := by
  have hf : k.isTerminal = false := by cases k <;> simp_all [ErrKind.isTerminal]
  simp only [List.map_append, List.map_cons, MElem.toElem, hf]
  exact errors_pass _ _ _ (hasTerminal_of_noTerminal a ha)

/-- … and the whole stream delivers, connection by connection, `segments` (items and non-terminal
errors up to the end / first `InvalidSequence`, one notice per finished connection). -/
theorem delivered_is_segments (ex : Nat) (p : Policy) (n : Nat) (hn : n ≠ 0) (elems : List MElem)
    (hang : Bool) (rest : List MConn) :
    delivered ex p n (.initOk elems hang :: rest) =
      segments ((MConn.initOk elems hang :: rest).map MConn.toConn) := by
  simp only [delivered, is_c12_composition ex p n hn, List.map_cons, MConn.toConn]
  exact items_once_in_order p _ hang _

/-- **With the documented error handler appended, non-terminal errors go to the handler and are not
items**: the consumer receives the same events minus the errors, the handler is called exactly once
per passed-through error, in order (`errors_to_handler` instantiated). -/
theorem errors_go_to_handler (ex : Nat) (p : Policy) (n : Nat) (hn : n ≠ 0) (elems : List MElem)
    (hang : Bool) (rest : List MConn) :
    ∃ r, initMarketStream ex p n (.initOk elems hang :: rest) = .run ex r ∧
      yields (handlerRun r).steps =
        okEvents (segments ((MConn.initOk elems hang :: rest).map MConn.toConn)) ∧
      handledOf (effects (handlerRun r).steps) =
        errorIds (segments ((MConn.initOk elems hang :: rest).map MConn.toConn)) := by
  refine ⟨_, is_c12_composition ex p n hn _, ?_⟩
  rw [handlerRun_runEvents]
  simp only [List.map_cons, MConn.toConn]
  exact errors_to_handler p _ hang _

/-- The first `init` failing is the function's own error: no stream, one attempt, nothing delivered
(`.await?`, consumer.rs:76). -/
theorem first_init_failure_is_an_error (ex : Nat) (p : Policy) (n : Nat) (hn : n ≠ 0)
    (rest : List MConn) :
    initMarketStream ex p n (.initFail :: rest) = .run ex ⟨[.eff .attempt], .initError⟩ := by
  rw [is_c12_composition ex p n hn]; rfl

/-- The stream never ends by itself, and what has been observed on a script stays observed however
the exchange goes on (`never_ends`, `run_prefix` instantiated). -/
theorem never_ends_and_stable (ex : Nat) (p : Policy) (n : Nat) (script ext : List MConn) :
    finOf ex p n script ≠ some .ended ∧
    delivered ex p n script <+: delivered ex p n (script ++ ext) := by
  by_cases hn : n = 0
  · subst hn; simp [finOf, delivered, no_subscriptions_no_stream]
  · constructor
    · simp only [finOf, is_c12_composition ex p n hn]
      intro h
      exact (never_ends p _).1 (Option.some.inj h)
    · simp only [delivered, is_c12_composition ex p n hn, List.map_append]
      obtain ⟨t, ht⟩ := (run_prefix p (script.map MConn.toConn) (ext.map MConn.toConn)).1
      rw [← ht]
      exact ⟨yields t, (yields_append _ _).symm⟩

/-! ## The policy constants -/

/-- `STREAM_RECONNECTION_POLICY` (consumer.rs:23-27): 125 ms initial, multiplier 2, 60 s maximum. -/
theorem default_policy_constants :
    streamReconnectionPolicy.initial = 125 ∧ streamReconnectionPolicy.mult = 2 ∧
    streamReconnectionPolicy.max = 60000 := ⟨rfl, rfl, rfl⟩

/-- Under the default policy the wait after the `n`-th consecutive failed re-initialisation is
`min(125 · 2ⁿ, 60000)` ms: 125, 250, 500, 1 000, 2 000, 4 000, 8 000, 16 000, 32 000 and 60 000 from
the tenth failure on. -/
theorem default_policy_waits (n : Nat) :
    backoffAt streamReconnectionPolicy n = min (125 * 2 ^ n) 60000 := by
  cases n with
  | zero => rfl
  | succ n => exact backoff_closed_form_all streamReconnectionPolicy n

theorem default_policy_capped (n : Nat) (h : 9 ≤ n) : backoffAt streamReconnectionPolicy n = 60000 := by
  rw [default_policy_waits]
  have : 2 ^ 9 ≤ 2 ^ n := Nat.pow_le_pow_right (by decide) h
  omega

/-! ## Non-vacuity -/

/-- ok[1, Socket 7, 2, InvalidSequence 9, 99] (socket stays open), fail, fail, ok[3] (open) -/
def demo : List MConn :=
  [.initOk [.item 1, .error .socket 7, .item 2, .error .invalidSequence 9, .item 99] true,
   .initFail, .initFail, .initOk [.item 3] true]

example : NoTerminal [.item 1, .error .socket 7, .item 2] := by
  intro el hel id h; subst h; simp at hel

example : delivered 5 streamReconnectionPolicy 1 demo =
    [.item (.ok 1), .item (.err ⟨errCode .socket 7, false⟩), .item (.ok 2), .reconnecting,
     .item (.ok 3)] := by decide

example : (match initMarketStream 5 streamReconnectionPolicy 1 demo with
    | .run o r => (o, sleepsOf (effects r.steps), r.fin) | _ => (0, [], .ended)) =
    (5, [125, 250], .pending) := by decide

example : (List.range 11).map (backoffAt streamReconnectionPolicy) =
    [125, 250, 500, 1000, 2000, 4000, 8000, 16000, 32000, 60000, 60000] := by decide

example : initMarketStream 5 streamReconnectionPolicy 0 demo = .subscriptionsEmpty := rfl

end BarterModel.Props.C12I
