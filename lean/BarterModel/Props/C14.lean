import BarterModel.Lemmas.Connectivity
import BarterModel.Lemmas.KernelsAgree.Connectivity
import BarterModel.Lemmas.KernelsAgree.ConnectivityUpdSM
/-!
# C14 — Global connectivity is healthy exactly when every exchange link is

Statements only (proofs go through `Lemmas/Connectivity.lean`). `n` is the number of exchanges,
histories start from `Eng.init n` (all links and global `reconnecting`), every event names an
exchange `< n` (`ValidEvs`; the code panics otherwise), and `0 < n` (with no exchange no event can
be routed and the initial global `reconnecting` never changes — excluded, see DESIGN §7 C14).
-/
namespace BarterModel.Props.C14
open BarterModel.Conn

def ValidEvs (n : Nat) (evs : List Ev) : Prop := ∀ ev ∈ evs, ev.exchange < n

/-- Reachable engine states. -/
def Reach (n : Nat) (s : Eng) : Prop := ∃ evs, ValidEvs n evs ∧ s = Eng.run (Eng.init n) evs

theorem reach_canon {n : Nat} (hn : 0 < n) {s : Eng} (h : Reach n s) :
    Canon s.conn ∧ s.conn.exchanges.length = n := by
  obtain ⟨evs, hv, rfl⟩ := h
  suffices H : ∀ (s : Eng), Canon s.conn → s.conn.exchanges.length = n →
      Canon (Eng.run s evs).conn ∧ (Eng.run s evs).conn.exchanges.length = n by
    exact H _ (canon_init n hn) (by simp [Eng.init, States.init])
  induction evs with
  | nil => intro s h1 h2; exact ⟨h1, h2⟩
  | cons ev evs ih =>
    intro s h1 h2
    have hev : ev.exchange < s.conn.exchanges.length := by
      rw [h2]; exact hv ev (by simp)
    have hstep := step_conn_eq s ev h1 hev
    simp only [Eng.run, List.foldl_cons]
    apply ih (fun e he => hv e (by simp [he]))
    · rw [hstep]; exact canon_canon _
    · rw [hstep]; simp [canon, linkStep_length, h2]

/-- (1) `iff`: in every reachable state, global is healthy exactly when every exchange's market
data link and account link are healthy. -/
theorem global_healthy_iff {n : Nat} (hn : 0 < n) {s : Eng} (h : Reach n s) :
    s.conn.global = .healthy ↔
      ∀ c ∈ s.conn.exchanges, c.marketData = .healthy ∧ c.account = .healthy := by
  have ⟨hc, _⟩ := reach_canon hn h
  rw [hc]; unfold canon; simp only
  by_cases hall : s.conn.exchanges.all CState.allHealthy = true
  · simp only [hall, ↓reduceIte, true_iff]
    intro c hcm
    have := (List.all_eq_true.mp hall) c hcm
    simpa [CState.allHealthy] using this
  · simp only [hall]
    constructor
    · intro h; cases h
    · intro h; exfalso; apply hall
      rw [List.all_eq_true]; intro c hcm
      have := h c hcm
      simp [CState.allHealthy, this.1, this.2]

/-- (2) `notice_marks`: a disconnect notice for exchange `e` sets exactly that exchange's link to
`reconnecting` (and global to `reconnecting`); every other link is untouched. Holds from any state. -/
theorem market_notice_marks (s : Eng) (e : Nat) (c : CState) (hc : s.conn.exchanges[e]? = some c) :
    let s' := s.step (.marketReconnecting e)
    s'.conn.global = .reconnecting ∧
    s'.conn.exchanges[e]? = some { c with marketData := .reconnecting } ∧
    ∀ e', e' ≠ e → s'.conn.exchanges[e']? = s.conn.exchanges[e']? := by
  simp only [Eng.step, States.marketReconnecting, modify_getElem?, hc]
  refine ⟨trivial, by simp, ?_⟩
  intro e' hne; simp [hne]

theorem account_notice_marks (s : Eng) (e : Nat) (c : CState) (hc : s.conn.exchanges[e]? = some c) :
    let s' := s.step (.accountReconnecting e)
    s'.conn.global = .reconnecting ∧
    s'.conn.exchanges[e]? = some { c with account := .reconnecting } ∧
    ∀ e', e' ≠ e → s'.conn.exchanges[e']? = s.conn.exchanges[e']? := by
  simp only [Eng.step, States.accountReconnecting, modify_getElem?, hc]
  refine ⟨trivial, by simp, ?_⟩
  intro e' hne; simp [hne]

/-- (3) `next_event_heals`: in a reachable state, an item from exchange `e`'s market (account)
link leaves that link healthy and changes no other link. -/
theorem market_item_heals {n : Nat} (hn : 0 < n) {s : Eng} (h : Reach n s) (e : Nat) (he : e < n)
    (c : CState) (hc : s.conn.exchanges[e]? = some c) :
    let s' := s.step (.marketItem e)
    s'.conn.exchanges[e]? = some { c with marketData := .healthy } ∧
    ∀ e', e' ≠ e → s'.conn.exchanges[e']? = s.conn.exchanges[e']? := by
  have ⟨h1, h2⟩ := reach_canon hn h
  have := step_conn_eq s (.marketItem e) h1 (by simpa [Ev.exchange, h2] using he)
  simp only [this, canon, linkStep, modify_getElem?, hc]
  refine ⟨by simp [setMarket], ?_⟩
  intro e' hne; simp [hne]

theorem account_item_heals {n : Nat} (hn : 0 < n) {s : Eng} (h : Reach n s) (e : Nat) (he : e < n)
    (c : CState) (hc : s.conn.exchanges[e]? = some c) :
    let s' := s.step (.accountItem e)
    s'.conn.exchanges[e]? = some { c with account := .healthy } ∧
    ∀ e', e' ≠ e → s'.conn.exchanges[e']? = s.conn.exchanges[e']? := by
  have ⟨h1, h2⟩ := reach_canon hn h
  have := step_conn_eq s (.accountItem e) h1 (by simpa [Ev.exchange, h2] using he)
  simp only [this, canon, linkStep, modify_getElem?, hc]
  refine ⟨by simp [setAccount], ?_⟩
  intro e' hne; simp [hne]

/-- (4) `on_disconnect_once`: over any history the on-disconnect strategy has been invoked exactly
once per disconnect notice, in order, each time with the exchange the notice named; items invoke
nothing. (Needs no hypothesis at all.) -/
theorem on_disconnect_once (s : Eng) (evs : List Ev) :
    (Eng.run s evs).disconnects = s.disconnects ++ specDisconnects evs := by
  induction evs generalizing s with
  | nil => simp [Eng.run, specDisconnects]
  | cons ev evs ih =>
    simp only [Eng.run, List.foldl_cons] at *
    rw [ih]
    cases ev <;> simp [Eng.step, specDisconnects]

/-- Refinement to the history-only specification: each link's health is "the last thing seen on
that link" and global is the conjunction. Everything above is a corollary of this and
`on_disconnect_once`; it is what the oracle evaluates on implementation traces. -/
theorem refines_spec {n : Nat} (hn : 0 < n) (evs : List Ev) (hv : ValidEvs n evs) :
    let s := Eng.run (Eng.init n) evs
    (∀ e, e < n → s.conn.exchanges[e]? = some ⟨specMarket e evs, specAccount e evs⟩) ∧
    s.conn.global = specGlobal n evs ∧
    s.disconnects = specDisconnects evs := by
  -- generalised over the start state
  have key : ∀ (evs : List Ev) (s : Eng), ValidEvs n evs → Canon s.conn →
      s.conn.exchanges.length = n →
      ∀ e, e < n → ∀ c, s.conn.exchanges[e]? = some c →
        (Eng.run s evs).conn.exchanges[e]? =
          some ⟨specLinkFrom c.marketData (· == .marketReconnecting e) (· == .marketItem e) evs,
                specLinkFrom c.account (· == .accountReconnecting e) (· == .accountItem e) evs⟩ := by
    intro evs
    induction evs with
    | nil => intro s _ _ _ e _ c hc; simpa [Eng.run, specLinkFrom] using hc
    | cons ev evs ih =>
      intro s hv h1 h2 e he c hc
      have hev : ev.exchange < s.conn.exchanges.length := by rw [h2]; exact hv ev (by simp)
      have hstep := step_conn_eq s ev h1 hev
      simp only [Eng.run, List.foldl_cons, specLinkFrom]
      have hc' : (s.step ev).conn.exchanges[e]? = (linkStep s.conn.exchanges ev)[e]? := by
        rw [hstep]; rfl
      have := ih (s.step ev) (fun x hx => hv x (by simp [hx])) (by rw [hstep]; exact canon_canon _)
        (by rw [hstep]; simp [canon, linkStep_length, h2]) e he
      cases ev with
      | marketItem x =>
        simp only [linkStep, modify_getElem?] at hc'
        by_cases hx : e = x
        · subst hx; simp [hc, setMarket] at hc'
          have := this _ hc'; simpa [Eng.run, specLinkFrom] using this
        · simp [hx, hc] at hc'
          have := this _ hc'
          simpa [Eng.run, specLinkFrom, show x ≠ e from fun h => hx h.symm] using this
      | accountItem x =>
        simp only [linkStep, modify_getElem?] at hc'
        by_cases hx : e = x
        · subst hx; simp [hc, setAccount] at hc'
          have := this _ hc'; simpa [Eng.run, specLinkFrom] using this
        · simp [hx, hc] at hc'
          have := this _ hc'
          simpa [Eng.run, specLinkFrom, show x ≠ e from fun h => hx h.symm] using this
      | marketReconnecting x =>
        simp only [linkStep, modify_getElem?] at hc'
        by_cases hx : e = x
        · subst hx; simp [hc, setMarket] at hc'
          have := this _ hc'; simpa [Eng.run, specLinkFrom] using this
        · simp [hx, hc] at hc'
          have := this _ hc'
          simpa [Eng.run, specLinkFrom, show x ≠ e from fun h => hx h.symm] using this
      | accountReconnecting x =>
        simp only [linkStep, modify_getElem?] at hc'
        by_cases hx : e = x
        · subst hx; simp [hc, setAccount] at hc'
          have := this _ hc'; simpa [Eng.run, specLinkFrom] using this
        · simp [hx, hc] at hc'
          have := this _ hc'
          simpa [Eng.run, specLinkFrom, show x ≠ e from fun h => hx h.symm] using this
  have hlinks : ∀ e, e < n →
      (Eng.run (Eng.init n) evs).conn.exchanges[e]? = some ⟨specMarket e evs, specAccount e evs⟩ := by
    intro e he
    have := key evs (Eng.init n) hv (canon_init n hn) (by simp [Eng.init, States.init]) e he
      ⟨.reconnecting, .reconnecting⟩ (by simp [Eng.init, States.init, he])
    simpa [specMarket, specAccount, specLink] using this
  refine ⟨hlinks, ?_, by simpa [Eng.init] using on_disconnect_once (Eng.init n) evs⟩
  -- global
  have hr : Reach n (Eng.run (Eng.init n) evs) := ⟨evs, hv, rfl⟩
  have ⟨hc, hl⟩ := reach_canon hn hr
  have hb : (Eng.run (Eng.init n) evs).conn.exchanges.all CState.allHealthy =
      (List.range n).all (fun e => specMarket e evs == .healthy && specAccount e evs == .healthy) := by
    rw [Bool.eq_iff_iff, List.all_eq_true, List.all_eq_true]
    constructor
    · intro h e he
      have he' : e < n := by simpa using he
      have hm : (⟨specMarket e evs, specAccount e evs⟩ : CState) ∈
          (Eng.run (Eng.init n) evs).conn.exchanges := List.mem_of_getElem? (hlinks e he')
      have := h _ hm
      simpa [CState.allHealthy] using this
    · intro h c hcm
      obtain ⟨e, he, rfl⟩ := List.mem_iff_getElem.mp hcm
      have he' : e < n := by rw [← hl]; exact he
      have h1 := hlinks e he'
      have h2 := h e (by simpa using he')
      rw [List.getElem?_eq_getElem he] at h1
      injection h1 with h1
      rw [h1]; simpa [CState.allHealthy] using h2
  rw [hc]; unfold canon specGlobal; simp only [hb]

/-! Non-vacuity: a concrete non-trivial reachable state; the hypotheses are satisfiable and the
conclusions are not trivially true. -/
example : ValidEvs 2 [.marketItem 0, .accountItem 0, .marketItem 1, .accountItem 1,
    .accountReconnecting 1, .accountItem 1] := by
  intro ev h; simp at h; rcases h with h | h | h | h | h | h <;> subst h <;> decide
example : (Eng.run (Eng.init 2) [.marketItem 0, .accountItem 0, .marketItem 1, .accountItem 1]).conn.global
    = .healthy := by decide
example : (Eng.run (Eng.init 2) [.marketItem 0, .accountItem 0, .marketItem 1, .accountItem 1,
    .accountReconnecting 1]).conn.global = .reconnecting := by decide
example : (Eng.run (Eng.init 2) [.marketItem 0, .accountItem 0, .marketItem 1, .accountItem 1,
    .accountReconnecting 1, .accountItem 1]).conn.global = .healthy := by decide

/-- **Tie to the source by translation** (the part of connectivity/mod.rs the translator accepts):
`enum Health` with its `Default`, `struct ConnectivityState` and `ConnectivityState::all_healthy`
are regenerated from the current source by `tools/rust2lean_sm.py` on every run and equal the
model's `Health`, `CState` and `allHealthy` through a record bijection; the default health is
`reconnecting`. The per-exchange update arms use `IndexMap` accessors and the iterator adaptor
`values().all(..)`; since the translator has an explicit map vocabulary for these they are tied by
translation as well: see `update_arms_agree_with_source` below. -/
theorem kernels_agree_with_source :
    type_of% BarterModel.KernelsAgree.Connectivity.connectivity_kernels_agree :=
  BarterModel.KernelsAgree.Connectivity.connectivity_kernels_agree

/-- **Tie to the source by translation, the update arms.** `ConnectivityStates::{update_from_account_reconnecting,
update_from_account_event, update_from_market_reconnecting, update_from_market_event, connectivity, connectivity_index,
exchange_states}` and `ExchangeIndex::index` are regenerated from the current source by `tools/rust2lean_sm.py` on
every run (`Generated/Machines3.lean`, group `connectivity_updates`); the `&mut`-returning accessors `connectivity_mut` /
`connectivity_index_mut` are read in place at their calls, the `IndexMap<ExchangeId, ConnectivityState>` through the
translator's explicit map vocabulary (a list of pairs addressed by position and by key, written back in place;
`values().all(p)` is `List.all`). For ALL states: read through `ofStates` (global health by the `Health` bijection, the
exchanges as the list of values in map order), each generated update function is the model function the theorems of
this file are about — `States.accountReconnecting` / `marketReconnecting` / `marketEvent` at the position of the first
pair with that `ExchangeId` (`pos`), `States.accountEvent` at the `ExchangeIndex` — PROVIDED the addressed exchange
exists (`pos s k < length` / `i < length`): otherwise the code panics where the model leaves the state unchanged, which
is the guard `e < n` every theorem above carries. No update changes the key list (so positions are stable along a run),
the two `&self` readers return the addressed slot, and every model state is the image of a generated one (`toStates`).
The statement is that of `KernelsAgree.ConnectivityUpdSM.connectivity_updates_agree`
(Lemmas/KernelsAgree/ConnectivityUpdSM.lean). -/
theorem update_arms_agree_with_source :
    type_of% BarterModel.KernelsAgree.ConnectivityUpdSM.connectivity_updates_agree :=
  BarterModel.KernelsAgree.ConnectivityUpdSM.connectivity_updates_agree

end BarterModel.Props.C14
