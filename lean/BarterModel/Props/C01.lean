import BarterModel.Lemmas.Orders
import BarterModel.Lemmas.Review1
import BarterModel.Lemmas.KernelsAgree.OrdersSM
/-!
# C01 — Active-order tracking follows the documented order lifecycle

`Orders` is the per-instrument table of tracked orders, `Engine` the list of tables by instrument
index. `stateOf m c` is the tracked state of client order id `c` (`none` = untracked).
`Lifecycle.step` is the documented lifecycle of one id (Model/Orders.lean, written from the
property text). All theorems hold from **every** table `m` (not only reachable ones) and for every
finite op list. The only hypothesis is `exchangeStatesOnly`: order snapshots carry the states an
exchange can report (in-flight echo / open / cancelled / fully filled / failed / expired), not a
hand-built "cancel in flight" marker.
The timestamp clause ("never moves back to an older exchange timestamp") is proved **per tracking
episode** of an id (`time_monotone_step`, `time_monotone_run`, `time_monotone_episode`); across
episodes it is false of model and code, which is made visible by the kernel-checked witnesses
`resurrection_witness` and `duplicate_request_witness` at the end of the file.
-/
namespace BarterModel.Props.C01
open BarterModel.Orders

/-- (1a) Reports about one order never change another: an op about id `op.cid` leaves the entry of
every other id untouched (same instrument). -/
theorem frame_cid (m : Orders) (op : Op) (c' : Nat) (h : c' ≠ op.cid) :
    lookup (step m op) c' = lookup m c' := step_frame m op c' h

/-- (1b) An op routed to instrument `i` leaves every other instrument's table untouched. -/
theorem frame_instrument (e : Engine) (i j : Nat) (op : Op) (h : j ≠ i) :
    (e.apply i op)[j]? = e[j]? := by
  unfold Engine.apply
  split
  · simp [List.getElem?_set, Ne.symm h]
  · rfl

/-- (1c) and the routed instrument's table is stepped by exactly that op. -/
theorem apply_routed (e : Engine) (i : Nat) (op : Op) (m : Orders) (h : e[i]? = some m) :
    (e.apply i op)[i]? = some (step m op) := by
  unfold Engine.apply
  rw [h]
  have : i < e.length := by
    rcases List.getElem?_eq_some_iff.mp h with ⟨hl, _⟩; exact hl
  simp [this]

/-- (2) Refinement to the lifecycle table, one step. -/
theorem refines_lifecycle_step (m : Orders) (op : Op) (c : Nat) (hx : op.exchangeStatesOnly = true) :
    stateOf (step m op) c = Lifecycle.stepOp c (stateOf m c) op := step_refines m op c hx

/-- (2) Refinement to the lifecycle table over any history: for every id, the tracked state after
any op sequence is the lifecycle automaton run on that id's inputs. -/
theorem refines_lifecycle (m : Orders) (ops : List Op) (c : Nat)
    (hx : ∀ op ∈ ops, op.exchangeStatesOnly = true) :
    stateOf (run m ops) c = Lifecycle.run c (stateOf m c) ops := by
  induction ops generalizing m with
  | nil => rfl
  | cons op ops ih =>
    simp only [run, Lifecycle.run, List.foldl_cons]
    have h1 := ih (step m op) (fun o ho => hx o (by simp [ho]))
    simp only [run, Lifecycle.run] at h1
    rw [h1, step_refines m op c (hx op (by simp))]

/-- (2') Engine level: the table of instrument `i` after any routed history is the run of the ops
routed to `i`. -/
theorem engine_run_instrument (e : Engine) (ops : List (Nat × Op)) (i : Nat) (m : Orders)
    (h : e[i]? = some m) :
    (e.run ops)[i]? = some (run m ((ops.filter (fun io => io.1 = i)).map (·.2))) := by
  induction ops generalizing e m with
  | nil => simpa [Engine.run, run] using h
  | cons io ops ih =>
    obtain ⟨j, op⟩ := io
    simp only [Engine.run, List.foldl_cons]
    by_cases hj : j = i
    · subst hj
      have := ih (e.apply j op) (step m op) (apply_routed e j op m h)
      simpa [Engine.run, run] using this
    · have h' : (e.apply j op)[i]? = some m := by rw [frame_instrument e j i op (fun x => hj x.symm)]; exact h
      have := ih (e.apply j op) m h'
      simpa [Engine.run, run, hj] using this

/-- (3) An order stops being tracked as soon as the exchange reports it cancelled / fully filled /
failed / expired — from every prior state. -/
theorem untracked_on_inactive (m : Orders) (cid : Nat) (q p : Rat) (k : Inactive) (x : Nat) :
    lookup (step m (.snapshot ⟨cid, q, p, .inactive k, x⟩)) cid = none := by
  simp only [step, updateFromSnapshot]
  cases hl : lookup m cid with
  | none => simpa using hl
  | some cur => simp [lookup_erase_self]

/-- (3) … or reports it open with nothing left to fill — from every prior state, whatever the
report's timestamp. -/
theorem untracked_on_open_nothing_left (m : Orders) (cid : Nat) (q p : Rat) (o : Open) (x : Nat)
    (hz : remZero q o = true) :
    lookup (step m (.snapshot ⟨cid, q, p, .active (.opn o), x⟩)) cid = none := by
  have h := step_refines m (.snapshot ⟨cid, q, p, .active (.opn o), x⟩) cid rfl
  simp only [stateOf, Lifecycle.stepOp, Op.input, ↓reduceIte, hz, Lifecycle.step] at h
  cases hl : lookup (step m (.snapshot ⟨cid, q, p, .active (.opn o), x⟩)) cid with
  | none => rfl
  | some x => simp [hl] at h

/-- (3) … or confirms a cancel — from every prior state. -/
theorem untracked_on_cancel_ok (m : Orders) (cid : Nat) :
    lookup (step m (.cancelResp cid true)) cid = none := by
  have h := step_refines m (.cancelResp cid true) cid rfl
  simp only [stateOf, Lifecycle.stepOp, Op.input, ↓reduceIte, Lifecycle.step] at h
  cases hl : lookup (step m (.cancelResp cid true)) cid with
  | none => rfl
  | some x => simp [hl] at h

/-- (3) An order becomes tracked when a request for it is sent. -/
theorem tracked_on_request (m : Orders) (cid : Nat) (q p : Rat) (x : Nat) :
    stateOf (step m (.recOpen cid q p x)) cid = some .inFlight := by
  simp [stateOf, step, recordInFlightOpen, lookup_insert_self]

/-- (3) … or when the exchange reports it open with something left to fill. -/
theorem tracked_on_open_report (m : Orders) (cid : Nat) (q p : Rat) (o : Open) (x : Nat)
    (hz : remZero q o = false) :
    (stateOf (step m (.snapshot ⟨cid, q, p, .active (.opn o), x⟩)) cid).isSome = true := by
  rw [step_refines _ _ _ rfl]
  simp only [Lifecycle.stepOp, Op.input, ↓reduceIte, hz]
  cases h : stateOf m cid with
  | none => simp [Lifecycle.step]
  | some a =>
    cases a with
    | inFlight => simp [Lifecycle.step]
    | opn c => simp only [Lifecycle.step]; split <;> simp
    | cancelInFlight x =>
      cases x with
      | none => simp [Lifecycle.step]
      | some c => simp only [Lifecycle.step]; split <;> simp

/-- (5) A failed cancel restores the last exchange-confirmed open state (and untracks an order the
exchange never confirmed). -/
theorem cancel_err_restores (m : Orders) (cid : Nat) :
    stateOf (step m (.cancelResp cid false)) cid =
      match stateOf m cid with
      | some (.cancelInFlight (some o)) => some (.opn o)
      | some (.cancelInFlight none) => none
      | other => other := by
  rw [step_refines _ _ _ rfl]
  simp only [Lifecycle.stepOp, Op.input, ↓reduceIte]
  generalize stateOf m cid = st
  cases st with
  | none => rfl
  | some a =>
    cases a with
    | inFlight => rfl
    | opn o => rfl
    | cancelInFlight x => cases x <;> rfl

/-- "never moves back": if exchange data with timestamp `t` was held, then afterwards the id is
either untracked or holds exchange data with a timestamp `≥ t`. NOTE: "untracked afterwards" counts
as success, so this is a statement about ONE tracking episode of the id; see the section "Scope of the
timestamp clause as proved" at the end of this file. -/
def NoRollback (before after : Option Active) : Prop :=
  ∀ t, heldTime before = some t → after = none ∨ ∃ t', heldTime after = some t' ∧ t ≤ t'

/-- (4) The exchange-reported data held for an order never moves back to an older exchange
timestamp — for every op except re-sending an open request with an id that is already tracked
(the code overwrites the entry and logs an error; excluded point, run on the implementation). -/
theorem time_monotone_step (m : Orders) (op : Op) (c : Nat) (hx : op.exchangeStatesOnly = true)
    (hdup : ∀ q p x, op = .recOpen c q p x → stateOf m c = none) :
    NoRollback (stateOf m c) (stateOf (step m op) c) := by
  intro t ht
  rw [step_refines m op c hx]
  unfold Lifecycle.stepOp
  cases hi : op.input c with
  | none => right; exact ⟨t, ht, Int.le_refl t⟩
  | some i =>
    simp only
    cases hs : stateOf m c with
    | none => simp [hs, heldTime] at ht
    | some a =>
      rw [hs] at ht
      cases i with
      | requestOpenSent =>
        -- only a duplicate open request can reach here
        exfalso
        cases op with
        | recOpen c' q p x =>
          simp only [Op.input] at hi
          by_cases hc : c' = c
          · subst hc; have := hdup q p x rfl; simp [hs] at this
          · simp [hc] at hi
        | recCancel c' => simp only [Op.input] at hi; split at hi <;> simp at hi
        | cancelResp c' ok =>
          simp only [Op.input] at hi
          split at hi
          · cases ok <;> simp at hi
          · simp at hi
        | snapshot s =>
          simp only [Op.input] at hi
          split at hi
          · split at hi <;> simp at hi
          · simp at hi
      | requestCancelSent =>
        right; refine ⟨t, ?_, Int.le_refl t⟩
        simpa [Lifecycle.step, heldTime, Active.openMeta] using ht
      | reportOpen o z =>
        cases z with
        | true => left; simp [Lifecycle.step]
        | false =>
          cases a with
          | inFlight => simp [heldTime, Active.openMeta] at ht
          | opn c0 =>
            simp only [heldTime, Active.openMeta, Option.map_some, Option.some.injEq] at ht
            right
            simp only [Lifecycle.step]
            split
            · rename_i hle; exact ⟨o.t, by simp [heldTime, Active.openMeta], by omega⟩
            · exact ⟨c0.t, by simp [heldTime, Active.openMeta], by omega⟩
          | cancelInFlight x =>
            cases x with
            | none => simp [heldTime, Active.openMeta] at ht
            | some c0 =>
              simp only [heldTime, Active.openMeta, Option.map_some, Option.some.injEq] at ht
              right
              simp only [Lifecycle.step]
              split
              · rename_i hle; exact ⟨o.t, by simp [heldTime, Active.openMeta], by omega⟩
              · exact ⟨c0.t, by simp [heldTime, Active.openMeta], by omega⟩
      | reportFinished => left; simp [Lifecycle.step]
      | reportInFlight => right; exact ⟨t, by simpa [Lifecycle.step] using ht, Int.le_refl t⟩
      | cancelOk => left; simp [Lifecycle.step]
      | cancelErr =>
        cases a with
        | inFlight => simp [heldTime, Active.openMeta] at ht
        | opn c0 => right; exact ⟨t, by simpa [Lifecycle.step] using ht, Int.le_refl t⟩
        | cancelInFlight x =>
          cases x with
          | none => simp [heldTime, Active.openMeta] at ht
          | some c0 =>
            right; refine ⟨t, ?_, Int.le_refl t⟩
            simpa [Lifecycle.step, heldTime, Active.openMeta] using ht

/-- (4) over histories, **per tracking episode**: along any history during which the id stays tracked
(`htracked`: at every prefix — i.e. within ONE uninterrupted tracking episode) and no open request is
re-sent for it (`hdup`), the held exchange timestamp never decreases (any order, duplication or
staleness of reports). Both hypotheses are necessary: across episodes a stale open report resurrects a
finished order with older data (`resurrection_witness`, `time_monotone_run_needs_tracked`), and a
re-sent open request forgets the confirmed data (`duplicate_request_witness`).
`time_monotone_episode` is the version with syntactic hypotheses. -/
theorem time_monotone_run (m : Orders) (ops : List Op) (c : Nat)
    (hx : ∀ op ∈ ops, op.exchangeStatesOnly = true)
    (hdup : ∀ op ∈ ops, ∀ q p x, op ≠ .recOpen c q p x)
    (t t' : Int) (h0 : heldTime (stateOf m c) = some t)
    (h1 : heldTime (stateOf (run m ops) c) = some t')
    (htracked : ∀ k, k ≤ ops.length → (stateOf (run m (ops.take k)) c).isSome = true) :
    t ≤ t' := by
  induction ops generalizing m t with
  | nil =>
    simp only [run, List.foldl_nil] at h1
    rw [h0] at h1; injection h1 with h1; omega
  | cons op ops ih =>
    have hstep := time_monotone_step m op c (hx op (by simp))
      (fun q p x he => absurd he (hdup op (by simp) q p x)) t h0
    have htr1 := htracked 1 (by simp)
    simp only [List.take_succ_cons, List.take_zero, run, List.foldl_cons, List.foldl_nil] at htr1
    rcases hstep with hnone | ⟨t1, ht1, hle⟩
    · rw [hnone] at htr1; simp at htr1
    · have := ih (step m op) (fun o ho => hx o (by simp [ho])) (fun o ho => hdup o (by simp [ho])) t1 ht1
        (by simpa [run] using h1)
        (fun k hk => by
          have := htracked (k + 1) (by simpa using hk)
          simpa [run, List.take_succ_cons] using this)
      omega

/-! Non-vacuity / sanity: concrete histories. -/
def o1 : Open := ⟨7, 1, 0⟩
def o2 : Open := ⟨7, 2, 5⟩
def o3full : Open := ⟨7, 3, 10⟩
-- request, open report, stale older report ignored, cancel sent, cancel failed → restored to newest open
example : stateOf (run [] [.recOpen 1 10 100, .snapshot ⟨1, 10, 100, .active (.opn o2), 0⟩,
    .snapshot ⟨1, 10, 100, .active (.opn o1), 0⟩, .recCancel 1, .cancelResp 1 false]) 1 = some (.opn o2) := by
  decide +kernel
-- open report with nothing left untracks even a cancel-in-flight order
example : stateOf (run [] [.recOpen 1 10 100, .snapshot ⟨1, 10, 100, .active (.opn o2), 0⟩, .recCancel 1,
    .snapshot ⟨1, 10, 100, .active (.opn o3full), 0⟩]) 1 = none := by decide +kernel
example : remZero 10 o3full = true ∧ remZero 10 o2 = false := by decide +kernel
-- the hypotheses of `time_monotone_run` are met by a non-trivial history
example : heldTime (stateOf (run [] [.recOpen 1 10 100, .snapshot ⟨1, 10, 100, .active (.opn o1), 0⟩]) 1) = some 1 := by
  decide +kernel +kernel

/-! ## Added after the independent review (audit/report_C01-C05.md, items C01-1, C01-2, C01-3)

**Scope of the timestamp clause as proved.** `time_monotone_step` / `time_monotone_run` decide "the
exchange-reported data held for an order never moves back to an older exchange timestamp" **within
one uninterrupted tracking episode of the id**: `NoRollback` counts "untracked afterwards" as success,
`time_monotone_run` assumes (`htracked`) that the id stays tracked at every prefix of the history and
(`hdup`) that no open request is re-sent for it. `time_monotone_episode` below is the same statement
with SYNTACTIC hypotheses (no event of the history ends the episode) instead of `htracked`.
ACROSS episodes the clause is false of the model and of the code, because a finished order leaves no
trace (`(Entry::Vacant, Some(update)) => insert`, order/mod.rs): `resurrection_witness` (a stale open
report after a terminal one re-tracks the order with the OLDER timestamp) and
`duplicate_request_witness` (a re-sent open request overwrites the confirmed data, after which an
older report is accepted). Both are kernel-checked below so that the boundary is part of the audited
file; the first is recorded as a known finding of C09 (`clause=ord_resurrected`). -/

/-- (4) **one tracking episode, syntactic form.** Along any history of open reports with something
left to fill (any timestamps, any order, duplicates), cancel requests and failed cancels for an order
that holds exchange-confirmed data with timestamp `t`, the order stays tracked and the timestamp held
at the end is `≥ t` and `≥` the timestamp of every report delivered. No `htracked` hypothesis: none of
these events can end the episode. -/
theorem time_monotone_episode (m : Orders) (c : Nat) (q p : Rat) (evs : List EpisodeEv)
    (hne : ∀ ev ∈ evs, ev.ends q = false) (hc : ExchangeConfirmed (stateOf m c)) (t : Int)
    (h0 : heldTime (stateOf m c) = some t) :
    ∃ t', heldTime (stateOf (run m (evs.map (EpisodeEv.toOp c q p))) c) = some t' ∧ t ≤ t' ∧
      ∀ r ∈ episodeReports evs, r.t ≤ t' := by
  have hm : ∀ st : Option Active, heldTime st = (heldMeta st).map (·.t) := by
    intro st; cases st <;> rfl
  rw [hm] at h0
  cases hh : heldMeta (stateOf m c) with
  | none => simp [hh] at h0
  | some o0 =>
    simp only [hh, Option.map_some, Option.some.injEq] at h0
    obtain ⟨o, ho, _, hle, hall⟩ := episode_holds_greatest m c q p evs hne hc o0 hh
    exact ⟨o.t, by rw [hm, ho]; rfl, by omega, hall⟩

/-- (4, C01-1) **boundary witness: resurrection.** History: open report `t = 5`; cancelled report;
stale open report `t = 1` (a late duplicate). All reports carry exchange states only, no open request
is re-sent. After the first report the id holds timestamp 5; after the third it is tracked AGAIN and
holds timestamp 1 < 5. So `htracked` cannot be dropped from `time_monotone_run`. -/
theorem resurrection_witness :
    let open5 : Op := .snapshot ⟨1, 10, 100, .active (.opn ⟨7, 5, 0⟩), 0⟩
    let cancelled : Op := .snapshot ⟨1, 10, 100, .inactive .cancelled, 0⟩
    let open1 : Op := .snapshot ⟨1, 10, 100, .active (.opn ⟨7, 1, 0⟩), 0⟩
    heldTime (stateOf (run [] [open5]) 1) = some 5 ∧
    stateOf (run [] [open5, cancelled]) 1 = none ∧
    heldTime (stateOf (run [] [open5, cancelled, open1]) 1) = some 1 ∧
    (∀ op ∈ [open5, cancelled, open1], op.exchangeStatesOnly = true) := by decide +kernel

/-- (4, C01-1) hence the run theorem WITHOUT `htracked` is false. -/
theorem time_monotone_run_needs_tracked :
    ¬ (∀ (m : Orders) (ops : List Op) (c : Nat),
      (∀ op ∈ ops, op.exchangeStatesOnly = true) →
      (∀ op ∈ ops, ∀ q p x, op ≠ .recOpen c q p x) →
      ∀ t t', heldTime (stateOf m c) = some t → heldTime (stateOf (run m ops) c) = some t' → t ≤ t') := by
  intro h
  have := h (run [] [.snapshot ⟨1, 10, 100, .active (.opn ⟨7, 5, 0⟩), 0⟩])
    [.snapshot ⟨1, 10, 100, .inactive .cancelled, 0⟩, .snapshot ⟨1, 10, 100, .active (.opn ⟨7, 1, 0⟩), 0⟩] 1
    (by decide +kernel)
    (by intro op hop q p x; simp at hop; rcases hop with h | h <;> simp [h])
    5 1 (by decide +kernel) (by decide +kernel)
  omega

/-- (4, C01-2) **boundary witness: duplicate open request.** History: open request sent; open report
`t = 5`; the SAME open request sent again; open report `t = 1`. The id stays tracked throughout, holds
timestamp 5 after the second op and timestamp 1 at the end: `hdup` cannot be dropped either. (The
code logs an error when it overwrites a tracked order with a new in-flight request; fresh client
order ids are the strategy's obligation.) -/
theorem duplicate_request_witness :
    let h : List Op := [.recOpen 1 10 100, .snapshot ⟨1, 10, 100, .active (.opn ⟨7, 5, 0⟩), 0⟩,
      .recOpen 1 10 100, .snapshot ⟨1, 10, 100, .active (.opn ⟨7, 1, 0⟩), 0⟩]
    heldTime (stateOf (run [] (h.take 2)) 1) = some 5 ∧
    heldTime (stateOf (run [] h) 1) = some 1 ∧
    (∀ k, k ≤ h.length → 1 ≤ k → (stateOf (run [] (h.take k)) 1).isSome = true) := by
  refine ⟨by decide +kernel, by decide +kernel, ?_⟩
  intro k hk h1
  have : k = 1 ∨ k = 2 ∨ k = 3 ∨ k = 4 := by simp at hk; omega
  rcases this with rfl | rfl | rfl | rfl <;> decide +kernel

/-- (5, C01-3) **a failed cancel restores the LAST EXCHANGE-CONFIRMED open state, over histories.**
After any interleaving of open reports (something left to fill; any timestamps, duplicates, stale
ones), cancel requests (sent once or repeatedly) and earlier failed cancels on one order, if the order
is being cancelled and the cancel then fails, the order is `Open` again with details `o` that are
exactly those of a delivered report (or the ones held at the start), and no report delivered — nor the
data held at the start — has a greater exchange timestamp. (Which of several equal-timestamp reports:
the last delivered, `C09.cancel_err_restores_latest_confirmed`.) -/
theorem cancel_err_restores_greatest_confirmed (m : Orders) (c : Nat) (q p : Rat)
    (evs : List EpisodeEv) (hne : ∀ ev ∈ evs, ev.ends q = false)
    (hc : ExchangeConfirmed (stateOf m c)) (o : Open)
    (hst : stateOf (run m (evs.map (EpisodeEv.toOp c q p))) c = some (.cancelInFlight (some o))) :
    stateOf (step (run m (evs.map (EpisodeEv.toOp c q p))) (.cancelResp c false)) c = some (.opn o) ∧
    (o ∈ episodeReports evs ∨ heldMeta (stateOf m c) = some o) ∧
    (∀ r ∈ episodeReports evs, r.t ≤ o.t) ∧
    (∀ h, heldMeta (stateOf m c) = some h → h.t ≤ o.t) := by
  refine ⟨?_, ?_⟩
  · rw [cancel_err_restores, hst]
  · have hreg := (episode_register m c q p evs hc).1
    rw [hst, episodeRegister_no_end q _ evs hne] at hreg
    have hl : heldMeta (some (Active.cancelInFlight (some o))) = some o := rfl
    rw [hl] at hreg
    cases hr : Stale.deliver false ((heldMeta (stateOf m c)).map openMsg)
        ((episodeReports evs).map openMsg) with
    | none => rw [hr] at hreg; cases hreg
    | some r =>
      rw [hr] at hreg
      have hro : r.2 = o := by simpa using hreg.symm
      have hg := Stale.deliver_ge false _ _ r hr
      have hmem := Stale.deliver_mem false _ _ r hr
      have hr1 : r = openMsg o := by
        rcases hmem with hm | hm
        · obtain ⟨x, hx, rfl⟩ := List.mem_map.mp hm
          simp only [openMsg] at hro ⊢; rw [hro]
        · cases hh : heldMeta (stateOf m c) with
          | none => simp [hh] at hm
          | some h0 =>
            simp only [hh, Option.map_some, Option.some.injEq] at hm
            rw [← hm] at hro ⊢; simp only [openMsg] at hro ⊢; rw [hro]
      subst hr1
      refine ⟨?_, ?_, ?_⟩
      · rcases hmem with hm | hm
        · left
          obtain ⟨x, hx, hxe⟩ := List.mem_map.mp hm
          have : x = o := by simpa [openMsg] using congrArg Prod.snd hxe
          rw [← this]; exact hx
        · right
          cases hh : heldMeta (stateOf m c) with
          | none => simp [hh] at hm
          | some h0 =>
            simp only [hh, Option.map_some, Option.some.injEq] at hm
            have : h0 = o := by simpa [openMsg] using congrArg Prod.snd hm
            rw [this]
      · intro x hx
        simpa [openMsg] using hg.2 (openMsg x) (List.mem_map.mpr ⟨x, hx, rfl⟩)
      · intro h hh
        simpa [openMsg] using hg.1 (openMsg h) (by rw [hh]; rfl)

/-! Non-vacuity of the added statements. -/
-- the history of C01-3 (cancel failures in the middle, a stale report): restored to the t = 5 report
example : stateOf (run [] ([EpisodeEv.report ⟨7, 5, 0⟩, .cancelSent, .cancelFailed, .report ⟨7, 3, 0⟩,
    .cancelSent].map (EpisodeEv.toOp 1 10 100))) 1 = some (.cancelInFlight (some ⟨7, 5, 0⟩)) ∧
    (∀ ev ∈ [EpisodeEv.report ⟨7, 5, 0⟩, .cancelSent, .cancelFailed, .report ⟨7, 3, 0⟩, .cancelSent],
      ev.ends 10 = false) ∧ ExchangeConfirmed (stateOf ([] : Orders) 1) := by
  refine ⟨by decide +kernel, by decide +kernel, Or.inl rfl⟩
example : stateOf (step (run [] ([EpisodeEv.report ⟨7, 5, 0⟩, .cancelSent, .cancelFailed, .report ⟨7, 3, 0⟩,
    .cancelSent].map (EpisodeEv.toOp 1 10 100))) (.cancelResp 1 false)) 1 = some (.opn ⟨7, 5, 0⟩) := by
  decide +kernel

/-- **Translator tie (map machine): the order-table model IS the current source.** `Orders::{update_from_order_snapshot,
update_from_cancel_response, record_in_flight_cancel, record_in_flight_open}` with `Order::to_active`,
`Order::from(&OrderRequestOpen)`, `ActiveOrderState::open_meta`, `Open::quantity_remaining` and the structs / enums they
work on are regenerated from `barter/src/engine/state/order/mod.rs` and `barter-execution/src/order/{mod,state,request}.rs`
by `tools/rust2lean_sm.py` on every run (`Generated/Machines3.lean`, group `orders`); the `FnvHashMap` and its Entry API are
read through the translator's explicit map vocabulary (an association list with `get` / `insert` / `remove`, proved to be
a finite map in `Lemmas/KernelsAgree/MapVocab.lean`). For ALL order tables, snapshots, cancel responses and requests and all
instrument / asset key types: each generated function, read through the abstraction `ofOrders` (the same association list
with the static order fields forgotten), is the model function the theorems of this file are about (`updateFromSnapshot`,
`updateFromCancelResponse`, `recordInFlightCancel`, `recordInFlightOpen`), every run of the generated functions is the
model's `run`, the generated `default` is the empty table, and every model table / op is the image of a generated one
(`toMap`, `ofOpSection`). No invariant of the map is needed and no inequivalence was found. The statement is that of
`KernelsAgree.OrdersSM.orders_sm_agree` (Lemmas/KernelsAgree/OrdersSM.lean). -/
theorem map_machine_agrees_with_source (A I : Type) [DecidableEq A] [DecidableEq I] :
    type_of% (@BarterModel.KernelsAgree.OrdersSM.orders_sm_agree A I _ _) :=
  BarterModel.KernelsAgree.OrdersSM.orders_sm_agree

end BarterModel.Props.C01
