import BarterModel.Lemmas.Drawdown
import BarterModel.Lemmas.KernelsAgree.Drawdown
/-!
# C18 — Reported drawdowns are the peak-to-trough declines of the value curve

Statements only (proofs go through `Lemmas/Drawdown.lean`). A curve `pts` is any finite list of
timed values (no bound on its length, no assumption on the times, equal consecutive values and exact
recoveries to the previous peak included). `Sheet.run Sheet.default pts` is the executable model of
the tear-sheet feeding code (`DrawdownGenerator::update` + the Max/Mean generators) the driver
runs; `decompose`, `specMax`, `specMean` are the abstract spec written from the property text.

The refinement theorems (1)–(8) hold for every curve; positivity of the running maxima
(`PositivePeaks`, the property's quantifier) is needed only to read `depthOf` as "the relative decline
at the trough" (theorems (9)–(10)): for a non-positive peak the code's `(peak − v)/peak` is not a
decline at all and both model and spec report nothing.
-/
namespace BarterModel.Props.C18
open BarterModel.Drawdown

/-! ## The generators compute the decomposition (all curves) -/

/-- (0) `TearSheetAssetGenerator::init` with the first balance, then the rest of the curve, is the
same as default generators fed the whole curve (what `TearSheetGenerator` does): so every theorem
below, stated for `Sheet.default`, covers both tear sheets and `DrawdownGenerator::init`. -/
theorem asset_init_is_first_point (p : Pt) (rest : List Pt) :
    Sheet.run (Sheet.initAsset p) rest =
      ((Sheet.run Sheet.default (p :: rest)).1, (Sheet.run Sheet.default (p :: rest)).2) := by
  have h : Sheet.default.update p = (Sheet.initAsset p, none) := by
    simp [Sheet.update, Sheet.default, Sheet.initAsset, default_update, init_eq]
  simp [Sheet.run, h]

/-- (1) The drawdowns returned by `DrawdownGenerator::update` over a whole curve are exactly the
completed drawdowns of the peak-to-trough decomposition, in order: one per running maximum that was
followed by a decline and then exceeded; value = largest relative decline of the segment, start =
that maximum's time, end = time of the point that exceeded it. -/
theorem completed_drawdowns (pts : List Pt) :
    (Sheet.run Sheet.default pts).2 = (decompose pts).1 := by
  rw [sheet_run]
  cases pts with
  | nil => simp [Gen.run, decompose]
  | cons p rest => exact (run_default p rest).1

/-- (2) After any curve, `DrawdownGenerator::generate` reports exactly the decline in progress from
the latest running maximum (none if there is no decline), ending at the latest point's time. -/
theorem current_drawdown (pts : List Pt) :
    (Sheet.run Sheet.default pts).1.gen.generate = (decompose pts).2 := by
  rw [sheet_run]
  cases pts with
  | nil => simp [Gen.run, decompose, Sheet.default, Gen.default, Gen.generate]
  | cons p rest => exact (run_default p rest).2

/-- (3) Step form of (1): the value `update` returns for the next point `q` is exactly the drawdown
(if any) that `q` completes. -/
theorem update_returns_newly_completed (pts : List Pt) (q : Pt) :
    (decompose (pts ++ [q])).1 =
      (decompose pts).1 ++ ((Sheet.run Sheet.default pts).1.update q).2.toList := by
  rw [← completed_drawdowns, ← completed_drawdowns, sheet_run_append]
  simp [Sheet.run]

/-- (4) The Max generator holds the largest of the completed drawdowns (the earliest among equally
deep ones), `none` iff there is none. -/
theorem max_is_largest_completed (pts : List Pt) :
    (Sheet.run Sheet.default pts).1.max.generate = specMax (decompose pts).1 := by
  rw [← completed_drawdowns, sheet_run]
  exact maxFold_eq_specMax _

/-- (5) The Mean generator has counted the completed drawdowns and holds their average depth and
(integer-millisecond, see (8)) average duration. -/
theorem mean_is_average_completed (pts : List Pt) :
    (Sheet.run Sheet.default pts).1.mean = ⟨(decompose pts).1.length, specMean (decompose pts).1⟩ := by
  rw [← completed_drawdowns, sheet_run]
  exact meanFold_eq_specMean _

/-- (6) The first `generate` of a tear sheet after any update history reports: the current drawdown;
the maximum over everything reported (completed drawdowns and the current one); the mean over the
same. (Both tear sheets' `generate` fold the current drawdown into the Mean/Max generators first.) -/
theorem first_generate_report (pts : List Pt) :
    (Sheet.run Sheet.default pts).1.generate.2 =
      ⟨(decompose pts).2, specMean (reported pts), specMax (reported pts)⟩ := by
  have h1 := current_drawdown pts
  have h2 := completed_drawdowns pts
  rw [sheet_run] at h1 h2
  simp only at h1 h2
  rw [sheet_run]
  unfold Sheet.generate reported
  simp only [h1, h2]
  cases hc : (decompose pts).2 with
  | none =>
    simp only [Option.toList_none, List.append_nil]
    rw [show Sheet.default.mean = MeanGen.default from rfl, show Sheet.default.max = MaxGen.default from rfl,
      meanFold_eq_specMean, maxFold_eq_specMax]
    rfl
  | some d =>
    simp only [Option.toList_some]
    rw [show Sheet.default.mean = MeanGen.default from rfl, show Sheet.default.max = MaxGen.default from rfl]
    have e1 : ((decompose pts).1.foldl MeanGen.update MeanGen.default).update d =
        ((decompose pts).1 ++ [d]).foldl MeanGen.update MeanGen.default := by
      simp [List.foldl_append]
    have e2 : ((decompose pts).1.foldl MaxGen.update MaxGen.default).update d =
        ((decompose pts).1 ++ [d]).foldl MaxGen.update MaxGen.default := by
      simp [List.foldl_append]
    rw [e1, e2, meanFold_eq_specMean, maxFold_eq_specMax]
    rfl

/-- (7) What `specMax` means: the result is one of the drawdowns, no drawdown is deeper, every
earlier one is strictly shallower; `none` only for the empty list. -/
theorem specMax_is_largest (ds : List Drawdown) :
    match specMax ds with
    | none => ds = []
    | some m => ∃ as bs, ds = as ++ m :: bs ∧ (∀ a ∈ as, a.value.abs < m.value.abs) ∧
        (∀ b ∈ bs, b.value.abs ≤ m.value.abs) := by
  have h := firstMax_foldl ds [] MaxGen.default rfl
  simp only [List.nil_append] at h
  rw [← specMax_of_firstMax ds _ h] at h
  exact h

/-- (7') Every reported drawdown has a strictly positive depth (so the absolute values taken by the
Max generator are the depths themselves). -/
theorem reported_depth_pos (pts : List Pt) : ∀ d ∈ reported pts, 0 < d.value := by
  intro d hd
  unfold reported at hd
  cases pts with
  | nil => simp [decompose] at hd
  | cons p rest =>
    have h := run_atPeak rest p [] (by simp)
    have hp := run_atPeak_pos rest p []
    simp only [List.nil_append] at h
    rw [← h.1, ← h.2] at hd
    rcases List.mem_append.mp hd with hd | hd
    · exact hp.1 d hd
    · exact hp.2 d hd

/-- (8) The mean duration is held in whole milliseconds and updated incrementally with truncating
division, so it is not the exact average; it is within `(n − 1)/2` ms of it:
`2·|n·mean_ms − Σ durations| ≤ n·(n − 1)`. (Depth: `specMean` carries the exact average
`Σ depth / n` by definition.) -/
theorem mean_duration_near_average (ds : List Drawdown) (ms : Int) (h : avgDurationMs ds = some ms) :
    2 * (((ds.length : Int) * ms - sumDuration ds).natAbs : Int) ≤ (ds.length : Int) * (ds.length - 1) := by
  cases ds with
  | nil => simp [avgDurationMs] at h
  | cons d ds =>
    simp only [avgDurationMs, Option.some.injEq] at h
    have hb := stepMs_bound ds d.duration 1 d.duration (by omega) (by omega) (by omega)
    have hc := stepMs_count ds (d.duration, 1)
    simp only at hb hc
    rw [hc, h] at hb
    simp only [sumDuration, List.map_cons, List.sum_cons, List.length_cons]
    have e : ((1 + ds.length : Nat) : Int) = ((ds.length + 1 : Nat) : Int) := by omega
    rw [e] at hb
    omega

/-! ## What the decomposition is (the spec, unfolded) -/

/-- (9a) A running maximum `p`, followed by points `seg` that do not exceed it, followed by a point
`q` that does: one completed drawdown (if `seg` declined at all) from `p.t` to `q.t`, and the
decomposition continues from the new running maximum `q` (which is again positive). -/
theorem completed_segment (p : Pt) (seg : List Pt) (q : Pt) (rest : List Pt)
    (h : ∀ x ∈ seg, x.v ≤ p.v) (hq : p.v < q.v) :
    decompose (p :: (seg ++ q :: rest)) =
      ((ddOf p seg q.t).toList ++ (decompose (q :: rest)).1, (decompose (q :: rest)).2) ∧
    (PositivePeaks (p :: (seg ++ q :: rest)) → PositivePeaks (q :: rest)) :=
  ⟨decompose_exceed p seg q rest h hq, fun hp => by simp only [PositivePeaks] at *; grind⟩

/-- (9b) The latest running maximum `p` followed only by points that do not exceed it: nothing
completed, the decline (if any) is the current drawdown, ending at the latest point. Points equal
to the peak (exact recoveries) neither end it nor start a new one. -/
theorem current_segment (p : Pt) (seg : List Pt) (h : ∀ x ∈ seg, x.v ≤ p.v) :
    decompose (p :: seg) = ([], ddOf p seg (lastT p seg)) :=
  decompose_all_le p seg h

/-- (10) Under a positive running maximum the depth of a segment is the peak-to-trough decline:
it bounds every point's relative decline, it is non-zero exactly when some point is strictly below
the peak, and then it is the relative decline `(peak − trough)/peak` at a lowest point of the
segment. -/
theorem depth_is_peak_to_trough (p : Pt) (seg : List Pt) (hp : 0 < p.v) (h : ∀ q ∈ seg, q.v ≤ p.v) :
    (∀ q ∈ seg, decline p.v q.v ≤ depthOf p seg) ∧
    (depthOf p seg ≠ 0 ↔ ∃ q ∈ seg, q.v < p.v) ∧
    (depthOf p seg ≠ 0 → ∃ q ∈ seg, depthOf p seg = decline p.v q.v ∧ ∀ q' ∈ seg, q.v ≤ q'.v) := by
  refine ⟨fun q hq => le_largest (List.mem_map.mpr ⟨q, hq, rfl⟩), depthOf_ne_zero_iff p seg hp h, ?_⟩
  intro hne
  rcases largest_eq_zero_or_mem (seg.map (fun q => decline p.v q.v)) with h0 | hm
  · exact absurd h0 hne
  · obtain ⟨q, hq, e⟩ := List.mem_map.mp hm
    refine ⟨q, hq, e.symm, ?_⟩
    intro q' hq'
    have h1 : decline p.v q'.v ≤ depthOf p seg := le_largest (List.mem_map.mpr ⟨q', hq', rfl⟩)
    have h2 : decline p.v q'.v ≤ decline p.v q.v := by rw [e]; exact h1
    exact (decline_le_iff hp).mp h2

/-! ## The instrument tear sheet's curve -/

/-- (11) `TearSheetGenerator::update_from_position` over any list of exited positions feeds the
generators the cumulative realised PnL curve. -/
theorem instrument_feeds_pnl_curve (ps : List (Int × Rat)) :
    (InstrSheet.run InstrSheet.init ps).1.sheet = (Sheet.run Sheet.default (pnlCurve 0 ps)).1 ∧
    (InstrSheet.run InstrSheet.init ps).2 = (Sheet.run Sheet.default (pnlCurve 0 ps)).2 := by
  rw [pnlCurve_run]
  exact ⟨rfl, rfl⟩

/-! ## Tie to the source by translation -/

/-- **Tie to the source by translation.** The step functions of the three generators the model
mirrors (`DrawdownGenerator::{init, generate, update}` in `drawdown/mod.rs`,
`MaxDrawdownGenerator::{update, generate}` in `max.rs`, `MeanDrawdownGenerator::{update, generate}` in
`mean.rs`, with `Drawdown::duration` and the `Decimal` / `i64` instances of
`welford_online::calculate_mean`) are not only hand-written: on every run `tools/rust2lean_sm.py`
regenerates `BarterModel.Generated.Machines.*` (state-passing functions) from the current source,
and for ALL generator states and inputs the model's functions are the generated ones read through
the record bijections of `Lemmas/KernelsAgree/Drawdown.lean` (`toGen/ofGen`, `toTimed`, `toDd/ofDd`,
`toMaxGen/ofMaxGen`, `toMeanGen/ofMeanGen`). A change of one of these functions in the source makes
this theorem fail to build. -/
theorem kernels_agree_with_source :
    (∀ p : Pt, Gen.init p
        = KernelsAgree.Drawdown.ofGen (Generated.Machines.DrawdownGenerator.init (KernelsAgree.Drawdown.toTimed p)))
    ∧ (∀ g : Gen, ((KernelsAgree.Drawdown.toGen g).generate).1 = KernelsAgree.Drawdown.toGen g
        ∧ g.generate = ((KernelsAgree.Drawdown.toGen g).generate).2.map KernelsAgree.Drawdown.ofDd)
    ∧ (∀ (g : Gen) (p : Pt), g.update p
        = (KernelsAgree.Drawdown.ofGen ((KernelsAgree.Drawdown.toGen g).update (KernelsAgree.Drawdown.toTimed p)).1,
            ((KernelsAgree.Drawdown.toGen g).update (KernelsAgree.Drawdown.toTimed p)).2.map
              KernelsAgree.Drawdown.ofDd))
    ∧ (∀ (m : MaxGen) (d : Drawdown), m.update d
        = KernelsAgree.Drawdown.ofMaxGen ((KernelsAgree.Drawdown.toMaxGen m).update (KernelsAgree.Drawdown.toDd d)))
    ∧ (∀ m : MaxGen, m.generate
        = ((KernelsAgree.Drawdown.toMaxGen m).generate).map fun x => KernelsAgree.Drawdown.ofDd x.f0)
    ∧ (∀ (m : MeanGen) (d : Drawdown), m.update d
        = KernelsAgree.Drawdown.ofMeanGen ((KernelsAgree.Drawdown.toMeanGen m).update (KernelsAgree.Drawdown.toDd d)))
    ∧ (∀ m : MeanGen, m.generate
        = ((KernelsAgree.Drawdown.toMeanGen m).generate).map KernelsAgree.Drawdown.ofMean) :=
  KernelsAgree.Drawdown.drawdown_kernels_agree

/-- non-vacuity of the tie: the generated generator, initialised at (100, t=0), fed 90 at t=1 and
then 110 at t=2, returns the ended drawdown 1/10 over [0, 2]. -/
example :
    (((Generated.Machines.DrawdownGenerator.init ⟨100, 0⟩).update ⟨90, 1⟩).1.update ⟨110, 2⟩).2
      = some ⟨1/10, 0, 2⟩ := by decide +kernel

/-! ## Non-vacuity and examined boundary -/

/-- a curve with positive peaks: plateau at the peak, a decline, an exact recovery to the peak, a
deeper trough, a new maximum, a decline in progress -/
def sample : List Pt := [⟨0, 100⟩, ⟨1, 100⟩, ⟨2, 90⟩, ⟨3, 100⟩, ⟨4, 80⟩, ⟨5, 110⟩, ⟨6, 99⟩]

example : PositivePeaks sample := by decide
example : (Sheet.run Sheet.default sample).2 = [⟨1/5, 0, 5⟩] := by decide +kernel
example : (Sheet.run Sheet.default sample).1.gen.generate = some ⟨1/10, 5, 6⟩ := by decide +kernel
example : ∃ ms, avgDurationMs [⟨1, 0, 0⟩, ⟨1, 0, 3⟩, ⟨1, 0, 3⟩] = some ms := ⟨1, by decide⟩
/-- hypotheses of (9a), (9b), (10): peak `100 > 0`, a segment not exceeding it, an exceeding point -/
example : (0 : Rat) < (⟨0, 100⟩ : Pt).v ∧ (∀ x ∈ [(⟨1, 100⟩ : Pt), ⟨2, 90⟩], x.v ≤ (⟨0, 100⟩ : Pt).v) ∧
    (⟨0, 100⟩ : Pt).v < (⟨5, 110⟩ : Pt).v := by decide

/-- Examined boundary (not part of the property): `generate` takes `&mut self` and folds the
in-progress drawdown into the Mean/Max generators, so a second `generate` on the same tear sheet
counts it twice (count 2 for a single reported drawdown). Theorem (6) is about the first call. -/
example :
    let s := (Sheet.run Sheet.default [⟨0, 100⟩, ⟨1, 90⟩]).1
    s.generate.1.mean.count = 1 ∧ s.generate.1.generate.1.mean.count = 2 := by decide +kernel

end BarterModel.Props.C18
