import BarterModel.Lemmas.Drawdown
namespace BarterModel.Props.C18
open BarterModel.Drawdown

theorem generate_default : Gen.default.generate = none := rfl

end BarterModel.Props.C18
