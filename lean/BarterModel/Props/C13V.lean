import BarterModel.Lemmas.Subscribe
/-!
# C13V (sub-check of C13) — which subscriptions are accepted

Theorems over the model of `barter-data/src/subscription/mod.rs`, `streams/builder/dynamic/{mod,indexed}.rs`
and `streams/builder/{mod,multi}.rs` (`Model/Subscribe.lean`). What a user of this code relies on:

* the support tables are consistent with each other and with the README table, with an exact,
  enumerated list of the entries where they are not (`…_iff` theorems below);
* a batch is accepted iff every element is, the error names the first rejected element, the accepted
  batch is the *set* of its subscriptions;
* `DynamicStreams::init` groups every batch into one connection per distinct `(exchange, kind)`; every
  subscription lands in exactly one group; no validated subscription ends in `Unsupported`,
  `UnsupportedSubKind`, `SubscriptionsEmpty` or an `unwrap` panic; every connection has a channel and
  every channel a connection; batches never share a connection;
* `StreamBuilder::init` / `MultiStreamBuilder::init` before the network are the first poll of `try_join_all`:
  with at most 30 futures the first one IN ORDER THAT FAILS WHEN FIRST POLLED decides, also behind futures that
  went to the network (corrected after the sub-check review; run on the real `init`).

`sort_unstable_by_key` is a parameter `usort` constrained only by what its documentation promises
(`UnstableSort`: an ordered permutation); statements that need more say `stableSort` explicitly.
-/
namespace BarterModel.Props.C13V
open BarterModel.Subscribe BarterModel.Names
open BarterModel.Connectors (Exch)
open BarterModel.Index (sortDedup leKey Strict)

/-! ## The support tables (finite: kernel `decide` over the WHOLE table is the proof) -/

/-- The dynamic table (`exchange_supports_instrument_kind_sub_kind`, 42 x 4 x 6 entries) is the README
table "Supported Exchange Subscriptions" plus exactly one entry: `(BinanceFuturesUsd, Perpetual,
Liquidations)`. -/
theorem dynamic_table_is_documented_plus_liquidations (e : ExchangeId) (ik : IKC) (k : SubKind) :
    supportsIKSK e ik k = (documented e ik k || undocumentedExtra e ik k) := by
  have : ∀ e ∈ ExchangeId.all, ∀ ik ∈ IKC.all, ∀ k ∈ SubKind.all,
      supportsIKSK e ik k = (documented e ik k || undocumentedExtra e ik k) := by decide +kernel
  exact this e (mem_all e) ik (IKC.mem_all ik) k (SubKind.mem_all k)

/-- … and that entry is the only disagreement with the README. -/
theorem dynamic_differs_from_readme_iff (e : ExchangeId) (ik : IKC) (k : SubKind) :
    supportsIKSK e ik k ≠ documented e ik k ↔
      (e, ik, k) = (ExchangeId.binanceFuturesUsd, IKC.perpetual, SubKind.liquidations) := by
  have : ∀ e ∈ ExchangeId.all, ∀ ik ∈ IKC.all, ∀ k ∈ SubKind.all,
      (supportsIKSK e ik k ≠ documented e ik k ↔
        (e, ik, k) = (ExchangeId.binanceFuturesUsd, IKC.perpetual, SubKind.liquidations)) := by
    decide +kernel
  exact this e (mem_all e) ik (IKC.mem_all ik) k (SubKind.mem_all k)

/-- No validated subscription ends in `DataError::Unsupported`: every `(exchange, sub kind)` that passes
`validate` for some instrument kind has an arm in `DynamicStreams::init`, … -/
theorem validated_pair_has_arm (e : ExchangeId) (ik : IKC) (k : SubKind) (h : supportsIKSK e ik k = true) :
    hasArm e k = true := (supported_arm_route e ik k h).1

/-- … and conversely no arm is dead: every arm is reached by some instrument kind that validates. -/
theorem arm_is_reachable (e : ExchangeId) (k : SubKind) (h : hasArm e k = true) :
    ∃ ik, supportsIKSK e ik k = true := by
  have : ∀ e ∈ ExchangeId.all, ∀ k ∈ SubKind.all, hasArm e k = true →
      ∃ ik ∈ IKC.all, supportsIKSK e ik k = true := by decide +kernel
  obtain ⟨ik, _, h⟩ := this e (mem_all e) k (SubKind.mem_all k) h
  exact ⟨ik, h⟩

theorem arm_iff_validated (e : ExchangeId) (k : SubKind) :
    hasArm e k = true ↔ ∃ ik, supportsIKSK e ik k = true :=
  ⟨arm_is_reachable e k, fun ⟨ik, h⟩ => validated_pair_has_arm e ik k h⟩

/-- `DataError::UnsupportedSubKind` cannot follow a successful validation: a validated kind has a channel
family (`OrderBooksL3` and `Candles` never validate). -/
theorem validated_kind_is_routed (e : ExchangeId) (ik : IKC) (k : SubKind) (h : supportsIKSK e ik k = true) :
    (route k).isSome = true := (supported_arm_route e ik k h).2

/-- The arms are the 21 pairs of C13 (`Connectors.supported`), pairwise different. -/
theorem arms_are_the_c13_pairs :
    arms.length = 21 ∧ arms.Nodup ∧
      ∀ e k, hasArm e k = true ↔ ∃ p ∈ BarterModel.Connectors.supported, connId p.exch = e ∧ ofKind p.kind = k := by
  refine ⟨by decide, by decide +kernel, ?_⟩
  intro e k
  simp only [hasArm, arms, decide_eq_true_eq, List.mem_map, Prod.mk.injEq]

/-- The instrument-kind filter of C13 (`Connectors.supports`) is this table on the connector pairs. -/
theorem supports_agrees_with_c13 (p : BarterModel.Connectors.Pair) (ik : BarterModel.Connectors.IKind) :
    BarterModel.Connectors.supports p ik =
      supportsIKSK (connId p.exch)
        (match ik with | .spot => .spot | .perpetual => .perpetual | .future _ => .future | .option .. => .option)
        (ofKind p.kind) := by
  obtain ⟨e, k⟩ := p
  cases e <;> cases k <;> cases ik <;> rfl

/-- The statically typed API and the dynamic one offer the same `(exchange, kind)` pairs: an
`impl StreamSelector<_, K> for E` exists iff `DynamicStreams::init` has the arm `(E::ID, K)`; arms only
name exchanges that have a connector; connector ids are pairwise different. -/
theorem selector_iff_arm (c : Exch) (k : SubKind) : selector c k = hasArm (connId c) k := by
  have : ∀ c ∈ connAll, ∀ k ∈ SubKind.all, selector c k = hasArm (connId c) k := by decide +kernel
  exact this c (connAll_complete c) k (SubKind.mem_all k)

theorem arm_exchange_has_connector (e : ExchangeId) (k : SubKind) (h : hasArm e k = true) :
    ∃ c, connId c = e := by
  have : ∀ e ∈ ExchangeId.all, ∀ k ∈ SubKind.all, hasArm e k = true → ∃ c ∈ connAll, connId c = e := by
    decide +kernel
  obtain ⟨c, _, h⟩ := this e (mem_all e) k (SubKind.mem_all k) h
  exact ⟨c, h⟩

theorem connId_injective : Function.Injective connId := by
  intro a b h; cases a <;> cases b <;> first | rfl | cases h

/-- What the dynamic `validate` accepts, the static API accepts as well (a selector exists and the static
`validate` passes) … -/
theorem dynamic_implies_static (c : Exch) (ik : IKC) (k : SubKind) (h : supportsIKSK (connId c) ik k = true) :
    selector c k = true ∧ staticValid c ik = true := by
  have : ∀ c ∈ connAll, ∀ ik ∈ IKC.all, ∀ k ∈ SubKind.all, supportsIKSK (connId c) ik k = true →
      selector c k = true ∧ staticValid c ik = true := by decide +kernel
  exact this c (connAll_complete c) ik (IKC.mem_all ik) k (SubKind.mem_all k) h

/-- … but not conversely: the two validators DISAGREE on exactly three subscriptions, which the static
`Validator` accepts and the dynamic one rejects — a `Spot` instrument on `GateioFuturesUsd`,
`GateioFuturesBtc` or `GateioOptions` with `PublicTrades`
(`exchange_supports_instrument_kind` falls through to `(_, Spot) => true`). -/
theorem static_contradicts_dynamic_iff (c : Exch) (ik : IKC) (k : SubKind) :
    (selector c k && staticValid c ik) ≠ supportsIKSK (connId c) ik k ↔
      (c, ik, k) ∈ [(Exch.gateioFuturesUsd, IKC.spot, SubKind.publicTrades),
                    (Exch.gateioFuturesBtc, IKC.spot, SubKind.publicTrades),
                    (Exch.gateioOptions, IKC.spot, SubKind.publicTrades)] := by
  have : ∀ c ∈ connAll, ∀ ik ∈ IKC.all, ∀ k ∈ SubKind.all,
      ((selector c k && staticValid c ik) ≠ supportsIKSK (connId c) ik k ↔
        (c, ik, k) ∈ [(Exch.gateioFuturesUsd, IKC.spot, SubKind.publicTrades),
                      (Exch.gateioFuturesBtc, IKC.spot, SubKind.publicTrades),
                      (Exch.gateioOptions, IKC.spot, SubKind.publicTrades)]) := by decide +kernel
  exact this c (connAll_complete c) ik (IKC.mem_all ik) k (SubKind.mem_all k)

/-- The same three connectors are where the static `validate` (`exchange_supports_instrument_kind`)
contradicts the instrument kinds the README lists for the connector. -/
theorem static_contradicts_documentation_iff (c : Exch) (ik : IKC) :
    staticValid c ik ≠ documentedIK (connId c) ik ↔
      (c, ik) ∈ [(Exch.gateioFuturesUsd, IKC.spot), (Exch.gateioFuturesBtc, IKC.spot),
                 (Exch.gateioOptions, IKC.spot)] := by
  have : ∀ c ∈ connAll, ∀ ik ∈ IKC.all,
      (staticValid c ik ≠ documentedIK (connId c) ik ↔
        (c, ik) ∈ [(Exch.gateioFuturesUsd, IKC.spot), (Exch.gateioFuturesBtc, IKC.spot),
                   (Exch.gateioOptions, IKC.spot)]) := by decide +kernel
  exact this c (connAll_complete c) ik (IKC.mem_all ik)

/-- `exchange_supports_instrument_kind` answers `true` for `Spot` on every one of the 27 exchange ids
that have no connector at all (and `false` for every other kind). -/
theorem no_connector_supports_spot (e : ExchangeId) (h : ∀ c, connId c ≠ e) (ik : IKC) :
    supportsIK e ik = (ik == IKC.spot) := by
  have : ∀ e ∈ ExchangeId.all, (∀ c ∈ connAll, connId c ≠ e) → ∀ ik ∈ IKC.all,
      supportsIK e ik = (ik == IKC.spot) := by decide +kernel
  exact this e (mem_all e) (fun c _ => h c) ik (IKC.mem_all ik)

/-- The three-argument table refines the two-argument one. -/
theorem dynamic_implies_instrument_kind (e : ExchangeId) (ik : IKC) (k : SubKind)
    (h : supportsIKSK e ik k = true) : supportsIK e ik = true := by
  have : ∀ e ∈ ExchangeId.all, ∀ ik ∈ IKC.all, ∀ k ∈ SubKind.all,
      supportsIKSK e ik k = true → supportsIK e ik = true := by decide +kernel
  exact this e (mem_all e) ik (IKC.mem_all ik) k (SubKind.mem_all k) h

/-- `SubKind`: six variants, the derived order is the declaration position, `Display` and `as_str` tell
the variants apart. -/
theorem subkind_table :
    SubKind.all.length = 6 ∧ (∀ k, k ∈ SubKind.all) ∧ (∀ k, SubKind.ofNat? k.toNat = some k) ∧
      Function.Injective SubKind.toNat ∧ Function.Injective SubKind.display ∧ Function.Injective SubKind.asStr := by
  refine ⟨rfl, SubKind.mem_all, SubKind.ofNat?_toNat, fun _ _ => SubKind.toNat_inj, ?_, ?_⟩
  · intro a b h; cases a <;> cases b <;> first | rfl | (revert h; decide)
  · intro a b h; cases a <;> cases b <;> first | rfl | (revert h; decide)

/-! ## The derived order: sort keys -/

/-- The sort-key convention is faithful: for a lawful instrument key (injective, no key a proper prefix of
another) the lexicographic order of `Subscr.sortKey` is the order of the TUPLE (exchange, instrument, kind) —
what `#[derive(Ord)]` of `Subscription` compares. -/
theorem sort_key_is_tuple_order {ι : Type} (ops : InstOps ι) (hl : ops.Lawful) (s t : Subscr ι) :
    Subscr.sortKey ops s ≤ Subscr.sortKey ops t ↔
      s.exchange.toNat < t.exchange.toNat ∨ (s.exchange = t.exchange ∧
        (ops.sortKey s.instrument < ops.sortKey t.instrument ∨
          (s.instrument = t.instrument ∧ s.kind.toNat ≤ t.kind.toNat))) := by
  obtain ⟨e1, i1, k1⟩ := s
  obtain ⟨e2, i2, k2⟩ := t
  simp only [Subscr.sortKey, List.cons_le_cons_iff]
  rw [append_le_append_iff_of_sep _ _ _ _ (hl.sep i1 i2) (hl.sep i2 i1)]
  have hk : [k1.toNat] ≤ [k2.toNat] ↔ k1.toNat ≤ k2.toNat := by
    simp only [List.cons_le_cons_iff, List.nil_le, and_true]; omega
  rw [hk]
  constructor
  · rintro (h | ⟨he, h⟩)
    · exact .inl h
    · refine .inr ⟨BarterModel.Names.toNat_inj he, ?_⟩
      rcases h with h | ⟨hi, h⟩
      · exact .inl h
      · exact .inr ⟨hl.inj hi, h⟩
  · rintro (h | ⟨he, h⟩)
    · exact .inl h
    · refine .inr ⟨by rw [he], ?_⟩
      rcases h with h | ⟨hi, h⟩
      · exact .inl h
      · exact .inr ⟨by rw [hi], h⟩

/-- The asset names the harness builds (`a000`, `a001`, …) order as their NUMBERS below 1000 (the generators'
whole range) … -/
theorem asset_names_below_1000_order_as_numbers (n m : Nat) (hn : n < 1000) (hm : m < 1000) :
    strKey (assetName n) ≤ strKey (assetName m) ↔ n ≤ m := by
  rw [strKey_assetName_small n hn, strKey_assetName_small m hm]
  simp only [List.cons_le_cons_iff, List.nil_le, and_true, Nat.lt_irrefl, false_or, true_and]
  omega

/-- … and NOT from 1000 on: the derived `Ord` compares the names as strings, `"a1000" < "a999"`. WITNESS (the
input of the sub-check review, `vsubs 7,999/1/s,0 7,1000/1/s,0` on the real `validate_subscriptions`): the
accepted batch lists asset 1000 before asset 999. (Until the review the model compared the numbers.) -/
theorem asset_name_1000_sorts_before_999 :
    strKey (assetName 1000) < strKey (assetName 999) ∧
      validateSubscriptions instOps
          [⟨.binanceSpot, ⟨999, 1, .spot⟩, .publicTrades⟩, ⟨.binanceSpot, ⟨1000, 1, .spot⟩, .publicTrades⟩] =
        .ok [⟨.binanceSpot, ⟨1000, 1, .spot⟩, .publicTrades⟩, ⟨.binanceSpot, ⟨999, 1, .spot⟩, .publicTrades⟩] := by
  refine ⟨by decide +kernel, ?_⟩
  have hv : collectM (Subscr.validate instOps)
      [⟨.binanceSpot, ⟨999, 1, .spot⟩, .publicTrades⟩, ⟨.binanceSpot, ⟨1000, 1, .spot⟩, .publicTrades⟩] =
      .ok [⟨.binanceSpot, ⟨999, 1, .spot⟩, .publicTrades⟩, ⟨.binanceSpot, ⟨1000, 1, .spot⟩, .publicTrades⟩] := by
    decide +kernel
  have hle : leKey (Subscr.sortKey instOps) (⟨.binanceSpot, ⟨999, 1, .spot⟩, .publicTrades⟩ : Subscr Inst)
      ⟨.binanceSpot, ⟨1000, 1, .spot⟩, .publicTrades⟩ = false := by decide +kernel
  simp [validateSubscriptions, hv, sortDedup, BarterModel.Index.dedup, List.mergeSort,
    List.MergeSort.Internal.splitInTwo, hle]

/-! ## Validation of batches -/

section
variable {ι : Type} [DecidableEq ι] (ops : InstOps ι)

/-- A batch is accepted iff every element is; the accepted batch is the set of its subscriptions
(ascending in the derived order, no repetition). -/
theorem batch_accepted_iff (b r : List (Subscr ι)) :
    validateSubscriptions ops b = .ok r ↔ (∀ s ∈ b, s.valid ops = true) ∧ r = specSet ops b :=
  validateSubscriptions_ok_iff ops b r

/-- The error names the FIRST rejected subscription in the caller's order. -/
theorem batch_rejected_iff (b : List (Subscr ι)) (x : Subscr ι) :
    validateSubscriptions ops b = .error x ↔
      ∃ pre post, b = pre ++ x :: post ∧ (∀ a ∈ pre, a.valid ops = true) ∧ x.valid ops = false :=
  validateSubscriptions_error_iff ops b x

/-- The accepted batch: same members, strictly ascending, hence duplicate free. -/
theorem accepted_batch_is_a_set (hl : ops.Lawful) (b : List (Subscr ι)) :
    (∀ s, s ∈ specSet ops b ↔ s ∈ b) ∧ Strict (leKey (Subscr.sortKey ops)) (specSet ops b) ∧
      (specSet ops b).Nodup :=
  ⟨mem_specSet ops b, BarterModel.Index.strict_sortDedup _ (sortKey_inj ops hl) b,
    BarterModel.Index.nodup_sortDedup _ (sortKey_inj ops hl) b⟩

/-- Order and repetition of the caller's batch are irrelevant. -/
theorem accepted_batch_order_irrelevant (hl : ops.Lawful) (b1 b2 : List (Subscr ι))
    (h : ∀ s, s ∈ b1 ↔ s ∈ b2) : specSet ops b1 = specSet ops b2 :=
  BarterModel.Index.sortDedup_congr _ (sortKey_inj ops hl) b1 b2 h

/-- Validation is idempotent. -/
theorem validation_idempotent (hl : ops.Lawful) (b r : List (Subscr ι))
    (h : validateSubscriptions ops b = .ok r) : validateSubscriptions ops r = .ok r := by
  obtain ⟨hv, rfl⟩ := (validateSubscriptions_ok_iff ops b r).mp h
  refine (validateSubscriptions_ok_iff ops _ _).mpr ⟨fun s hs => hv s ((mem_specSet ops b s).mp hs), ?_⟩
  exact accepted_batch_order_irrelevant ops hl _ _ (fun s => (mem_specSet ops b s).symm)

/-- All batches are accepted iff every element of every batch is (`specAccepts`); the result keeps one
validated batch per input batch, in order. -/
theorem batches_accepted_iff (batches vs : List (List (Subscr ι))) :
    validateBatches ops batches = .ok vs ↔
      specAccepts (Subscr.valid ops) batches = true ∧ vs = batches.map (specSet ops) := by
  rw [validateBatches_ok_iff]
  simp [specAccepts, List.all_eq_true]

/-- The error is that of the first rejected batch (every earlier batch is accepted). -/
theorem batches_rejected_iff (batches : List (List (Subscr ι))) (x : Subscr ι) :
    validateBatches ops batches = .error x ↔
      ∃ pre b post, batches = pre ++ b :: post ∧ (∀ b' ∈ pre, ∀ s ∈ b', s.valid ops = true) ∧
        validateSubscriptions ops b = .error x :=
  validateBatches_error_iff ops batches x

end

/-! ## Grouping of a batch: `sort_unstable_by_key` + `chunk_by` -/

section
variable {ι : Type} {usort : List (Subscr ι) → List (Subscr ι)}

/-- The grouping partitions the batch: the groups, concatenated, are a permutation of it; every group is
non-empty and holds subscriptions of its own `(exchange, kind)` only. -/
theorem grouping_partitions_batch (hu : UnstableSort usort) (b : List (Subscr ι)) :
    ((groups usort b).flatMap (·.2)).Perm b ∧
      ∀ kg ∈ groups usort b, kg.2 ≠ [] ∧ ∀ s ∈ kg.2, s.gkey = kg.1 :=
  ⟨groups_flatten_perm hu b, fun kg h => ⟨(groups_wf hu b kg h).1, fun s hs => ((groups_wf hu b kg h).2 s hs).1⟩⟩

/-- No two groups of one batch share a key; the keys are the distinct `(exchange, kind)` pairs of the
batch in ascending order: one connection per pair, whatever the order of the batch. -/
theorem group_keys_are_the_distinct_pairs (hu : UnstableSort usort) (b : List (Subscr ι)) :
    (groups usort b).map (·.1) = sortDedup gkeyNat (b.map Subscr.gkey) ∧
      ((groups usort b).map (·.1)).Nodup :=
  ⟨groups_keys hu b, by
    rw [groups_keys hu b]; exact BarterModel.Index.nodup_sortDedup _ gkeyNat_inj _⟩

/-- Every subscription lands in exactly one group (for a duplicate-free batch, as validation returns
it): the group of its own key, and that group holds exactly the batch's subscriptions with that key. -/
theorem every_subscription_in_exactly_one_group (hu : UnstableSort usort) (b : List (Subscr ι))
    (s : Subscr ι) (hs : s ∈ b) :
    (∃ kg ∈ groups usort b, kg.1 = s.gkey ∧ s ∈ kg.2) ∧
      ∀ kg ∈ groups usort b, s ∈ kg.2 → kg.1 = s.gkey ∧ kg.2.Perm (b.filter fun x => x.gkey = s.gkey) := by
  constructor
  · obtain ⟨kg, hkg, hk⟩ := List.mem_map.mp ((mem_groups_keys hu b s.gkey).mpr ⟨s, hs, rfl⟩)
    refine ⟨kg, hkg, hk, ?_⟩
    rw [groups_filter hu b kg hkg, List.mem_filter]
    exact ⟨(hu.perm b).mem_iff.mpr hs, by simp [hk]⟩
  · intro kg hkg hskg
    have hk := ((groups_wf hu b kg hkg).2 s hskg).1
    exact ⟨hk.symm, hk ▸ groups_perm_filter hu b kg hkg⟩

/-- What `sort_unstable_by_key` leaves open is only the order inside a group: each group is a permutation
of the batch's subscriptions with its key … -/
theorem group_is_permutation_of_filter (hu : UnstableSort usort) (b : List (Subscr ι)) :
    ∀ kg ∈ groups usort b, kg.2.Perm (b.filter fun s => s.gkey = kg.1) :=
  groups_perm_filter hu b

/-- … and with a stable sort (what the pinned implementation does up to 20 elements) the order inside a
group is the order of the batch: the grouping is then exactly "for each distinct key, ascending, the
batch filtered by the key". -/
theorem stable_grouping_preserves_order (b : List (Subscr ι)) :
    groups stableSort b =
      (sortDedup gkeyNat (b.map Subscr.gkey)).map fun k => (k, b.filter fun s => s.gkey = k) :=
  groups_stable b

end

/-! ## `DynamicStreams::init` -/

section
variable {ι : Type} [DecidableEq ι] (ops : InstOps ι) {usort : List (Subscr ι) → List (Subscr ι)}

/-- `init` gets past validation, channel creation and dispatch iff every subscription of every batch is
supported … -/
theorem init_ok_iff_all_supported (hu : UnstableSort usort) (batches : List (List (Subscr ι))) :
    (∃ r, init ops usort batches = .ok r) ↔ specAccepts (Subscr.valid ops) batches = true := by
  constructor
  · rintro ⟨r, hr⟩
    cases hv : validateBatches ops batches with
    | error s => unfold init at hr; rw [hv] at hr; cases hr
    | ok vs => exact ((batches_accepted_iff ops batches vs).mp hv).1
  · intro h
    have hv : ∀ b ∈ batches, ∀ s ∈ b, s.valid ops = true := by
      simpa [specAccepts, List.all_eq_true] using h
    obtain ⟨chans, _, _, _, hok⟩ := init_ok ops hu batches hv
    exact ⟨_, hok⟩

/-- … and the only error it can return before the network is the validation error of the first rejected
subscription: `DataError::Unsupported`, `DataError::UnsupportedSubKind`,
`DataError::SubscriptionsEmpty` and the `unwrap()` panic on a missing transmitter are unreachable. -/
theorem init_error_is_validation_error (hu : UnstableSort usort) (batches : List (List (Subscr ι)))
    (e : InitErr ι) (h : init ops usort batches = .error e) :
    ∃ s, e = .validation s ∧ validateBatches ops batches = .error s ∧ s.valid ops = false := by
  obtain ⟨s, he, hv⟩ := init_error ops hu batches e h
  obtain ⟨pre, b, post, _, _, hb⟩ := (validateBatches_error_iff ops batches s).mp hv
  obtain ⟨_, _, _, _, hs⟩ := (validateSubscriptions_error_iff ops b s).mp hb
  exact ⟨s, he, hv, hs⟩

/-- The connections of a successful `init`: per batch (in order, never merged across batches), one
connection per group of the validated batch. -/
theorem init_connections (hu : UnstableSort usort) (batches : List (List (Subscr ι))) (r : InitOk ι)
    (h : init ops usort batches = .ok r) :
    r.conns = batches.map fun b => (groups usort (specSet ops b)).map connOf := by
  have hacc := (init_ok_iff_all_supported ops hu batches).mp ⟨r, h⟩
  have hv : ∀ b ∈ batches, ∀ s ∈ b, s.valid ops = true := by
    simpa [specAccepts, List.all_eq_true] using hacc
  obtain ⟨chans, _, _, _, hok⟩ := init_ok ops hu batches hv
  rw [hok] at h
  injection h with h
  rw [← h]
  simp [List.map_map, Function.comp_def]

/-- Refinement to the specification for the stable sort: the connections are exactly `specGroups` of each
batch — one connection per distinct `(exchange, kind)` of the batch, carrying the batch's subscriptions
with that key as an ascending set. The result does not depend on the order or repetitions of the input. -/
theorem init_refines_spec (batches : List (List (Subscr ι))) (r : InitOk ι)
    (h : init ops stableSort batches = .ok r) :
    r.conns = batches.map fun b => (specGroups ops b).map connOf := by
  rw [init_connections ops stableSort_unstable batches r h]
  apply List.map_congr_left
  intro b _
  rw [groups_stable, specGroups]
  congr 2
  apply BarterModel.Index.sortDedup_congr _ gkeyNat_inj
  intro k
  simp only [List.mem_map]
  constructor
  · rintro ⟨s, hs, rfl⟩; exact ⟨s, (mem_specSet ops b s).mp hs, rfl⟩
  · rintro ⟨s, hs, rfl⟩; exact ⟨s, (mem_specSet ops b s).mpr hs, rfl⟩

/-- For EVERY sort satisfying the documentation: which connections are opened (per batch, in order: the
distinct `(exchange, kind)` pairs of the batch, ascending) does not depend on the sort at all; only the
order of the instruments inside a connection does (`group_is_permutation_of_filter`). -/
theorem init_connection_keys (hu : UnstableSort usort) (batches : List (List (Subscr ι))) (r : InitOk ι)
    (h : init ops usort batches = .ok r) :
    r.conns.map (fun cs => cs.map fun c => (c.exchange, c.kind)) =
      batches.map fun b => sortDedup gkeyNat (b.map Subscr.gkey) := by
  rw [init_connections ops hu batches r h, List.map_map]
  apply List.map_congr_left
  intro b _
  simp only [Function.comp_def, List.map_map]
  have : (fun g : (ExchangeId × SubKind) × List (Subscr ι) => ((connOf g).exchange, (connOf g).kind)) =
      fun g => g.1 := by funext g; rfl
  rw [this, groups_keys hu]
  apply BarterModel.Index.sortDedup_congr _ gkeyNat_inj
  intro k
  simp only [List.mem_map]
  constructor
  · rintro ⟨s, hs, rfl⟩; exact ⟨s, (mem_specSet ops b s).mp hs, rfl⟩
  · rintro ⟨s, hs, rfl⟩; exact ⟨s, (mem_specSet ops b s).mpr hs, rfl⟩

/-- Channels: an exchange owns a channel of a family iff some subscription of some batch is routed to
it (`specChanOwner`), once. -/
theorem init_channels (hu : UnstableSort usort) (batches : List (List (Subscr ι))) (r : InitOk ι)
    (h : init ops usort batches = .ok r) (f : Chan) (e : ExchangeId) :
    (e ∈ r.chans.get f ↔ specChanOwner batches f e = true) ∧ (r.chans.get f).Nodup := by
  have hacc := (init_ok_iff_all_supported ops hu batches).mp ⟨r, h⟩
  have hv : ∀ b ∈ batches, ∀ s ∈ b, s.valid ops = true := by
    simpa [specAccepts, List.all_eq_true] using hacc
  obtain ⟨chans, _, hmem, hnd, hok⟩ := init_ok ops hu batches hv
  rw [hok] at h
  injection h with h
  subst h
  refine ⟨?_, hnd f⟩
  rw [hmem f e]
  simp only [specChanOwner, List.any_eq_true, Bool.and_eq_true, beq_iff_eq]

/-- Every connection forwards into an existing channel of its kind's family (no `unwrap` panic, no
type-confused forwarding), and every channel has at least one connection feeding it (no stream handed
to the user that can never yield). -/
theorem channel_iff_connection (hu : UnstableSort usort) (batches : List (List (Subscr ι))) (r : InitOk ι)
    (h : init ops usort batches = .ok r) (f : Chan) (e : ExchangeId) :
    e ∈ r.chans.get f ↔ ∃ c ∈ r.conns.flatten, c.exchange = e ∧ c.chan = f := by
  have hacc := (init_ok_iff_all_supported ops hu batches).mp ⟨r, h⟩
  have hv : ∀ b ∈ batches, ∀ s ∈ b, s.valid ops = true := by
    simpa [specAccepts, List.all_eq_true] using hacc
  obtain ⟨chans, _, hmem, _, hok⟩ := init_ok ops hu batches hv
  have hconns := init_connections ops hu batches r h
  rw [hok] at h
  injection h with h
  have hch : r.chans = chans := by rw [← h]
  rw [hch, hmem f e, hconns]
  constructor
  · rintro ⟨b, hb, s, hs, h1, h2⟩
    have hs' : s ∈ specSet ops b := (mem_specSet ops b s).mpr hs
    obtain ⟨kg, hkg, hk⟩ := List.mem_map.mp ((mem_groups_keys hu (specSet ops b) s.gkey).mpr ⟨s, hs', rfl⟩)
    refine ⟨connOf kg, ?_, ?_, ?_⟩
    · exact List.mem_flatten.mpr ⟨_, List.mem_map.mpr ⟨b, hb, rfl⟩, List.mem_map.mpr ⟨kg, hkg, rfl⟩⟩
    · simp only [connOf, hk, Subscr.gkey]; exact h1
    · simp only [connOf, hk, Subscr.gkey, h2]
  · rintro ⟨c, hc, h1, h2⟩
    obtain ⟨cs, hcs, hc'⟩ := List.mem_flatten.mp hc
    obtain ⟨b, hb, rfl⟩ := List.mem_map.mp hcs
    obtain ⟨kg, hkg, rfl⟩ := List.mem_map.mp hc'
    have ⟨hne, hg2⟩ := groups_wf hu (specSet ops b) kg hkg
    obtain ⟨s, hs⟩ := List.exists_mem_of_ne_nil _ hne
    have ⟨hk, hsb⟩ := hg2 s hs
    have hsb0 := (mem_specSet ops b s).mp hsb
    have hroute := (valid_arm_route ops s (hv b hb s hsb0)).2
    obtain ⟨f', hf'⟩ := Option.isSome_iff_exists.mp hroute
    refine ⟨b, hb, s, hsb0, ?_, ?_⟩
    · rw [← h1]; simp only [connOf, ← hk, Subscr.gkey]
    · have : s.kind = kg.1.2 := by rw [← hk]; rfl
      rw [← h2]; simp only [connOf, ← this, hf']

/-- The error of `init`, exactly: the first batch (in the caller's order) that holds a rejected
subscription, and in it the first rejected subscription. -/
theorem init_reports_first_rejected (hu : UnstableSort usort) (batches : List (List (Subscr ι))) (s : Subscr ι) :
    init ops usort batches = .error (.validation s) ↔
      ∃ pre pre' post' post, batches = pre ++ (pre' ++ s :: post') :: post ∧
        (∀ b ∈ pre, ∀ x ∈ b, x.valid ops = true) ∧ (∀ x ∈ pre', x.valid ops = true) ∧ s.valid ops = false := by
  constructor
  · intro h
    obtain ⟨s', he, hv, _⟩ := init_error_is_validation_error ops hu batches _ h
    injection he with he; subst he
    obtain ⟨pre, b, post, hb, hpre, hbe⟩ := (validateBatches_error_iff ops batches s).mp hv
    obtain ⟨pre', post', hb', hpre', hs⟩ := (validateSubscriptions_error_iff ops b s).mp hbe
    exact ⟨pre, pre', post', post, by rw [hb, hb'], hpre, hpre', hs⟩
  · rintro ⟨pre, pre', post', post, hb, hpre, hpre', hs⟩
    have hv : validateBatches ops batches = .error s :=
      (validateBatches_error_iff ops batches s).mpr ⟨pre, _, post, hb, hpre,
        (validateSubscriptions_error_iff ops _ s).mpr ⟨pre', post', rfl, hpre', hs⟩⟩
    unfold init; rw [hv]

/-- Duplicates are gone: no connection subscribes to the same instrument twice (whatever the unstable sort
does). -/
theorem connection_has_no_duplicate_instrument (hl : ops.Lawful) (hu : UnstableSort usort)
    (batches : List (List (Subscr ι))) (r : InitOk ι) (h : init ops usort batches = .ok r) :
    ∀ c ∈ r.conns.flatten, c.instruments.Nodup := by
  rw [init_connections ops hu batches r h]
  intro c hc
  obtain ⟨cs, hcs, hc'⟩ := List.mem_flatten.mp hc
  obtain ⟨b, _, rfl⟩ := List.mem_map.mp hcs
  obtain ⟨kg, hkg, rfl⟩ := List.mem_map.mp hc'
  have hperm := groups_perm_filter hu (specSet ops b) kg hkg
  have hnd : kg.2.Nodup :=
    hperm.nodup_iff.mpr ((BarterModel.Index.nodup_sortDedup _ (sortKey_inj ops hl) b).filter _)
  have hkey := (groups_wf hu (specSet ops b) kg hkg).2
  simp only [connOf]
  apply BarterModel.Index.nodup_map_of_injOn _ _ hnd
  intro a ha b' hb' hab
  have h1 := (hkey a ha).1
  have h2 := (hkey b' hb').1
  obtain ⟨e1, i1, k1⟩ := a
  obtain ⟨e2, i2, k2⟩ := b'
  simp only [Subscr.gkey] at h1 h2
  simp only at hab
  subst hab
  have := h1.trans h2.symm
  simp only [Prod.mk.injEq] at this
  rw [this.1, this.2]

/-- Edge cases: no batch, and an empty batch, are accepted and open NO connection (the doc comment of
`init` says every batch initialises at least one stream). -/
theorem empty_input (hu : UnstableSort usort) :
    init ops usort [] = .ok ⟨[], {}⟩ ∧ init ops usort [[]] = .ok ⟨[[]], {}⟩ := by
  have h0 : usort [] = [] := (hu.perm []).eq_nil
  constructor
  · simp [init, validateBatches, collectM, channels, Chans.addAll]
  · simp [init, validateBatches, collectM, validateSubscriptions, channels, Chans.addAll, groups, h0, chunkBy,
      BarterModel.Index.sortDedup, BarterModel.Index.dedup]

end

/-! ## Batches never share a connection -/

section
variable {ι : Type} [DecidableEq ι] (ops : InstOps ι) {usort : List (Subscr ι) → List (Subscr ι)}

/-- Groups of the same key from DIFFERENT batches stay separate connections: the number of connections
`init` opens for `(exchange, kind)` is the number of batches that contain a subscription with that key
(and the connection lists line up with the batches one to one). -/
theorem same_key_in_different_batches_stays_separate (hu : UnstableSort usort)
    (batches : List (List (Subscr ι))) (r : InitOk ι) (h : init ops usort batches = .ok r)
    (k : ExchangeId × SubKind) :
    r.conns.length = batches.length ∧
      r.conns.flatten.countP (fun c => (c.exchange, c.kind) = k) =
        batches.countP (fun b => b.any fun s => s.gkey = k) := by
  rw [init_connections ops hu batches r h]
  refine ⟨by simp, ?_⟩
  have one : ∀ b : List (Subscr ι),
      ((groups usort (specSet ops b)).map connOf).countP (fun c => (c.exchange, c.kind) = k) =
        if (b.any fun s => s.gkey = k) = true then 1 else 0 := by
    intro b
    have hk : ((groups usort (specSet ops b)).map connOf).countP (fun c => (c.exchange, c.kind) = k) =
        ((groups usort (specSet ops b)).map (·.1)).count k := by
      rw [List.count_eq_countP, List.countP_map, List.countP_map]
      apply List.countP_congr
      intro g _
      have : (g.1.1, g.1.2) = g.1 := rfl
      simp [connOf, this]
    rw [hk, (group_keys_are_the_distinct_pairs hu (specSet ops b)).2.count]
    have : k ∈ (groups usort (specSet ops b)).map (·.1) ↔ (b.any fun s => s.gkey = k) = true := by
      rw [mem_groups_keys hu]
      simp only [List.any_eq_true, decide_eq_true_eq]
      constructor
      · rintro ⟨s, hs, h⟩; exact ⟨s, (mem_specSet ops b s).mp hs, h⟩
      · rintro ⟨s, hs, h⟩; exact ⟨s, (mem_specSet ops b s).mpr hs, h⟩
    simp only [this]
  clear h
  induction batches with
  | nil => simp
  | cons b t ih =>
    simp only [List.map_cons, List.flatten_cons, List.countP_append, List.countP_cons, one b]
    rw [ih]
    omega

end

/-! ## `DynamicStreams::select_*` -/

/-- The four families are independent; `select_<f>(e)` returns a stream iff one is (still) there, removes
exactly that one and leaves every other stream where it is. -/
theorem select_removes_exactly_that_stream (c : Chans) (hc : c.Nodup) (f : Chan) (e : ExchangeId) :
    ((c.select f e).2 = true ↔ e ∈ c.get f) ∧
      ∀ f' e', e' ∈ (c.select f e).1.get f' ↔ (e' ∈ c.get f' ∧ ¬ (f' = f ∧ e' = e)) := by
  constructor
  · unfold Chans.select; split <;> simp [*]
  · intro f' e'
    have := (step_get c hc (.select f e) f').1
    simp only [Chans.step] at this
    rw [this, List.mem_filter]
    simp only [keeps, Bool.and_eq_false_iff, beq_eq_false_iff_ne, ne_eq, Bool.not_eq_eq_eq_not,
      Bool.not_true, not_and]
    constructor
    · rintro ⟨h1, h2⟩
      refine ⟨h1, fun hf he => ?_⟩
      rcases h2 with h2 | h2
      · exact h2 hf.symm
      · exact h2 he.symm
    · rintro ⟨h1, h2⟩
      refine ⟨h1, ?_⟩
      by_cases hf : f = f'
      · exact .inr (fun he => h2 hf.symm he.symm)
      · exact .inl hf

/-- After any sequence of calls a stream is in the collection iff the collection was built with it and no
call since has taken it (`specPresent`): a second `select` of the same stream returns `None`,
`select_all_<f>` leaves the family empty, `select_all` everything. -/
theorem selects_refine_spec (c : Chans) (hc : c.Nodup) (ops : List SelOp) (f : Chan) (e : ExchangeId) :
    e ∈ (c.run ops).get f ↔ specPresent c ops f e = true := by
  rw [(run_get c hc ops f).1, specPresent_eq, List.mem_filter]
  simp

/-- The hypothesis `c.Nodup` is discharged for every channel table `DynamicStreams::init` produces (the tables
are hash maps: `Channels::try_from` inserts an exchange once per family) … -/
theorem init_channel_table_nodup {ι : Type} [DecidableEq ι] (ops : InstOps ι)
    {usort : List (Subscr ι) → List (Subscr ι)} (hu : UnstableSort usort) (batches : List (List (Subscr ι)))
    (r : InitOk ι) (h : init ops usort batches = .ok r) : r.chans.Nodup :=
  fun f => (init_channels ops hu batches r h f default).2

/-- … so for the streams of a successful `init` the refinement holds without any hypothesis on the table. -/
theorem selects_refine_spec_after_init {ι : Type} [DecidableEq ι] (ops : InstOps ι)
    {usort : List (Subscr ι) → List (Subscr ι)} (hu : UnstableSort usort) (batches : List (List (Subscr ι)))
    (r : InitOk ι) (h : init ops usort batches = .ok r) (sel : List SelOp) (f : Chan) (e : ExchangeId) :
    e ∈ (r.chans.run sel).get f ↔ specPresent r.chans sel f e = true :=
  selects_refine_spec r.chans (init_channel_table_nodup ops hu batches r h) sel f e

/-- WITNESS that `Nodup` is needed by the MODEL's list representation (not by the code, whose maps cannot hold
a key twice): with `okx` listed twice one `select` leaves a copy behind. The driver builds its tables with
`eraseDups`. -/
theorem selects_need_nodup_witness :
    ¬ (∀ (c : Chans) (ops : List SelOp) (f : Chan) (e : ExchangeId),
      e ∈ (c.run ops).get f ↔ specPresent c ops f e = true) := by
  intro h
  have := h { trades := [.okx, .okx] } [.select .trades .okx] .trades .okx
  revert this; decide

/-- `select_all_<f>` hands out exactly the streams still present. -/
theorem select_all_returns_the_present_streams (c : Chans) (hc : c.Nodup) (ops : List SelOp) (f : Chan) :
    ((c.run ops).selectAll f).2 = (c.get f).filter (fun e => specPresent c ops f e) ∧
      ((c.run ops).selectAll f).1.get f = [] := by
  refine ⟨?_, by simp [Chans.selectAll, Chans.get_set]⟩
  simp only [Chans.selectAll, (run_get c hc ops f).1]
  apply List.filter_congr
  intro x hx
  simp [specPresent_eq, hx]

/-! ## `StreamBuilder` / `MultiStreamBuilder` before the network -/

section
variable {ι : Type} [DecidableEq ι] (ops : InstOps ι)

omit [DecidableEq ι] in
/-- After any sequence of `subscribe` calls the builder holds one future per call, in call order, and a
channel for exactly the exchanges subscribed to (once each). -/
theorem builder_tracks_calls (kind : SubKind) (calls : List (Exch × List ι)) :
    (Builder.ofCalls kind calls).futures = calls ∧
      (∀ x, x ∈ (Builder.ofCalls kind calls).channels ↔ ∃ call ∈ calls, connId call.1 = x) ∧
      (Builder.ofCalls kind calls).channels.Nodup :=
  ⟨(ofCalls_spec kind calls).1, (ofCalls_spec kind calls).2.2.1, (ofCalls_spec kind calls).2.2.2⟩

/-- What the future of one `subscribe` call does first: it fails with the FIRST instrument whose kind the
connector's static `validate` rejects; with none rejected it fails with `SubscriptionsEmpty` iff the call
had no subscription; otherwise it goes to the network with the set of the subscriptions. -/
theorem subscribe_future_outcome (c : Exch) (insts : List ι) :
    (∀ i, subscribeOutcome ops c insts = .unsupported i ↔
        ∃ pre post, insts = pre ++ i :: post ∧ (∀ a ∈ pre, staticValid c (ops.cls a) = true) ∧
          staticValid c (ops.cls i) = false) ∧
      (subscribeOutcome ops c insts = .empty ↔ insts = []) ∧
      (∀ l, subscribeOutcome ops c insts = .connect l ↔
        (∀ a ∈ insts, staticValid c (ops.cls a) = true) ∧ insts ≠ [] ∧ l = sortDedup ops.sortKey insts) :=
  ⟨subscribeOutcome_unsupported_iff ops c insts, subscribeOutcome_empty_iff ops c insts,
    subscribeOutcome_connect_iff ops c insts⟩

/-- What the future of a `subscribe` call does when first polled: never `Ok` at once; `Pending` on the network
iff the call's outcome is `connect`; otherwise it fails with the call's own outcome, under its own connector. -/
theorem first_poll_of_call (call : Exch × List ι) :
    callPoll ops call ≠ none ∧
      (callPoll ops call = some .network ↔ ∃ l, subscribeOutcome ops call.1 call.2 = .connect l) ∧
      ∀ c o, callPoll ops call = some (.error (c, o)) ↔
        call.1 = c ∧ subscribeOutcome ops call.1 call.2 = o ∧ ∀ l, o ≠ .connect l :=
  ⟨callPoll_ne_none ops call, callPoll_network_iff ops call, callPoll_error_iff ops call⟩

/-- `StreamBuilder::init` before the network (CORRECTED after the sub-check review: the former statement "the
first `subscribe` call alone decides" is false of `try_join_all` on at most 30 futures, see
`later_synchronous_failure_decides`): no call, no error; and IF the first call fails before the network
(unsupported instrument kind, or no subscription) its error is the result — whatever the other calls do, and
for any number of calls. -/
theorem builder_init_decided_by_first_call (b : Builder ι) :
    (b.init ops = none ↔ b.futures = []) ∧
      ∀ c insts rest, b.futures = (c, insts) :: rest → (∀ l, subscribeOutcome ops c insts ≠ .connect l) →
        b.init ops = some (.error (c, subscribeOutcome ops c insts)) := by
  constructor
  · have key : (∀ x ∈ b.firstPolls ops, x = none) ↔ b.futures = [] := by
      constructor
      · intro h
        cases hf : b.futures with
        | nil => rfl
        | cons call rest =>
          exact absurd (h (callPoll ops call) (by simp [Builder.firstPolls, hf])) (callPoll_ne_none ops call)
      · intro h; simp [Builder.firstPolls, h]
    unfold Builder.init tryJoinAll
    split
    · rw [joinSmall_none_iff, key]
    · rw [joinBig_none_iff, key]
  · intro c insts rest h hfail
    have hp : callPoll ops (c, insts) = some (.error (c, subscribeOutcome ops c insts)) :=
      (callPoll_error_iff ops (c, insts) c _).mpr ⟨rfl, rfl, hfail⟩
    unfold Builder.init tryJoinAll
    simp only [Builder.firstPolls, h, List.map_cons, hp]
    split <;> rfl

/-- THE FIRST-PASS CLAUSE (`try_join_all` on at most 30 futures polls every future once, in order, and returns
the first `Err` of that pass): the result of `init` before the network is the error of the first call, in
`subscribe` order, that FAILS WHEN FIRST POLLED — an iff — … -/
theorem builder_init_first_pass_error (b : Builder ι) (hsmall : b.futures.length ≤ 30) (c : Exch)
    (o : SubscribeOutcome ι) :
    b.init ops = some (.error (c, o)) ↔
      ∃ pre insts post, b.futures = pre ++ (c, insts) :: post ∧
        (∀ p ∈ pre, ∃ l, subscribeOutcome ops p.1 p.2 = .connect l) ∧
        subscribeOutcome ops c insts = o ∧ ∀ l, o ≠ .connect l := by
  unfold Builder.init tryJoinAll
  rw [if_pos (by simpa [Builder.firstPolls, tryJoinSmall] using hsmall), joinSmall_error_iff]
  constructor
  · rintro ⟨pre, post, h, hpre⟩
    obtain ⟨l1, l2', hl, hm1, hm2⟩ := List.map_eq_append_iff.mp h
    obtain ⟨call, l2, rfl, hcall, _⟩ := List.map_eq_cons_iff.mp hm2
    obtain ⟨c', insts⟩ := call
    obtain ⟨hc, ho, hno⟩ := (callPoll_error_iff ops (c', insts) c o).mp hcall
    simp only at hc ho
    subst hc
    refine ⟨l1, insts, l2, hl, ?_, ho, hno⟩
    intro p hp
    exact (callPoll_noErr_iff ops p).mp (hpre _ (by rw [← hm1]; exact List.mem_map.mpr ⟨p, hp, rfl⟩))
  · rintro ⟨pre, insts, post, h, hpre, ho, hno⟩
    refine ⟨pre.map (callPoll ops), post.map (callPoll ops), ?_, ?_⟩
    · simp only [Builder.firstPolls, h, List.map_append, List.map_cons,
        (callPoll_error_iff ops (c, insts) c o).mpr ⟨rfl, ho, hno⟩]
    · intro x hx
      obtain ⟨p, hp, rfl⟩ := List.mem_map.mp hx
      exact (callPoll_noErr_iff ops p).mpr (hpre p hp)

/-- … and only if NO call fails when first polled is the outcome the network's. -/
theorem builder_init_first_pass_network (b : Builder ι) (hsmall : b.futures.length ≤ 30) :
    b.init ops = some .network ↔
      b.futures ≠ [] ∧ ∀ p ∈ b.futures, ∃ l, subscribeOutcome ops p.1 p.2 = .connect l := by
  unfold Builder.init tryJoinAll
  rw [if_pos (by simpa [Builder.firstPolls, tryJoinSmall] using hsmall), joinSmall_network_iff]
  constructor
  · rintro ⟨hno, x, hx, _⟩
    refine ⟨?_, fun p hp => (callPoll_noErr_iff ops p).mp (hno _ (List.mem_map.mpr ⟨p, hp, rfl⟩))⟩
    intro hnil
    simp [Builder.firstPolls, hnil] at hx
  · rintro ⟨hne, hall⟩
    refine ⟨?_, ?_⟩
    · intro x hx
      obtain ⟨p, hp, rfl⟩ := List.mem_map.mp hx
      exact (callPoll_noErr_iff ops p).mpr (hall p hp)
    · obtain ⟨p, hp⟩ := List.exists_mem_of_ne_nil _ hne
      exact ⟨_, List.mem_map.mpr ⟨p, hp, rfl⟩, callPoll_ne_none ops p⟩

/-- A LATER synchronous failure decides although earlier calls reached the network: with at most 30 calls, if
every call before `(c, insts)` goes to the network and `(c, insts)` fails before it, `init` returns that
call's error (and not "whatever the network does to the first call"). -/
theorem later_synchronous_failure_decides (b : Builder ι) (pre post : List (Exch × List ι)) (c : Exch)
    (insts : List ι) (h : b.futures = pre ++ (c, insts) :: post) (hsmall : b.futures.length ≤ 30)
    (hpre : ∀ p ∈ pre, ∃ l, subscribeOutcome ops p.1 p.2 = .connect l)
    (hfail : ∀ l, subscribeOutcome ops c insts ≠ .connect l) :
    b.init ops = some (.error (c, subscribeOutcome ops c insts)) :=
  (builder_init_first_pass_error ops b hsmall c _).mpr ⟨pre, insts, post, h, hpre, rfl, hfail⟩

/-- From 31 calls on (`try_join_all` hands the futures to `FuturesOrdered`, whose results are consumed in
index order) the first call alone decides: its error if it fails before the network, the network otherwise —
a later synchronous failure stays queued behind it. -/
theorem builder_init_big (b : Builder ι) (hbig : 30 < b.futures.length) (c : Exch) (insts : List ι)
    (rest : List (Exch × List ι)) (h : b.futures = (c, insts) :: rest) :
    b.init ops = some (match subscribeOutcome ops c insts with
      | .connect _ => .network
      | o => .error (c, o)) := by
  unfold Builder.init tryJoinAll
  rw [if_neg (by simpa [Builder.firstPolls, tryJoinSmall] using hbig)]
  simp only [Builder.firstPolls, h, List.map_cons, callPoll]
  cases subscribeOutcome ops c insts <;> rfl

omit [DecidableEq ι] in
/-- `MultiStreamBuilder::add` owns a channel per exchange of every added builder, once. -/
theorem multi_channels_are_the_union (m : Multi ι) (b : Builder ι) (x : ExchangeId) :
    (x ∈ (m.add b).channels ↔ x ∈ m.channels ∨ x ∈ b.channels) ∧
      (m.channels.Nodup → (m.add b).channels.Nodup) ∧ (m.add b).futures = m.futures ++ [b] :=
  ⟨multi_add_channels m b x, multi_add_nodup m b, rfl⟩

/-- `MultiStreamBuilder::init` before the network (CORRECTED after the sub-check review: "the first builder
with a `subscribe` call decides" is false when that builder goes to the network and a later one fails
synchronously, see `multi_init_first_pass_error`): builders without any `subscribe` call are skipped, and IF
the first builder with one fails before the network, its error is the result. -/
theorem multi_init_decided_by_first_nonempty_builder (pre : List (Builder ι)) (b : Builder ι)
    (post : List (Builder ι)) (hpre : ∀ x ∈ pre, x.futures = []) (e : Exch × SubscribeOutcome ι)
    (hb : b.init ops = some (.error e)) :
    (⟨[], pre ++ b :: post⟩ : Multi ι).init ops = b.init ops ∧
      (⟨[], pre⟩ : Multi ι).init ops = none := by
  have hskip : ∀ x ∈ pre, x.init ops = none := fun x hx =>
    (builder_init_decided_by_first_call ops x).1.mpr (hpre x hx)
  have hnone : ∀ x ∈ pre.map (fun b => b.init ops), x = none := by
    intro x hx
    obtain ⟨y, hy, rfl⟩ := List.mem_map.mp hx
    exact hskip y hy
  constructor
  · rw [hb]
    unfold Multi.init tryJoinAll
    simp only [List.map_append, List.map_cons, hb]
    split
    · exact (joinSmall_error_iff _ e).mpr ⟨_, _, rfl, fun x hx e' => by rw [hnone x hx]; simp⟩
    · exact (joinBig_some_iff _ _).mpr ⟨_, _, rfl, hnone⟩
  · unfold Multi.init tryJoinAll
    split
    · exact (joinSmall_none_iff _).mpr hnone
    · exact (joinBig_none_iff _).mpr hnone

/-- The first-pass clause one level up (at most 30 added builders): the result of `MultiStreamBuilder::init`
before the network is the error of the first builder, in `add` order, whose own `init` fails when first
polled — builders that are `Ok` at once or pending on the network are passed over. -/
theorem multi_init_first_pass_error (m : Multi ι) (hsmall : m.futures.length ≤ 30) (e : Exch × SubscribeOutcome ι) :
    m.init ops = some (.error e) ↔
      ∃ pre b post, m.futures = pre ++ b :: post ∧ (∀ x ∈ pre, ∀ e', x.init ops ≠ some (.error e')) ∧
        b.init ops = some (.error e) := by
  unfold Multi.init tryJoinAll
  rw [if_pos (by simpa [tryJoinSmall] using hsmall), joinSmall_error_iff]
  constructor
  · rintro ⟨pre, post, h, hpre⟩
    obtain ⟨l1, l2', hl, hm1, hm2⟩ := List.map_eq_append_iff.mp h
    obtain ⟨b, l2, rfl, hb, _⟩ := List.map_eq_cons_iff.mp hm2
    exact ⟨l1, b, l2, hl, fun x hx => hpre _ (by rw [← hm1]; exact List.mem_map.mpr ⟨x, hx, rfl⟩), hb⟩
  · rintro ⟨pre, b, post, h, hpre, hb⟩
    refine ⟨pre.map (fun b => b.init ops), post.map (fun b => b.init ops), by simp [h, hb], ?_⟩
    intro x hx
    obtain ⟨y, hy, rfl⟩ := List.mem_map.mp hx
    exact hpre y hy

/-- `Ok` before the network iff no added builder has any `subscribe` call (any number of builders). -/
theorem multi_init_ok_iff (m : Multi ι) : m.init ops = none ↔ ∀ b ∈ m.futures, b.futures = [] := by
  have key : (∀ x ∈ m.futures.map (fun b => b.init ops), x = none) ↔ ∀ b ∈ m.futures, b.futures = [] := by
    constructor
    · intro h b hb
      exact (builder_init_decided_by_first_call ops b).1.mp (h _ (List.mem_map.mpr ⟨b, hb, rfl⟩))
    · intro h x hx
      obtain ⟨b, hb, rfl⟩ := List.mem_map.mp hx
      exact (builder_init_decided_by_first_call ops b).1.mpr (h b hb)
  unfold Multi.init tryJoinAll
  split
  · rw [joinSmall_none_iff, key]
  · rw [joinBig_none_iff, key]

end

/-- WITNESS (the input of the sub-check review; the real `init` was run on it: `sb 0; sub 0 1/2/s; sub 1 1/2/s;
sbinit` returns `Err(Socket("BinanceFuturesUsd does not support: spot"))`): the first call (BinanceSpot) is
pending on its connection attempt, the second (BinanceFuturesUsd with a Spot instrument) fails the static
`validate` in the same pass and decides. -/
theorem later_failure_witness :
    (Builder.ofCalls .publicTrades
        [(Exch.binanceSpot, [(⟨1, 2, .spot⟩ : Inst)]), (Exch.binanceFuturesUsd, [⟨1, 2, .spot⟩])]).init instOps =
      some (.error (.binanceFuturesUsd, .unsupported ⟨1, 2, .spot⟩)) ∧
    subscribeOutcome instOps .binanceSpot [(⟨1, 2, .spot⟩ : Inst)] = .connect [⟨1, 2, .spot⟩] := by
  constructor <;> decide +kernel

/-- WITNESS one level up (`mb; sb 0; sub 0 1/2/s; madd; sb 0; sub 1 1/2/s; madd; minit` on the real code:
the same error): the first added builder is pending on the network, the second fails at once and decides. -/
theorem multi_later_failure_witness :
    (((({} : Multi Inst).add (Builder.ofCalls .publicTrades [(Exch.binanceSpot, [⟨1, 2, .spot⟩])])).add
        (Builder.ofCalls .publicTrades [(Exch.binanceFuturesUsd, [⟨1, 2, .spot⟩])])).init instOps) =
      some (.error (.binanceFuturesUsd, .unsupported ⟨1, 2, .spot⟩)) := by
  decide +kernel

/-- WITNESS of the 30 / 31 boundary (both run on the real code): the call list "BinanceSpot, BinanceFuturesUsd
with a Spot instrument, then n more BinanceSpot calls" ends in the second call's error for n = 28 (30 calls)
and in the network for n = 29 (31 calls). -/
theorem try_join_all_boundary_witness :
    let calls (n : Nat) : List (Exch × List Inst) :=
      [(Exch.binanceSpot, [⟨1, 2, .spot⟩]), (Exch.binanceFuturesUsd, [⟨1, 2, .spot⟩])] ++
        (List.range n).map fun i => (Exch.binanceSpot, [⟨i, 2, .spot⟩])
    (Builder.ofCalls .publicTrades (calls 28)).init instOps =
        some (.error (.binanceFuturesUsd, .unsupported ⟨1, 2, .spot⟩)) ∧
      (Builder.ofCalls .publicTrades (calls 29)).init instOps = some .network := by
  constructor <;> decide +kernel

/-- COUNTER-THEOREM (the static and the dynamic validators disagree on a concrete subscription): a
`Spot` instrument on the `GateioFuturesUsd` connector passes the static `validate` and is handed to the
network by `StreamBuilder`, while the very same subscription is rejected by `DynamicStreams::init`. -/
theorem static_accepts_what_dynamic_rejects :
    subscribeOutcome instOps .gateioFuturesUsd [⟨0, 1, .spot⟩] = .connect [⟨0, 1, .spot⟩] ∧
      init instOps stableSort [[⟨.gateioFuturesUsd, ⟨0, 1, .spot⟩, .publicTrades⟩]] =
        .error (.validation ⟨.gateioFuturesUsd, ⟨0, 1, .spot⟩, .publicTrades⟩) := by
  constructor <;> decide +kernel

/-! ## `generate_indexed_market_data_subscription_batches`, `index_market_data_subscription_batches` -/

section
open BarterModel.Index (Indexed exchangeKey)

/-- Every Instrument-SubKind combination is generated exactly once (whatever the unstable sort does) —
and NONE is checked against the support table: the batches go to `DynamicStreams::init` unvalidated. -/
theorem generate_covers_every_combination {usort : List (Nat × MInst) → List (Nat × MInst)}
    (hu : UnstableSortBy (fun x => exchangeKey x.1) usort) (ii : Indexed) (kinds : List SubKind) :
    (generateBatches usort ii kinds).flatten.Perm
      (ii.instruments.flatMap fun k => kinds.map fun sk => (k.value.exchange.value, MInst.ofIndexed k, sk)) := by
  rw [generate_flatten]
  refine ((hu.perm _).flatMap_right _).trans ?_
  rw [List.flatMap_map]

/-- In particular a combination the support table rejects is generated like any other: whether
`DynamicStreams::init` accepts the generated batches is decided there (`init_ok_iff_all_supported`), e.g. a
`BinanceSpot` instrument with `&[SubKind::Liquidations]` makes `init_indexed_multi_exchange_market_stream`
fail as a whole. -/
theorem generate_does_not_validate {usort : List (Nat × MInst) → List (Nat × MInst)}
    (hu : UnstableSortBy (fun x => exchangeKey x.1) usort) (ii : Indexed) (kinds : List SubKind)
    (k : BarterModel.Index.Keyed Nat BarterModel.Index.IInstrument) (hk : k ∈ ii.instruments)
    (sk : SubKind) (hsk : sk ∈ kinds) :
    (k.value.exchange.value, MInst.ofIndexed k, sk) ∈ (generateBatches usort ii kinds).flatten := by
  rw [(generate_covers_every_combination hu ii kinds).mem_iff, List.mem_flatMap]
  exact ⟨k, hk, List.mem_map.mpr ⟨sk, hsk, rfl⟩⟩

/-- Refinement to the documented behaviour for the stable sort: one batch per distinct exchange
(ascending), holding the exchange's instruments in index order, each with the kinds in the given order. -/
theorem generate_refines_spec (ii : Indexed) (kinds : List SubKind) :
    generateBatches stableSortIdx ii kinds = specGenerate ii kinds :=
  generate_stable ii kinds

/-- With no kinds every exchange still gets its (empty) batch: `init` then opens no connection. -/
theorem generate_without_kinds (ii : Indexed) :
    ∀ b ∈ generateBatches stableSortIdx ii [], b = [] := by
  rw [generate_refines_spec]
  intro b hb
  simp only [specGenerate, List.map_nil, List.mem_map] at hb
  obtain ⟨e, _, rfl⟩ := hb
  simp

/-- Indexing keeps the shape of the batches and every subscription's exchange, instrument and kind; it
only attaches a key … -/
theorem index_attaches_keys_only (ii : Indexed) (batches : List (List (Nat × Inst × SubKind)))
    (r : List (List (Nat × KInst × SubKind))) (h : indexBatches ii batches = .ok r) :
    r.map (fun b => b.map fun x => (x.1, x.2.1.value, x.2.2)) = batches := by
  unfold indexBatches at h
  refine collectM_forget _ _ ?_ _ _ h
  intro b rb hb
  exact collectM_forget _ _ (fun a x hx => indexSub_forget ii a x hx) _ _ hb

/-- … namely the key of the FIRST indexed instrument (index order) of that exchange whose kind equals the
subscription's and whose underlying assets are the ones `find_asset_index` returns for the subscription's
base and quote. -/
theorem index_key_is_first_match (ii : Indexed) (s : Nat × Inst × SubKind) (r : Nat × KInst × SubKind)
    (h : indexSub ii s = .ok r) :
    ∃ b q pre x post, ii.findAssetIndex s.1 s.2.1.base = some b ∧ ii.findAssetIndex s.1 s.2.1.quote = some q ∧
      ii.instruments = pre ++ x :: post ∧ x.key = r.2.1.key ∧ x.value.exchange.value = s.1 ∧
      eqKind x.value.kind s.2.1.kind = true ∧ x.value.base = b ∧ x.value.quote = q ∧
      ∀ y ∈ pre, ¬ (y.value.exchange.value = s.1 ∧ eqKind y.value.kind s.2.1.kind = true ∧
        y.value.base = b ∧ y.value.quote = q) := by
  obtain ⟨b, q, k, hb, hq, hk, rfl⟩ := (indexSub_ok_iff ii s r).mp h
  obtain ⟨pre, x, post, h1, h2, h3, h4, h5, h6, h7⟩ := findInstrument_some ii _ _ _ _ _ hk
  exact ⟨b, q, pre, x, post, hb, hq, h1, h2, h3, h4, h5, h6, h7⟩

/-- The two errors: an unknown base or quote asset gives `IndexError::AssetIndex`, known assets without
a matching instrument give `IndexError::InstrumentIndex`; nothing else. -/
theorem index_error_cases (ii : Indexed) (s : Nat × Inst × SubKind) (e : IndexErr) :
    indexSub ii s = .error e ↔
      ((ii.findAssetIndex s.1 s.2.1.base = none ∨ ii.findAssetIndex s.1 s.2.1.quote = none) ∧ e = .assetIndex) ∨
      (∃ b q, ii.findAssetIndex s.1 s.2.1.base = some b ∧ ii.findAssetIndex s.1 s.2.1.quote = some q ∧
        findInstrument ii s.1 s.2.1.kind b q = none ∧ e = .instrumentIndex) :=
  indexSub_error_iff ii s e

end

/-! ## `Map` and the texts -/

/-- `Map::from_iter` then `find`: the value of the LAST pair with that key; `Err(Unidentifiable)` iff no
pair has it. -/
theorem map_find_after_from_iter (l : List (Str × Nat)) (k : Str) :
    mapFind (mapFromIter l) k = (l.reverse.find? (fun kv => kv.1 = k)).map (·.2) := by
  unfold mapFind mapFromIter
  rw [mapFromIter_find_aux]
  cases l.reverse.find? (fun kv => kv.1 = k) <;> simp [BarterModel.Connectors.IMap.find]

/-- `find_mut` gives access iff `find` succeeds; an assignment through it is what the next `find` of
that key returns and changes no other key. -/
theorem map_find_mut (m : BarterModel.Connectors.IMap) (k : Str) (v : Nat) :
    ((mapFindMutSet m k v).isSome ↔ (mapFind m k).isSome) ∧
      ∀ m', mapFindMutSet m k v = some m' →
        mapFind m' k = some v ∧ ∀ k', k' ≠ k → mapFind m' k' = mapFind m k' := by
  unfold mapFindMutSet mapFind
  cases h : m.find k with
  | none => simp
  | some x =>
    refine ⟨by simp, ?_⟩
    intro m' hm'
    simp only [Option.some.injEq] at hm'
    subst hm'
    exact ⟨BarterModel.Connectors.find_insert_self m k v,
      fun k' hk' => BarterModel.Connectors.find_insert_ne m k k' v hk'⟩

/-- `display_subscriptions_without_exchange` does what its name says: the exchange does not influence the
text; one `(instrument, kind)` item per subscription. -/
theorem display_ignores_exchange {ι : Type} (disp : ι → Str) (subs : List (Subscr ι)) (e : ExchangeId) :
    displayWithoutExchange disp (subs.map fun s => { s with exchange := e }) =
      displayWithoutExchange disp subs := by
  simp [displayWithoutExchange, List.map_map, Function.comp_def]

/-! ## Non-vacuity: the hypotheses are satisfiable by non-trivial values -/

example : instOps.Lawful := instOps_lawful
example : kinstOps.Lawful := kinstOps_lawful
example : minstOps.Lawful := minstOps_lawful
example : UnstableSort (stableSort (ι := Inst)) := stableSort_unstable

/-- two batches, two keys in the first, a duplicate and an unsorted order -/
def exBatches : List (List (Subscr Inst)) :=
  [[⟨.binanceSpot, ⟨1, 0, .spot⟩, .publicTrades⟩, ⟨.okx, ⟨0, 0, .perpetual⟩, .publicTrades⟩,
    ⟨.binanceSpot, ⟨0, 0, .spot⟩, .publicTrades⟩, ⟨.binanceSpot, ⟨1, 0, .spot⟩, .publicTrades⟩],
   [⟨.binanceSpot, ⟨0, 0, .spot⟩, .orderBooksL1⟩, ⟨.binanceSpot, ⟨0, 0, .spot⟩, .publicTrades⟩]]

/-- accepted; one connection list per batch; `(BinanceSpot, PublicTrades)` occurs in both batches and gets
two connections; the channels are those of the specification -/
example : ∃ r, init instOps stableSort exBatches = .ok r ∧ r.conns.length = 2 ∧
    r.conns.flatten.countP (fun c => (c.exchange, c.kind) = (ExchangeId.binanceSpot, SubKind.publicTrades)) = 2 ∧
    r.conns = exBatches.map (fun b => (specGroups instOps b).map connOf) ∧
    (∀ e, e ∈ r.chans.get .trades ↔ e = .binanceSpot ∨ e = .okx) := by
  obtain ⟨r, hr⟩ := (init_ok_iff_all_supported instOps stableSort_unstable exBatches).mpr (by decide)
  have h1 := same_key_in_different_batches_stays_separate instOps stableSort_unstable exBatches r hr
    (ExchangeId.binanceSpot, SubKind.publicTrades)
  refine ⟨r, hr, h1.1, ?_, init_refines_spec instOps exBatches r hr, ?_⟩
  · rw [h1.2]; decide
  · intro e
    rw [(init_channels instOps stableSort_unstable exBatches r hr .trades e).1]
    have : ∀ e ∈ ExchangeId.all, (specChanOwner exBatches .trades e = true ↔ e = .binanceSpot ∨ e = .okx) := by
      decide +kernel
    exact this e (mem_all e)

/-- the first rejected subscription is the one reported -/
example :
    init instOps stableSort
      [[⟨.binanceSpot, ⟨1, 0, .spot⟩, .publicTrades⟩], [⟨.kraken, ⟨0, 0, .spot⟩, .orderBooksL2⟩,
        ⟨.coinbase, ⟨0, 0, .perpetual⟩, .publicTrades⟩]] =
      .error (.validation ⟨.kraken, ⟨0, 0, .spot⟩, .orderBooksL2⟩) := by decide +kernel

example : ({ trades := [.okx, .kraken] } : Chans).Nodup := by intro f; cases f <;> decide

end BarterModel.Props.C13V
