import BarterModel.Lemmas.MockClient
/-!
# C08C — the MockExecution client and its request / response protocol with the simulated exchange

Sub-check of C08. Statements only; the proofs go through `Lemmas/MockClient.lean`. The model is
`Model/MockClient.lean`:

* `XState` — the C08 exchange (`MockExchange.State`, reused unchanged) plus the two order maps an
  exchange is configured with; `XState.init c` is `MockExchange::new` / `AccountState::from`,
  `XState.step` one iteration of `MockExchange::run`, `XState.groups` the `instruments` of
  `account_snapshot`.
* `Sys` — client(s), unbounded request channel, the exchange task (scheduled or not, alive or gone),
  the sleeping latency tasks under a virtual clock, the broadcast channel and its subscribers, the
  worker tasks waiting on their oneshots; `Sys.step s op` is one operation of a history followed by
  the runtime running to quiescence, `Sys.run` a whole history, `Sys.init c w` the wiring of
  `builder.rs` with `w` workers.
* `Spec.*` — the abstract specification written from the documented intent: `Spec.answer` (what the
  exchange answers, from the configuration and the requests seen before — the ledger part is the C08
  specification), `Spec.groups` (orders per instrument), `Spec.SSys` (the protocol without exchange
  state, timers or channel buffer).

Exchange time. `update_time_exchange` computes `time_request.checked_add_signed(latency / 2)
.unwrap_or(time_request)`: `stampTime latency t` is `t + latency / 2` when that is `≤ maxTime`
(chrono's `DateTime::<Utc>::MAX_UTC`, 8210266876799999 ms) and `t` itself otherwise. The C08 ledger
(`MockExchange.step`, not edited) adds `latency / 2` unconditionally; `XState.step` feeds it the
request time `ledgerTime latency t = stampTime latency t - latency / 2`, which is `t` in range.

Hypotheses, used only where stated:
* `c.base.wf = true` — the C08 well-formedness of the configuration (every initial balance has
  `total = free`, instrument assets have balances); outside it `open_order` panics, the exchange
  task dies and the model treats it as gone.
* `Spec.distinctCids c` — no two configured open orders and no two configured cancelled orders share
  a client order id (the code keys its maps by `cid` alone: `cid_collision_*` below show what happens
  otherwise).
-/
namespace BarterModel.Props.C08C
open BarterModel.MockExchange BarterModel.MockClient

/-! ## 1. The exchange with its configured orders -/

/-- The ledger part of the extended exchange evolves exactly as the C08 exchange fed the ledger time
of each request, and broadcasts the same notifications, request by request and over whole histories:
every C08 theorem applies to it. (Conjuncts 1-2 are the definition of `XState.step` read back —
bookkeeping; the third is an induction.) -/
theorem ledger_is_C08 (x : XState) (t : Int) (rq : Request) (ops : List (Int × Request)) :
    (x.step t rq).1.base = (MockExchange.step x.base (ledgerTime x.base.latency t) rq).1 ∧
    (x.step t rq).2.2 = (MockExchange.step x.base (ledgerTime x.base.latency t) rq).2.2 ∧
    (x.run ops).base = MockExchange.run x.base (ledgerOps x.base.latency ops) :=
  ⟨(step_base x t rq).1, (step_base x t rq).2, xrun_base x ops⟩

/-- The ledger time IS the request time whenever `t + latency / 2` is a `DateTime<Utc>`, and it is
`t - latency / 2` beyond: in range nothing is shifted. -/
theorem ledger_time_cases (l : Nat) (t : Int) :
    (t + ((l / 2 : Nat) : Int) ≤ maxTime → ledgerTime l t = t) ∧
    (maxTime < t + ((l / 2 : Nat) : Int) → ledgerTime l t = t - ((l / 2 : Nat) : Int)) := by
  unfold ledgerTime stampTime
  constructor <;> intro h <;> split <;> omega

/-- … hence for requests in chrono's range (every request time plus half a latency is `≤ maxTime`)
the ledger part is the C08 exchange on the very same requests — the statement `ledger_is_C08` had
before the `unwrap_or(time_request)` fallback was modelled. -/
theorem ledger_is_C08_in_range (x : XState) (t : Int) (rq : Request) (ops : List (Int × Request))
    (ht : t + ((x.base.latency / 2 : Nat) : Int) ≤ maxTime)
    (hops : ∀ op ∈ ops, op.1 + ((x.base.latency / 2 : Nat) : Int) ≤ maxTime) :
    (x.step t rq).1.base = (MockExchange.step x.base t rq).1 ∧
    (x.step t rq).2.2 = (MockExchange.step x.base t rq).2.2 ∧
    (x.run ops).base = MockExchange.run x.base ops := by
  have e : ledgerOps x.base.latency ops = ops := by
    unfold ledgerOps
    conv => rhs; rw [← List.map_id ops]
    apply List.map_congr_left
    intro op hop
    rw [(ledger_time_cases _ _).1 (hops op hop)]; rfl
  have h := ledger_is_C08 x t rq ops
  rw [(ledger_time_cases _ _).1 ht, e] at h
  exact h

/-- WITNESS at the excluded point (corpus case `max_clock_falls_back`, latency 100, request time
8210266876799950 = `maxTime` - 49): the code's exchange clock stays at the request time, the C08
ledger on the same request would show 8210266876800000 — not a `DateTime<Utc>`. -/
theorem ledger_differs_past_max :
    let x : XState := XState.init { base := { latency := 100, fee := 0, init := [(5, 5), (50, 50)], instruments := [⟨0, 1⟩] },
                                    cap := 4, groups := [] }
    (x.step 8210266876799950 .fetchBalances).1.base.time = 8210266876799950 ∧
    (MockExchange.step x.base 8210266876799950 .fetchBalances).1.time = 8210266876800000 ∧
    (x.step 8210266876799950 .fetchBalances).2.1 =
      .balances [⟨5, 5, 8210266876799950⟩, ⟨50, 50, 8210266876799950⟩] ∧
    (x.step 8210266876799949 .fetchBalances).2.1 =
      .balances [⟨5, 5, 8210266876799999⟩, ⟨50, 50, 8210266876799999⟩] := by
  decide +kernel

/-- Market orders never rest: whatever the exchange is asked, for every history, the cancelled
orders stay exactly as they were and the open orders keep everything but their time stamp. -/
theorem orders_never_change (x : XState) (ops : List (Int × Request)) :
    (x.run ops).cancels = x.cancels ∧
    (x.run ops).opens.map OpenOrd.untimed = x.opens.map OpenOrd.untimed :=
  ⟨xrun_cancels x ops, xrun_opens_untimed x ops⟩

/-- `update_time_exchange`'s `checked_add_signed(latency / 2).unwrap_or(time_request)`: the exchange
time of a request stamped `t` is `t + latency / 2` if that is at most chrono's largest
`DateTime<Utc>` (`maxTime`), and `t` itself otherwise; it never lies before the request time nor
beyond `maxTime` (for a request time that is itself a `DateTime<Utc>`). -/
theorem exchange_time_cases (l : Nat) (t : Int) :
    (t + ((l / 2 : Nat) : Int) ≤ maxTime → stampTime l t = t + ((l / 2 : Nat) : Int)) ∧
    (maxTime < t + ((l / 2 : Nat) : Int) → stampTime l t = t) ∧
    t ≤ stampTime l t ∧ (t ≤ maxTime → stampTime l t ≤ maxTime) := by
  unfold stampTime
  refine ⟨fun h => ?_, fun h => ?_, ?_, fun h => ?_⟩ <;> split <;> omega

/-- WITNESS of the fallback (latency 100): one millisecond decides — 8210266876799949 is still
stamped half a latency later (= `maxTime`), 8210266876799950 keeps its own time; at `maxTime` itself
every positive half-latency falls back, and a latency of 0 or 1 never does. -/
theorem exchange_time_falls_back_at_max :
    stampTime 100 8210266876799949 = 8210266876799999 ∧ stampTime 100 8210266876799950 = 8210266876799950 ∧
    stampTime 2 maxTime = maxTime ∧ stampTime 1 maxTime = maxTime ∧
    stampTime 20000000000000000 1000 = 1000 := by
  decide +kernel

/-- The specification's exchange time (`Spec.exchTime`, written on its own) is the code's. -/
theorem spec_exchange_time (c : XCfg) (t : Int) : Spec.exchTime c t = stampTime c.base.latency t :=
  exchTime_eq c t

/-- `update_time_exchange`: processing a request stamped `t` puts the exchange time
`stampTime latency t` (`exchange_time_cases`: `t + latency / 2`, or `t` past chrono's range) on the
exchange clock, on every balance and on every open order — not on the cancelled orders. (That the
open orders carry the stamp is the definition of `XState.step` read back — bookkeeping; the clock and
balance parts go through the C08 ledger.) -/
theorem update_time_stamps (x : XState) (t : Int) (rq : Request) :
    let te : Int := stampTime x.base.latency t
    let x' := (x.step t rq).1
    x'.base.time = te ∧ (∀ b ∈ x'.base.balances, b.time = te) ∧ (∀ o ∈ x'.opens, o.time = te) ∧
    x'.cancels = x.cancels := by
  have hte := updateTime_ledgerTime x.base t
  refine ⟨?_, ?_, ?_, step_cancels x t rq⟩
  · rw [(step_base x t rq).1, step_time, hte]
  · rw [(step_base x t rq).1, ← hte]; exact step_balance_times x.base _ rq
  · intro o ho
    rw [step_opens] at ho
    simp only [stampOpens, List.mem_map] at ho
    obtain ⟨o0, _, rfl⟩ := ho
    rfl

/-- … in chrono's range that is `t + latency / 2` (the statement `update_time_stamps` had before the
fallback was modelled, now with its hypothesis). -/
theorem update_time_stamps_in_range (x : XState) (t : Int) (rq : Request)
    (ht : t + ((x.base.latency / 2 : Nat) : Int) ≤ maxTime) :
    let te : Int := t + ((x.base.latency / 2 : Nat) : Int)
    let x' := (x.step t rq).1
    x'.base.time = te ∧ (∀ b ∈ x'.base.balances, b.time = te) ∧ (∀ o ∈ x'.opens, o.time = te) ∧
    x'.cancels = x.cancels := by
  have h := update_time_stamps x t rq
  rw [(exchange_time_cases _ _).1 ht] at h
  exact h

/-- After any non-empty history the open orders are the initial ones, each carrying the exchange
time of the LAST request (also when an earlier request carried a later time): `t + latency / 2`, or
`t` itself when that is past chrono's range. -/
theorem open_orders_carry_last_request_time (x : XState) (ops : List (Int × Request)) (op : Int × Request) :
    (x.run (ops ++ [op])).opens = x.opens.map fun o => { o with time := stampTime x.base.latency op.1 } :=
  xrun_opens_snoc x ops op

/-- … in chrono's range. -/
theorem open_orders_carry_last_request_time_in_range (x : XState) (ops : List (Int × Request)) (op : Int × Request)
    (ht : op.1 + ((x.base.latency / 2 : Nat) : Int) ≤ maxTime) :
    (x.run (ops ++ [op])).opens = x.opens.map fun o => { o with time := op.1 + ((x.base.latency / 2 : Nat) : Int) } := by
  rw [open_orders_carry_last_request_time, (exchange_time_cases _ _).1 ht]

/-- WITNESS at the excluded point: a configured open order after a request stamped `maxTime` - 49
under latency 100 carries the request time itself. -/
theorem open_order_time_falls_back :
    ((XState.init { base := { latency := 100, fee := 0, init := [(5, 5)], instruments := [] }, cap := 4,
                    groups := [(0, [⟨⟨0, 0, 1, .buy, .limit, 10, 1, 0⟩, .open 1 10 0⟩])] }).run
        [(0, .fetchBalances), (8210266876799950, .fetchOrdersOpen)]).opens =
      [⟨⟨0, 0, 1, .buy, .limit, 10, 1, 0⟩, 1, 8210266876799950, 0⟩] := by
  decide +kernel

/-- `AccountState::from` looks at the orders only: the instrument an `InstrumentAccountSnapshot` is
filed under (and the split into snapshots) has no influence. -/
theorem init_ignores_filing (groups : List (Nat × List InitOrd)) :
    ordersFrom groups = (groups.flatMap (·.2)).foldl absorb ([], []) :=
  ordersFrom_flat groups

/-- With distinct client order ids the exchange starts with exactly the configured open and
cancelled orders (listed by client order id): nothing is lost, nothing else is kept — orders in any
other state (in flight, filled, expired, failed) are dropped. -/
theorem init_keeps_configured_orders {c : XCfg} (h : Spec.distinctCids c) :
    (XState.init c).opens = Spec.byCid (·.head.cid) (Spec.initialOpen c) ∧
    (XState.init c).cancels = Spec.byCid (·.head.cid) (Spec.initialCancelled c) ∧
    (XState.init c).opens.Perm (Spec.initialOpen c) ∧
    (XState.init c).cancels.Perm (Spec.initialCancelled c) := by
  refine ⟨init_opens_byCid h, init_cancels_byCid h, ?_, ?_⟩
  · rw [init_opens_byCid h]; exact List.mergeSort_perm _ _
  · rw [init_cancels_byCid h]; exact List.mergeSort_perm _ _

/-- The order maps are keyed by the client order id ALONE: inserting an order whose `cid` is already
present — whatever its instrument or strategy — replaces the earlier order, which is gone. (A generic
fact of `insertKey` — bookkeeping; what it means for a configuration is `cid_collision_loses_an_order`.) -/
theorem cid_collision_last_wins {m : List OpenOrd} (hs : KeySorted (·.head.cid) m) {a v : OpenOrd}
    (ha : a ∈ m) (hk : a.head.cid = v.head.cid) (hne : a ≠ v) :
    a ∉ insertKey (·.head.cid) v m ∧ v ∈ insertKey (·.head.cid) v m :=
  ⟨insertKey_replaces (·.head.cid) v hs ha hk hne, self_mem_insertKey _ v m⟩

/-- … concretely: two configured open orders on different instruments (and strategies) with the same
client order id — the exchange starts with one open order. -/
def collidingCfg : XCfg :=
  { base := { latency := 0, fee := 0, init := [(1, 1)], instruments := [] }, cap := 1,
    groups := [(0, [⟨⟨0, 0, 5, .buy, .limit, 10, 1, 0⟩, .open 7 33 0⟩]),
               (1, [⟨⟨1, 1, 5, .sell, .limit, 9, 2, 0⟩, .open 8 44 0⟩])] }

theorem cid_collision_loses_an_order :
    (Spec.initialOpen collidingCfg).length = 2 ∧
    (XState.init collidingCfg).opens = [⟨⟨1, 1, 5, .sell, .limit, 9, 2, 0⟩, 8, 44, 0⟩] := by
  decide +kernel

/-- The exchange numbers its own orders from 0 whatever ids the configured orders carry: with a
configured open order whose id is 0, the first accepted order gets id 0 as well (ids are fresh among
the exchange's own orders only — C08 `ids_fresh`). -/
def idCfg : XCfg :=
  { base := { latency := 0, fee := 0, init := [(10, 10), (100, 100)], instruments := [⟨0, 1⟩] }, cap := 4,
    groups := [(0, [⟨⟨0, 0, 1, .buy, .limit, 9, 1, 0⟩, .open 0 5 0⟩])] }

theorem fresh_id_collides_with_configured_id :
    ∃ f, ((XState.init idCfg).step 0 (.openOrder ⟨0, 0, 2, .buy, 10, 1, .market⟩)).2.1 = .order (.accepted f) ∧
      ∃ o ∈ (XState.init idCfg).opens, o.id = f.id := by
  refine ⟨⟨0, 0, 1, 1, ⟨90, 90, 0⟩, ⟨0, 0, 0, 0, 0, .buy, 10, 1, 0⟩⟩, by decide +kernel, ?_⟩
  exact ⟨⟨⟨0, 0, 1, .buy, .limit, 9, 1, 0⟩, 0, 5, 0⟩, by decide +kernel, rfl⟩

/-- `account_snapshot().instruments`: instruments strictly ascending (each listed once); a group
holds exactly the orders of its instrument, in the order they have in `open ++ cancelled` (the model's
sort is stable; the code's is not and the harness sorts each group); no group is empty; every order
is in the group of its instrument. -/
theorem snapshot_groups (x : XState) : IsGrouping x.ordersAll x.groups :=
  groups_grouping x.ordersAll

/-- An instrument is listed in the snapshot iff the account holds an order for it: instruments the
exchange is configured for, or that had an (empty) entry in the initial snapshot, are NOT listed
when they have no order. -/
theorem instrument_listed_iff_has_order (x : XState) (i : Nat) :
    i ∈ x.groups.map (·.1) ↔ ∃ o ∈ x.ordersAll, o.instr = i :=
  (groups_grouping x.ordersAll).key_mem_iff i

/-- The grouping is unique, hence the snapshot's listing is the specification's. -/
theorem snapshot_groups_eq_spec (x : XState) : x.groups = Spec.groups x.ordersAll :=
  groups_eq_spec x

/-- A cancel request is never answered: the response sender is dropped, nothing is broadcast and the
ledger is untouched — but the exchange clock and the time stamps move. -/
theorem cancel_request_dropped (x : XState) (t : Int) :
    (x.step t .cancelOrder).2 = (.dropped, []) ∧
    ledger (x.step t .cancelOrder).1.base = ledger x.base ∧
    (x.step t .cancelOrder).1.base.trades = x.base.trades ∧ (x.step t .cancelOrder).1.base.seq = x.base.seq := by
  refine ⟨by simp [XState.step, MockExchange.step], ?_, ?_, ?_⟩ <;>
    simp [XState.step, MockExchange.step, updateTime_ledger] <;> simp [updateTime]

/-- REFINEMENT (exchange): from a well-formed configuration with distinct client order ids, after
ANY history of requests the response to the next request conforms to the history-only answer of the
specification — accepted order with the specified id / time / debited balance / fill, rejection,
ledger with its time stamps, configured open orders restamped, orders per instrument, fills since —
and exactly the notifications that answer is accompanied by are broadcast. -/
theorem answers_refine_spec {c : XCfg} (hc : c.base.wf = true) (hd : Spec.distinctCids c)
    (hist : List (Int × Request)) (t : Int) (rq : Request) :
    Spec.Conforms (((XState.init c).run hist).step t rq).2.1 (Spec.answer c hist t rq) ∧
    (((XState.init c).run hist).step t rq).2.2 = (Spec.answer c hist t rq).events :=
  step_conforms hc hd hist t rq

/-- In particular `account_snapshot` / `fetch_open_orders` return the configured open (and cancelled)
orders for every later history, the open ones restamped with the exchange time of the request
(`Spec.exchTime`: half a latency later, or the request time past chrono's range). -/
theorem configured_orders_reported_forever {c : XCfg} (hd : Spec.distinctCids c)
    (hist : List (Int × Request)) (t : Int) (rq : Request) :
    let x' := (((XState.init c).run hist).step t rq).1
    x'.opens = Spec.openAt c (Spec.exchTime c t) ∧
    x'.cancels = Spec.byCid (·.head.cid) (Spec.initialCancelled c) ∧
    x'.groups = Spec.groups (Spec.ordersAt c (Spec.exchTime c t)) := by
  obtain ⟨h1, h2, h3⟩ := step_orders hd hist t rq
  exact ⟨h1, h2, by rw [groups_eq_spec, h3]⟩

/-! ## 2. The protocol: requests, responses, timing

`Reach c w s`: `s` is reachable from the initial wiring of configuration `c` with `w` workers by some
history of operations (clock changes, calls from any worker, abandoned calls, the exchange task
being scheduled / not scheduled / aborted, virtual time passing, subscriptions, polls). -/

def Reach (c : XCfg) (w : Nat) (s : Sys) : Prop := ∃ ops, s = (Sys.init c w).run ops

theorem reach_cfg {c : XCfg} {w : Nat} {s : Sys} (h : Reach c w s) : s.cfg = c := by
  obtain ⟨ops, rfl⟩ := h; exact run_cfg _ ops

/-- WHILE the exchange task exists, its state is the initial exchange run over the requests it has
processed, and it is well formed (so its next `open_order` cannot panic). That it DOES still exist
is `exchange_never_dies`. -/
theorem exchange_state_is_run {c : XCfg} (hc : c.base.wf = true) {w : Nat} {s : Sys} (h : Reach c w s) :
    ∀ x, s.exch = some x → x = (XState.init c).run (plogOps s.plog) ∧ WF x.base := by
  obtain ⟨ops, rfl⟩ := h
  have hi := (reach_inv hc w ops).1
  intro x hx
  have := hi.exch_run x hx
  rw [run_cfg] at this
  exact ⟨this, hi.exch_wf x hx⟩

/-- The exchange never panics: from a well-formed configuration (no hypothesis on the client order
ids) the exchange task exists after every history that does not abort it — whatever is called, with
whatever arguments, in whatever interleaving. -/
theorem exchange_never_dies {c : XCfg} (hc : c.base.wf = true) (w : Nat) (ops : List Op)
    (hno : Op.exchStop ∉ ops) : ((Sys.init c w).run ops).exch.isSome = true :=
  run_alive (Inv.init hc w) (Settled.init c w) rfl ops hno

/-- WITNESS outside the hypothesis ("a panic kills the task silently"): instrument 0 sells asset 5,
which has no balance — `open_order`'s `expect` fires, the exchange task is gone, the caller (and every
later caller) gets `ExchangeOffline` at once; nothing else tells. Tied to the code by correspondence
only (corpus case `panic_kills_exchange`); the specification is silent on ill-formed configurations. -/
theorem ill_formed_configuration_kills_exchange :
    let c : XCfg := { base := { latency := 0, fee := 0, init := [(50, 50)], instruments := [⟨5, 0⟩] }, cap := 4, groups := [] }
    let s := (Sys.init c 1).run [.call 0 (.open ⟨0, 1, 70, .sell, 10, 2, .market⟩ 0)]
    c.base.wf = false ∧ s.exch.isNone = true ∧
    s.out.map (fun d => (d.worker, d.call, d.elapsed, d.out)) = [(0, 0, 0, .offline)] ∧
    ((s.run [.call 0 .balances]).out.map fun d => (d.worker, d.call, d.elapsed, d.out)) = [(0, 1, 0, .offline)] := by
  decide +kernel

/-- FIFO: the requests the exchange has processed, followed by those still in the channel, are the
requests that were sent, in the order of sending — nothing lost, duplicated or overtaken while the
exchange lives; once it is gone the processed ones are a prefix of the sent ones. -/
theorem requests_seen_in_send_order {c : XCfg} (hc : c.base.wf = true) {w : Nat} {s : Sys} (h : Reach c w s) :
    ∃ lost, s.plog.map (·.call) ++ s.queue.map (·.call) ++ lost = sentIds s.calls ∧
      (s.exch.isSome → lost = []) ∧ (s.exch = none → s.queue = []) := by
  obtain ⟨ops, rfl⟩ := h
  have hi := (reach_inv hc w ops).1
  obtain ⟨lost, h1, h2⟩ := hi.fifo
  exact ⟨lost, h1, h2, hi.dead_queue⟩

/-- The client stamps a request with the value of ITS clock function at the moment of the call …
(one unfolding of `Sys.call` — bookkeeping; the result is `request_carries_callers_clock`). -/
theorem call_stamps_clock (s : Sys) (w : Nat) (c : Call) :
    (s.call w c).calls = s.calls ++ [⟨w, s.clock, s.now, c, s.exch.isSome⟩] ∧
    (s.exch.isSome → (s.call w c).queue = s.queue ++ [⟨s.calls.length, s.clock, c.wire⟩]) := by
  unfold Sys.call
  simp only
  split
  · rename_i h; exact ⟨rfl, fun _ => rfl⟩
  · rename_i h; exact ⟨by simp, fun h' => absurd h' h⟩

/-- … and that is the time the exchange sees, however much later it gets to the request and whatever
the clock says by then: every queued or processed request carries the clock value and the request
kind of the call it belongs to. -/
theorem request_carries_callers_clock {c : XCfg} (hc : c.base.wf = true) {w : Nat} {s : Sys} (h : Reach c w s) :
    (∀ p ∈ s.plog, ∃ cr, s.calls[p.call]? = some cr ∧ p.t = cr.t ∧ p.rq = cr.what.wire) ∧
    (∀ m ∈ s.queue, ∃ cr, s.calls[m.call]? = some cr ∧ m.t = cr.t ∧ m.rq = cr.what.wire) := by
  obtain ⟨ops, rfl⟩ := h
  have hi := (reach_inv hc w ops).1
  refine ⟨fun p hp => ?_, fun m hm => ?_⟩
  · obtain ⟨cr, h1, h2, h3, _⟩ := hi.issued_p p hp; exact ⟨cr, h1, h2.symm, h3.symm⟩
  · obtain ⟨cr, h1, h2, h3, _⟩ := hi.issued_q m hm; exact ⟨cr, h1, h2.symm, h3.symm⟩

/-- NO CROSS-TALK, from a well-formed configuration alone (colliding client order ids allowed).
Whenever a worker's call returns with a response (in any reachable state, however many calls of
other workers are in flight), that response is what the exchange produced for THAT worker's own
request — the request issued by that worker (`cr.worker = d.worker`), of the kind it called
(`cr.what = d.what`), stamped with its clock — in the state the exchange had after the requests it
processed before; it arrived no earlier than one latency after the exchange saw the request;
`elapsed` is measured from the call. -/
theorem response_is_to_own_request {c : XCfg} (hc : c.base.wf = true)
    {w : Nat} {s : Sys} (h : Reach c w s) (d : Done) (hdn : d ∈ s.out) (r : XResp) (hr : d.out = .answered r) :
    ∃ (k : Nat) (p : PRec) (cr : CRec),
      s.plog[k]? = some p ∧ p.call = d.call ∧ s.calls[d.call]? = some cr ∧
      cr.worker = d.worker ∧ cr.what = d.what ∧ p.t = cr.t ∧ p.rq = cr.what.wire ∧
      r = (((XState.init c).run (plogOps (s.plog.take k))).step cr.t cr.what.wire).2.1 ∧
      p.at_ + c.base.latency ≤ s.now ∧ cr.at_ ≤ p.at_ ∧ d.elapsed = s.now - cr.at_ ∧
      c.base.latency ≤ d.elapsed := by
  have hcfg := reach_cfg h
  obtain ⟨ops, rfl⟩ := h
  have hi := (reach_inv hc w ops).1
  obtain ⟨⟨cr, hc1, hc2, hc3, hc4⟩, hj⟩ := hi.wo.out d hdn
  rw [hr] at hj
  obtain ⟨p, hp, hp1, hp2, _, hp4⟩ := hj
  obtain ⟨k, hk, rfl⟩ := List.mem_iff_getElem.mp hp
  obtain ⟨cr', hq1, hq2, hq3, _⟩ := hi.issued_p _ hp
  rw [hp1, hc1] at hq1
  injection hq1 with hq1; subst hq1
  obtain ⟨ho1, _⟩ := hi.plog_ok k _ (List.getElem?_eq_getElem hk)
  rw [hcfg] at ho1
  have hsent := hi.sent_p _ hp cr (by rw [hp1]; exact hc1)
  simp only [Sys.latency, hcfg] at hp4
  refine ⟨k, _, cr, List.getElem?_eq_getElem hk, hp1, hc1, hc2, hc3, hq2.symm, hq3.symm, ?_, hp4, hsent, hc4, ?_⟩
  · rw [← hp2, ho1, hq2, hq3]
  · rw [hc4]; omega

/-- … and with distinct client order ids that response conforms to the specification's history-only
answer (only this conjunct needs `Spec.distinctCids`; corollary of `response_is_to_own_request` and
`answers_refine_spec`). -/
theorem response_is_answer_to_own_request {c : XCfg} (hc : c.base.wf = true) (hd : Spec.distinctCids c)
    {w : Nat} {s : Sys} (h : Reach c w s) (d : Done) (hdn : d ∈ s.out) (r : XResp) (hr : d.out = .answered r) :
    ∃ (k : Nat) (p : PRec) (cr : CRec),
      s.plog[k]? = some p ∧ p.call = d.call ∧ s.calls[d.call]? = some cr ∧
      cr.worker = d.worker ∧ cr.what = d.what ∧ p.t = cr.t ∧ p.rq = cr.what.wire ∧
      r = (((XState.init c).run (plogOps (s.plog.take k))).step cr.t cr.what.wire).2.1 ∧
      Spec.Conforms r (Spec.answer c (plogOps (s.plog.take k)) cr.t cr.what.wire) ∧
      p.at_ + c.base.latency ≤ s.now ∧ cr.at_ ≤ p.at_ ∧ d.elapsed = s.now - cr.at_ ∧
      c.base.latency ≤ d.elapsed := by
  obtain ⟨k, p, cr, h1, h2, h3, h4, h5, h6, h7, h8, h9, h10, h11, h12⟩ :=
    response_is_to_own_request hc h d hdn r hr
  refine ⟨k, p, cr, h1, h2, h3, h4, h5, h6, h7, h8, ?_, h9, h10, h11, h12⟩
  rw [h8]
  exact (step_conforms hc hd (plogOps (s.plog.take k)) cr.t cr.what.wire).1

/-- A call fails with `ExchangeOffline` only for one of two reasons: it was a cancel request and the
exchange has seen it (the exchange being perfectly alive), or the exchange is gone and never
processed the request. -/
theorem offline_only_if_cancel_or_gone {c : XCfg} (hc : c.base.wf = true) {w : Nat} {s : Sys} (h : Reach c w s)
    (d : Done) (hdn : d ∈ s.out) (hr : d.out = .offline) :
    (∃ p ∈ s.plog, p.call = d.call ∧ p.rq = .cancelOrder ∧ ∃ i st cid, d.what = .cancel i st cid) ∨
    (s.exch = none ∧ ∀ p ∈ s.plog, p.call ≠ d.call) := by
  obtain ⟨ops, rfl⟩ := h
  have hi := (reach_inv hc w ops).1
  obtain ⟨⟨cr, hc1, _, hc3, _⟩, hj⟩ := hi.wo.out d hdn
  rw [hr] at hj
  rcases hj with ⟨p, hp, hp1, hp2⟩ | hj
  · left
    obtain ⟨k, hk, rfl⟩ := List.mem_iff_getElem.mp hp
    obtain ⟨ho1, _⟩ := hi.plog_ok k _ (List.getElem?_eq_getElem hk)
    rw [ho1, step_dropped_iff] at hp2
    obtain ⟨cr', hq1, _, hq3, _⟩ := hi.issued_p _ hp
    rw [hp1, hc1] at hq1
    injection hq1 with hq1; subst hq1
    refine ⟨_, hp, hp1, hp2, ?_⟩
    rw [hp2, hc3] at hq3
    cases hw : d.what <;> simp [hw, Call.wire] at hq3
    exact ⟨_, _, _, rfl⟩
  · exact Or.inr hj

/-- Between operations nothing is overdue (every sleeping latency task has its deadline in the
future: responses and notifications are delivered at the first moment the virtual clock reaches
`seen + latency`) and a scheduled, living exchange has emptied the request channel. -/
theorem nothing_overdue {c : XCfg} (hc : c.base.wf = true) {w : Nat} {s : Sys} (h : Reach c w s) :
    (∀ tm ∈ s.timers, s.now < tm.due) ∧ (s.gate = true → s.exch.isSome → s.queue = []) := by
  obtain ⟨ops, rfl⟩ := h
  have hs := (reach_inv hc w ops).2
  exact ⟨hs.timers_future, hs.queue_empty⟩

/-- Every sleeping response task belongs to a processed request, carries that request's response
for that request's oneshot, and wakes exactly one latency after the exchange saw the request. -/
theorem response_task_is_for_its_request {c : XCfg} (hc : c.base.wf = true) {w : Nat} {s : Sys}
    (h : Reach c w s) (tm : Timer) (htm : tm ∈ s.timers) (call : Nat) (r : XResp) (ha : tm.act = .resp call r) :
    ∃ p ∈ s.plog, p.call = call ∧ p.resp = r ∧ tm.due = p.at_ + c.base.latency := by
  have hcfg := reach_cfg h
  obtain ⟨ops, rfl⟩ := h
  have hi := (reach_inv hc w ops).1
  obtain ⟨p, hp, h1, h2, _, h4⟩ := timer_resp_justified hi.invT htm ha
  exact ⟨p, hp, h1, h2, by simpa [Sys.latency, hcfg] using h4⟩

/-! ## 3. The account stream -/

/-- What the exchange produces for the account stream when it processes a request: for an accepted
order its balance update followed by its fill, for anything else nothing. -/
theorem notifications_are_balance_then_fill {c : XCfg} (hc : c.base.wf = true) (hd : Spec.distinctCids c)
    {w : Nat} {s : Sys} (h : Reach c w s) (k : Nat) (p : PRec) (hk : s.plog[k]? = some p) :
    p.evs = (Spec.answer c (plogOps (s.plog.take k)) p.t p.rq).events ∧
    (p.evs = [] ∨ ∃ a b tr, p.evs = [.balance a b, .trade tr]) := by
  have hcfg := reach_cfg h
  obtain ⟨ops, rfl⟩ := h
  have hi := (reach_inv hc w ops).1
  obtain ⟨_, ho2⟩ := hi.plog_ok k p hk
  rw [hcfg] at ho2
  have := (step_conforms hc hd (plogOps (((Sys.init c w).run ops).plog.take k)) p.t p.rq).2
  rw [← ho2] at this
  refine ⟨this, ?_⟩
  rw [this]
  cases Spec.answer c (plogOps (((Sys.init c w).run ops).plog.take k)) p.t p.rq <;>
    simp [Spec.Answer.events]

/-- The broadcast channel holds, in the order the exchange processed the requests, exactly the
notifications of the requests it processed at least one latency ago; those of later requests are
still held by sleeping tasks, in order: nothing is lost, duplicated or reordered. -/
theorem account_stream_is_fills_in_order {c : XCfg} (hc : c.base.wf = true) {w : Nat} {s : Sys}
    (h : Reach c w s) :
    s.log = (s.plog.flatMap fun p => if p.at_ + c.base.latency ≤ s.now then p.evs else []) ∧
    s.log ++ s.timers.flatMap notifyEvs = s.plog.flatMap (·.evs) := by
  have hcfg := reach_cfg h
  obtain ⟨ops, rfl⟩ := h
  obtain ⟨hi, hs⟩ := reach_inv hc w ops
  refine ⟨?_, hi.log_inflight⟩
  have := hi.log_settled hs
  simpa [Sys.latency, hcfg] using this

/-- A subscriber has received exactly the contiguous segment of the channel from where it
subscribed (`start`) to where it has read (`pos`): every notification sent in between, once, in
order. A LATE subscriber (`start > 0`) never receives the `start` notifications sent before it
subscribed. -/
theorem subscriber_sees_contiguous_segment {c : XCfg} (hc : c.base.wf = true) {w : Nat} {s : Sys}
    (h : Reach c w s) (b : Sub) (hb : b ∈ s.subs) :
    b.start ≤ b.pos ∧ b.pos ≤ s.log.length ∧ b.got = (s.log.take b.pos).drop b.start := by
  obtain ⟨ops, rfl⟩ := h
  exact (reach_inv hc w ops).1.subs_ok b hb

/-- `account_stream()` subscribes at the current end of the channel (`resubscribe`). (The new
subscriber is written down by `Sys.step` — bookkeeping; the content is that `settle` leaves the
subscribers alone.) -/
theorem subscription_starts_at_the_tail (s : Sys) (s' : Sys) (obs : Option PollObs)
    (hs : s.step .sub = some (s', obs)) :
    ∃ b, s'.subs = s.subs ++ [b] ∧ b.start = s.log.length ∧ b.pos = s.log.length ∧ b.got = [] ∧ b.ended = false := by
  simp only [Sys.step, Option.some.injEq, Prod.mk.injEq] at hs
  obtain ⟨rfl, _⟩ := hs
  refine ⟨⟨s.log.length, false, s.log.length, []⟩, ?_, rfl, rfl, rfl, rfl⟩
  -- `settle` does not touch the subscribers
  have key : ∀ t : Sys, t.settle.subs = t.subs := by
    intro t
    unfold Sys.settle
    rw [(fire_fields t.runExchange).2.2.2.2.2.2.2.2.2.2.1]
    unfold Sys.runExchange
    split
    · rename_i x hg hx
      have : ∀ (ms : List Msg) (u : Sys) (y : XState), (u.processAll y ms).1.subs = u.subs := by
        intro ms
        induction ms with
        | nil => intro u y; rfl
        | cons m ms ih =>
          intro u y
          simp only [Sys.processAll]
          split
          · generalize (m :: ms) = l
            induction l generalizing u with
            | nil => rfl
            | cons a l ih' => simp only [List.foldl_cons]; rw [ih']; simp
          · rw [ih]; simp
      simpa using this t.queue { t with queue := [] } x
    · rfl
  rw [key]

/-- Polling a stream. An ended stream stays ended. A subscriber more than the channel's capacity
behind gets `Lagged`, which `map_while` turns into the end of the stream: it receives NOTHING more,
not even what is still in the channel. Otherwise it is handed everything sent since its last poll,
and the stream ends only if every sender is gone (the exchange and all sleeping notification tasks).
(The three cases of the definition of `Sys.drain` read back — bookkeeping; what a poll yields in
terms of the requests seen is `stream_refines_spec` + `account_stream_is_fills_in_order`. Observed
in the harness with the poll loop under `tokio::task::unconstrained`: tokio's cooperative budget
would otherwise cut one poll at 128 values, a scheduling artefact.) -/
theorem poll_outcome (s : Sys) (b : Sub) :
    (b.ended = true → s.drain b = (b, ⟨[], true⟩)) ∧
    (b.ended = false → s.log.length - b.pos > s.capacity →
      s.drain b = ({ b with ended := true }, ⟨[], true⟩)) ∧
    (b.ended = false → s.log.length - b.pos ≤ s.capacity →
      s.drain b = ({ b with pos := s.log.length, ended := s.closed, got := b.got ++ s.log.drop b.pos },
                   ⟨s.log.drop b.pos, s.closed⟩)) := by
  unfold Sys.drain
  refine ⟨fun h => by simp [h], fun h1 h2 => by simp [h1, h2], fun h1 h2 => ?_⟩
  have : ¬ s.log.length - b.pos > s.capacity := Nat.not_lt.mpr h2
  simp [h1, this]

/-- The capacity that counts is the least power of two `≥` the one the channel was created with
(`broadcast::channel(3)` holds 4; `channel(1)` holds 1 — less than the two notifications of a single
fill, so with capacity 1 every subscriber that is not polled between the balance update and the fill
loses its stream at the first accepted order: `capacity_one_loses_stream_at_first_fill`). (Conjunct
1 is the definition — bookkeeping; minimality is proved.) -/
theorem capacity_is_next_power_of_two (s : Sys) :
    s.capacity = nextPow2 s.cfg.cap ∧ s.cfg.cap ≤ s.capacity ∧
    ∃ k, s.capacity = 2 ^ k ∧ ∀ j, s.cfg.cap ≤ 2 ^ j → 2 ^ k ≤ 2 ^ j :=
  ⟨rfl, (nextPow2_spec s.cfg.cap).1, (nextPow2_spec s.cfg.cap).2⟩

/-- WITNESS, capacity 1: balance update and fill are sent by one latency task in one go, so no poll
can come between them; a subscriber present before the first accepted order is 2 > 1 behind at its
next poll, gets `Lagged` and its stream ends having delivered NOTHING. With capacity 2 it gets both. -/
theorem capacity_one_loses_stream_at_first_fill :
    let c1 : XCfg := { base := { latency := 100, fee := 1/100, init := [(2, 2), (100, 100)], instruments := [⟨0, 1⟩] },
                       cap := 1, groups := [] }
    let ops : List Op := [.sub, .call 0 (.open ⟨0, 1, 70, .buy, 10, 2, .market⟩ 4), .adv 100, .poll 0]
    ((Sys.init c1 1).run ops).log.length = 2 ∧
    ((Sys.init c1 1).run ops).subs.map (fun b => (b.start, b.pos, b.got.length, b.ended)) = [(0, 0, 0, true)] ∧
    ((Sys.init { c1 with cap := 2 } 1).run ops).subs.map (fun b => (b.start, b.pos, b.got.length, b.ended)) =
      [(0, 2, 2, false)] := by
  decide +kernel

/-! ## 4. When the exchange is gone -/

/-- A gone exchange stays gone and never processes another request, whatever happens next. -/
theorem gone_exchange_stays_gone {s s' : Sys} {op : Op} {obs : Option PollObs} (h : s.exch = none)
    (hs : s.step op = some (s', obs)) : s'.exch = none ∧ s'.plog = s.plog :=
  step_dead h hs

/-- A client method called when the exchange is gone fails at once — no latency — with
`ExchangeOffline`, from any state between operations. -/
theorem call_on_gone_exchange_fails_at_once {c : XCfg} (hc : c.base.wf = true) (hd : Spec.distinctCids c)
    {w : Nat} {s : Sys} (h : Reach c w s) (hdead : s.exch = none) {k : Nat} {cl : Call} {s' : Sys}
    {obs : Option PollObs} (hs : s.step (.call k cl) = some (s', obs)) :
    ∃ d ∈ s'.out, d.worker = k ∧ d.call = s.calls.length ∧ d.elapsed = 0 ∧ d.out = .offline := by
  have hcfg := reach_cfg h
  obtain ⟨ops, rfl⟩ := h
  exact call_dead_fails (reach_good hc w ops) (by rw [hcfg]; exact hd) hdead hs

/-- When the exchange task is aborted, every worker whose request was still in the channel (sent but
not yet seen) gets `ExchangeOffline` at that very moment; responses already produced are still
delivered later by their latency tasks (`response_task_is_for_its_request`). -/
theorem abort_fails_waiting_calls {c : XCfg} (hc : c.base.wf = true) (hd : Spec.distinctCids c)
    {w : Nat} {s : Sys} (h : Reach c w s) {s' : Sys} {obs : Option PollObs}
    (hs : s.step .exchStop = some (s', obs)) (k : Nat) (p : Pending) (hw : s.workers[k]? = some (some p))
    (hq : p.call ∈ s.queue.map (·.call)) :
    ∃ d ∈ s'.out, d.worker = k ∧ d.call = p.call ∧ d.elapsed = s.now - p.started ∧ d.out = .offline := by
  have hcfg := reach_cfg h
  obtain ⟨ops, rfl⟩ := h
  exact stop_fails_waiting (reach_good hc w ops) (by rw [hcfg]; exact hd) hs k p hw hq

/-- When a response finds no receiver (the worker dropped the future of its call) nothing else is
affected: exchange, channel, latency tasks, account stream and history evolve exactly as if the
worker had done nothing — the order is executed, recorded and notified all the same. -/
theorem abandoned_call_is_invisible {c : XCfg} (hc : c.base.wf = true) {w : Nat} {s : Sys} (h : Reach c w s)
    {k : Nat} {s1 s2 : Sys} {o1 o2 : Option PollObs}
    (h1 : s.step (.abandon k) = some (s1, o1)) (h2 : s.step (.clock s.clock) = some (s2, o2)) : CoreEq s1 s2 := by
  obtain ⟨ops, rfl⟩ := h
  exact abandon_is_invisible (reach_inv hc w ops).1 h1 h2

/-! ## 5. Refinement of the whole protocol to the specification

`abs s` is what the specification sees of a state: configuration, virtual time, the client clock,
whether the exchange is alive / scheduled, the requests it has seen (with the time it saw them),
the requests still waiting, the workers and the subscribers — no exchange state, no latency tasks,
no channel buffer. In the specification (`Spec.SSys`) answers are computed from the history of
requests seen (`Spec.answer`), a call ends by a RULE evaluated on that history (`SSys.ending`: seen →
answered one latency later, cancel → fails when seen, never to be seen → fails), and the account
stream is DERIVED from it (`SSys.sent`). -/

/-- PROMPTNESS / nothing is withheld: in every state between operations, a worker that is still
waiting has no ending in the specification — its request is unseen by a living exchange, or was seen
less than one latency ago. -/
theorem no_completion_withheld {c : XCfg} (hc : c.base.wf = true) (hd : Spec.distinctCids c)
    {w : Nat} {s : Sys} (h : Reach c w s) (k : Nat) (p : Pending) (hw : s.workers[k]? = some (some p)) :
    (abs s).ending p = none ∧
    ((p.call ∈ s.queue.map (·.call) ∧ s.exch.isSome ∧ ∀ q ∈ s.plog, q.call ≠ p.call) ∨
     (∃ q ∈ s.plog, q.call = p.call ∧ q.resp ≠ .dropped ∧ s.now < q.at_ + c.base.latency ∧
        ∀ q' ∈ s.plog, q'.call = p.call → q' = q)) := by
  have hcfg := reach_cfg h
  obtain ⟨ops, rfl⟩ := h
  have hg := reach_good hc w ops
  refine ⟨ending_none_of_pending hg (by rw [hcfg]; exact hd) k p hw, ?_⟩
  have := hg.prompt k p hw
  simpa [Sys.latency, hcfg] using this

/-- The account stream is what the specification derives from the requests seen, and it is closed
exactly when the specification says nothing more can come; hence a poll yields what the
specification says. -/
theorem stream_refines_spec {c : XCfg} (hc : c.base.wf = true) (hd : Spec.distinctCids c)
    {w : Nat} {s : Sys} (h : Reach c w s) :
    (abs s).sent = s.log ∧ (abs s).closed = s.closed ∧ ∀ b, (abs s).drain b = s.drain b := by
  have hcfg := reach_cfg h
  obtain ⟨ops, rfl⟩ := h
  have hg := reach_good hc w ops
  have hd' : Spec.distinctCids ((Sys.init c w).run ops).cfg := by rw [hcfg]; exact hd
  exact ⟨sent_eq_log hg hd', closed_eq hg hd', drain_eq hg hd'⟩

/-- REFINEMENT, one operation: from any reachable state, whatever operation comes next (a call from
any worker, an abandoned call, the exchange being descheduled / scheduled / aborted, time passing,
a subscription, a poll), the system does what the specification does — the abstraction of the new
state IS the specification's new state, the poll observation is the same, and the completions
handed to the workers in this operation match the specification's one to one: same worker, same
call, same elapsed time, failure for failure, and a response that conforms to the specification's
history-only answer. An operation is impossible for one iff it is for the other. -/
theorem protocol_step_refines_spec {c : XCfg} (hc : c.base.wf = true) (hd : Spec.distinctCids c)
    {w : Nat} {s : Sys} (h : Reach c w s) (op : Op) :
    (s.step op = none ↔ Spec.SSys.step (abs s) op = none) ∧
    ∀ s' obs, s.step op = some (s', obs) →
      ∃ ds, Spec.SSys.step (abs s) op = some (abs s', ds, obs) ∧ DonesMatch s'.out ds := by
  have hcfg := reach_cfg h
  obtain ⟨ops, rfl⟩ := h
  refine ⟨step_none_iff _ op, fun s' obs hs => ?_⟩
  exact step_refines_spec (reach_good hc w ops) (by rw [hcfg]; exact hd) hs

/-- REFINEMENT, whole histories: for every history of operations, the abstraction of the state the
system reaches is the state the specification reaches. -/
theorem protocol_refines_spec {c : XCfg} (hc : c.base.wf = true) (hd : Spec.distinctCids c) (w : Nat)
    (ops : List Op) : abs ((Sys.init c w).run ops) = (Spec.SSys.init c w).run ops :=
  run_refines_spec hc hd w ops

/-! ## Non-vacuity -/

/-- base asset 0 holds 2, quote asset 1 holds 100, fee 1 %, latency 100 ms, capacity 3 (→ 4), one
instrument 0/1; configured: an open order on instrument 1, a cancelled and an open one on 0, and
one in flight (dropped). -/
def c0 : XCfg :=
  { base := { latency := 100, fee := 1/100, init := [(2, 2), (100, 100)], instruments := [⟨0, 1⟩] }, cap := 3,
    groups := [(1, [⟨⟨1, 0, 5, .buy, .limit, 10, 1, 0⟩, .open 7 33 (1/2)⟩, ⟨⟨0, 0, 6, .sell, .limit, 11, 2, 1⟩, .cancelled 8 44⟩]),
               (0, [⟨⟨0, 1, 7, .buy, .limit, 9, 1, 0⟩, .open 9 55 0⟩, ⟨⟨0, 1, 8, .buy, .limit, 9, 1, 0⟩, .openInFlight⟩]),
               (2, [])] }
def buy0 : Req := { instr := 0, strategy := 1, cid := 70, side := .buy, price := 10, qty := 2, kind := .market }

example : c0.base.wf = true := by decide
example : Spec.distinctCids c0 := by
  constructor <;> decide +kernel
/-- instrument 2 (an empty entry of the initial snapshot) is not listed; 0 comes before 1 -/
example : (XState.init c0).groups.map (·.1) = [0, 1] := by decide +kernel
example : (XState.init c0).groups = Spec.groups (XState.init c0).ordersAll := by decide +kernel

/-- two workers call concurrently while the exchange is not scheduled; it then sees both in order;
100 ms later both return, each with its own answer, and the subscriber gets the fill -/
def h0 : List Op :=
  [.sub, .clock 1000, .exchOff, .call 0 (.open buy0 4), .clock 2000, .call 1 .orders, .adv 500, .exchOn, .adv 100]

example : ((Sys.init c0 2).run h0).out.map (fun d => (d.worker, d.call, d.elapsed)) = [(0, 0, 600), (1, 1, 600)] := by
  decide +kernel
example : ((Sys.init c0 2).run h0).plog.map (fun p => (p.call, p.t, p.at_)) = [(0, 1000, 500), (1, 2000, 500)] := by
  decide +kernel
example : ((Sys.init c0 2).run (h0 ++ [.poll 0])).subs.map (fun b => (b.start, b.pos, b.got.length, b.ended)) =
    [(0, 2, 2, false)] := by
  decide +kernel
/-- a second subscriber created after the fill was broadcast starts behind it; once the exchange is
aborted both streams end and further calls fail at once -/
example : ((Sys.init c0 2).run (h0 ++ [.sub, .exchStop, .poll 0, .poll 1, .call 0 .snap])).subs.map
    (fun b => (b.start, b.pos, b.got.length, b.ended)) = [(0, 2, 2, true), (2, 2, 0, true)] := by
  decide +kernel
example : ((Sys.init c0 2).run (h0 ++ [.sub, .exchStop, .poll 0, .poll 1, .call 0 .snap])).out.map
    (fun d => (d.worker, d.call, d.elapsed, d.out)) = [(0, 2, 0, .offline)] := by
  decide +kernel

end BarterModel.Props.C08C
